// Concrete replays of the defects the static rules report on the pinned tree.
// NOT part of any check: they only demonstrate that a reported violation is a genuine
// defect of the library (brief: "you can show the failing input against the real code").
// build: g++ -std=gnu++17 -O1 -g -fsanitize=address,undefined -fno-sanitize-recover=all -I<repo>/Include replays.cpp -o replays
// run:   ./replays <case>     exit 0 = behaves correctly, non-zero / sanitizer report = defect manifests
#include <new>
#include <cstdio>
#include <cstring>
#include <cstdlib>
#include <string>
#include "JSON.hpp"
#include "Template.hpp"
#include "BigInt.hpp"
#include "QExpression.hpp"
#include "HList.hpp"
using namespace Qentem;

static char *exact(const char *s, size_t n) {
    char *p = (char *)malloc(n ? n : 1);
    memcpy(p, s, n);
    return p;
}
// parse from an exact-size heap buffer (ASan sees one-past reads); returns 1 if Undefined
static int js_undef(const char *s, size_t n) {
    char       *p = exact(s, n);
    Value<char> v = JSON::Parse(p, (SizeT)n);
    int         u = v.IsUndefined();
    free(p);
    return u;
}
static int js_is(const char *s, const char *expect) {
    size_t      n = strlen(s);
    char       *p = exact(s, n);
    Value<char> v = JSON::Parse(p, (SizeT)n);
    free(p);
    if (expect == nullptr)
        return v.IsUndefined() ? 0 : (printf("expected Undefined, got %s\n", v.Stringify().First()), 1);
    if (v.IsUndefined())
        return printf("expected %s, got Undefined\n", expect), 1;
    String<char> ss = v.Stringify();
    if (strcmp(ss.First(), expect) != 0)
        return printf("expected %s, got %s\n", expect, ss.First()), 1;
    return 0;
}
static int tp_is(const char *s, const char *json, const char *expect) {
    size_t             n = strlen(s);
    char              *p = exact(s, n);
    Value<char>        v = JSON::Parse(json);
    StringStream<char> ss;
    Template::Render(p, (SizeT)n, v, ss);
    ss.InsertNull();
    free(p);
    if (expect && strcmp(ss.First(), expect) != 0)
        return printf("expected [%s], got [%s]\n", expect, ss.First()), 1;
    return 0;
}

struct Case {
    const char *name;
    int (*fn)();
};

static Case cases[] = {
    // ---- C05 / C07 JSON
    {"json_unterminated_key", [] { return js_undef("{\"abc", 5) ? 0 : 1; }},
    {"json_open_brace", [] { return js_undef("{", 1) ? 0 : 1; }},
    {"json_key_no_colon", [] { return js_undef("{\"a\"", 4) ? 0 : 1; }},
    {"json_key_colon_end", [] { return js_undef("{\"a\":", 5) ? 0 : 1; }},
    {"json_open_bracket", [] { return js_undef("[", 1) ? 0 : 1; }},
    {"json_blank", [] { return js_undef("   ", 3) ? 0 : 1; }},
    {"json_backslash_end", [] { return js_undef("[\"a\\", 4) ? 0 : 1; }},
    {"json_keyword_nul", [] { return js_undef("[true\0\0]", 8) ? 0 : 1; }},
    {"json_numeral_just_beyond_dbl_max", [] {
         int bad = 0;
         const char *docs[] = {"[4e308]", "[905E+306]", "[9.99e308]", "[-4e308]", "[2e308]"};
         for (const char *d : docs) {
             Value<char> v = JSON::Parse(d, (SizeT)strlen(d));
             if (v.IsUndefined()) continue;           // rejected: fine
             const Value<char> *x = v.GetValue(0);
             const double r = (x != nullptr) ? x->GetDouble() : 0.0;
             if (!(r > 1.7e308 || r < -1.7e308 || r != r)) {   // infinity or NaN are acceptable, a finite value is not
                 printf("expected inf/nan/rejection, got %g for %s\n", r, d);
                 ++bad;
             }
         }
         return bad;
     }},
    {"json_exponent_wraps_32_bits", [] { return (js_undef("[1e4294967297]", 15) && js_undef("[1e-4294967297]", 16)) ? 0 : 1; }},
    {"json_zero_with_exponent", [] { return js_is("[0e1,0E-2,0.0e5,-0e1]", "[0,0,0,-0]"); }},
    {"json_partial_object_in_array", [] { return js_is("[{\"a\":1 x,2]", nullptr); }},
    {"json_partial_array_in_array", [] { return js_is("[[1 x,2]", nullptr); }},
    {"json_short_unicode_escape_swallows_text", [] {
         int bad = 0;
         const char *docs[] = {"[\"\\ua\"],\"]", "[\"\\uD83D\"]1234\"]", "[\"\\u12\"]]]\"]"};
         for (const char *d : docs) {
             if (!js_undef(d, (SizeT)strlen(d))) { printf("expected Undefined for %s\n", d); ++bad; }
         }
         return bad;
     }},
    {"value_pointer_to_pointer_predicates", [] {
         Value<char> u, p1, v;
         p1.SetPointerToValue(&u);
         v["a"] = 1;
         v["b"].SetPointerToValue(&p1);
         StringStream<char> ss;
         v.Stringify(ss);
         Value<char> s, q1, q2;
         s = "x";
         q1.SetPointerToValue(&s);
         q2.SetPointerToValue(&q1);
         if (!(ss == "{\"a\":1}") || !q2.IsString() || q2.IsUndefined()) { printf("expected {\"a\":1} and a string, got %.*s / %d\n", (int)ss.Length(), ss.First(), (int)q2.IsString()); return 1; }
         return 0;
     }},
    {"json_int64_min_keeps_its_kind", [] {
         Value<char> v = JSON::Parse("[-9223372036854775808,-9223372036854775807,-9223372036854775809]");
         const Value<char> *a = v.GetValue(0), *b = v.GetValue(1), *c = v.GetValue(2);
         if (a == nullptr || b == nullptr || c == nullptr) return printf("not parsed\n"), 1;
         if (!a->IsInt64() || !b->IsInt64() || !c->IsDouble() || (a->GetInt64() != (-9223372036854775807LL - 1LL))) {
             printf("expected INT64_MIN as an integer: int=%d int=%d double=%d\n", (int)a->IsInt64(), (int)b->IsInt64(), (int)c->IsDouble());
             return 1;
         }
         return 0;
     }},
    {"json_unterminated_top_level_string", [] {
         // UnEscape returns the whole length when the text ends inside the string; "abc\" ends in an ESCAPED quote
         int bad = 0;
         const char *docs[] = {"\"abc", "\"abc\\\"", "\"a\\n", " \"x", "\"abc\\\\\\\""};
         for (const char *d : docs) {
             if (!js_undef(d, (SizeT)strlen(d))) { printf("expected Undefined for the unterminated %s\n", d); ++bad; }
         }
         bad += js_is("[\"abc\\\\\"]", "[\"abc\\\\\"]");    // a string ending in an escaped backslash IS closed
         return bad;
     }},
    {"json_scratch_stream_after_rejected_text", [] {
         // the caller's scratch stream keeps the partial unescaped text of a rejected parse; the next parse must not see it
         StringStream<char> ss;
         const char *badd = "[\"a\\nb\\q\"]";     // rejected at the unknown escape, after "a<LF>b" was unescaped into the stream
         Value<char> v1 = JSON::Parse(ss, badd, (SizeT)strlen(badd));
         const char *good = "[\"hello\"]";
         Value<char> v2 = JSON::Parse(ss, good, (SizeT)strlen(good));
         StringStream<char> out;
         v2.Stringify(out);
         if (!v1.IsUndefined() || !(out == "[\"hello\"]")) { printf("expected [\"hello\"], got %.*s\n", (int)out.Length(), out.First()); return 1; }
         return 0;
     }},
    {"json_partial_array_in_object", [] { return js_is("{\"k\":[1 x,\"b\":2}", nullptr); }},
    // ---- C06 / C20
    {"json_surrogate_pair_high_plane", [] {
         // \uD900\uDC00 is U+50000 = F1 90 80 80 in UTF-8
         Value<char> v = JSON::Parse("[\"\\uD900\\uDC00\"]");
         const String<char> *s = v.GetValue(0) ? v.GetValue(0)->GetString() : nullptr;
         if (s == nullptr) return printf("no string\n"), 1;
         const unsigned char want[] = {0xF1, 0x90, 0x80, 0x80};
         if (s->Length() != 4 || memcmp(s->First(), want, 4) != 0)
             return printf("expected F1 90 80 80, got %u units starting %02X\n", s->Length(), (unsigned char)s->First()[0]), 1;
         return 0;
     }},
    // ---- C16 ownership
    {"qexpression_move_assign_sub", [] {
         using Q = QExpression;
         Array<Q> s1; s1 += Q{Q::ExpressionType::NaturalNumber, Q::QOperation::NoOp};
         Array<Q> s2; s2 += Q{Q::ExpressionType::NaturalNumber, Q::QOperation::NoOp};
         Q a{Memory::Move(s1), Q::QOperation::NoOp};
         Q b{Memory::Move(s2), Q::QOperation::NoOp};
         a = Memory::Move(b);
         return (a.SubExpressions.Size() == 1) ? 0 : 1;
     }},
    // ---- C14 sequences
    {"array_append_array_keeps_front", [] {
         Array<String<char>> a, b;
         a += String<char>("x"); a += String<char>("y");
         b += String<char>("p"); b += String<char>("q");
         a += b;
         const String<char> *s = a.First();
         int ok = (a.Size() == 4) && (s[0] == "x") && (s[1] == "y") && (s[2] == "p") && (s[3] == "q");
         return ok ? 0 : (printf("a += b gave %s %s .. (size %u)\n", s[0].First(), s[1].First(), a.Size()), 1);
     }},
    {"stringstream_append_self", [] {
         StringStream<char> s;
         s += "abcdefgh";
         for (int i = 0; i < 6; i++) s += s;
         return (s.Length() == 512U) ? 0 : 1;
     }},
    {"string_assign_own_pointer", [] {
         String<char> s{"hello world"};
         s = (s.First() + 6);
         return (s == "world") ? 0 : (printf("got %s\n", s.First()), 1);
     }},
    {"string_equals_cstr_on_empty", [] {
         String<char> s;
         int bad = (s == "a") + !(s == "");
         const char *np = nullptr;
         bad += (s == np) ? 0 : 0;   // must not crash
         return bad ? 1 : 0;
     }},
    // ---- C19 BigInt
    {"bigint_zero_shift_left_word", [] {
         BigInt<SizeT64, 256U> z;
         z <<= 64U;   // zero shifted by a whole word: the normalising scan must stop at word 0
         return z.IsZero() ? 0 : 1;
     }},
    {"bigint_find_first_bit_low_word", [] {
         BigInt<SizeT64, 256U> b{1ULL};
         b <<= 64U;
         b |= 8ULL;   // words [8, 1]: lowest set bit is bit 3
         SizeT32 r = b.FindFirstBit();
         return (r == 3U) ? 0 : (printf("FindFirstBit = %u, want 3\n", r), 1);
     }},
    // ---- C18 grouping
    {"groupby_key_position", [] {
         Value<char> v = JSON::Parse("[{\"y\":1,\"m\":2},{\"m\":5,\"y\":1},{\"z\":0,\"y\":2,\"m\":9}]");
         Value<char> g;
         if (!v.GroupBy(g, "y")) return printf("GroupBy failed\n"), 1;
         String<char> t = g.Stringify();
         const char *want = "{\"1\":[{\"m\":2},{\"m\":5}],\"2\":[{\"z\":0,\"m\":9}]}";
         return strcmp(t.First(), want) == 0 ? 0 : (printf("got %s\nwant %s\n", t.First(), want), 1);
     }},
    {"groupby_removed_member", [] {
         Value<char> v = JSON::Parse("[{\"y\":1,\"m\":2},{\"z\":0,\"y\":1,\"m\":9}]");
         v[1].Remove("z");
         Value<char> g;
         if (!v.GroupBy(g, "y")) return printf("GroupBy failed on an object with a removed member\n"), 1;
         String<char> t = g.Stringify();
         const char *want = "{\"1\":[{\"m\":2},{\"m\":9}]}";
         return strcmp(t.First(), want) == 0 ? 0 : (printf("got %s\nwant %s\n", t.First(), want), 1);
     }},
    // ---- C15 order
    {"string_prefix_order", [] {
         String<char> a{"a"}, b{"ab"};
         int bad = 0;
         bad += !(a < b);
         bad += !(b > a);
         bad += (a > b);
         bad += !(a <= b);
         bad += (b <= a);
         return bad ? (printf("proper prefix not ordered: %d wrong answers\n", bad), 1) : 0;
     }},
    {"value_equal_cross_kind", [] {
         Value<char> a = JSON::Parse("{\"a\":1}"), b = JSON::Parse("[1]");
         return ((a == b) || (b == a)) ? (printf("object == array: %d, array == object: %d\n", (int)(a == b), (int)(b == a)), 1) : 0;
     }},
    {"sort_reverse_ordered_large", [] {
         // descending input, ascending sort: recursion depth must stay logarithmic
         Array<SizeT32> arr;
         for (SizeT32 i = 150000; i != 0; i--) arr += i;
         arr.Sort(true);
         return (arr.First()[0] == 1 && arr.First()[149999] == 150000) ? 0 : 1;
     }},
    {"stringify_member_pointing_to_undefined", [] {
         Value<char> u;
         Value<char> o;
         o["a"] = 1;
         o["b"].SetPointerToValue(&u);
         o["c"] = 3;
         Value<char> a;
         a += 1;
         a.AddPointerToValue(&u);
         a += 3;
         String<char> so = o.Stringify(), sa = a.Stringify();
         const bool ok = so.IsEqual("{\"a\":1,\"c\":3}", 13) && sa.IsEqual("[1,3]", 5);
         return ok ? 0 : (printf("object: %s array: %s\n", so.First(), sa.First()), 1);
     }},
    {"value_copy_merge_and_append_of_own_member", [] {
         Value<char> v = JSON::Parse("[1,2,3,4]");
         v.Merge(v);
         Value<char> w = JSON::Parse("{\"a\":{\"x\":1},\"b\":2,\"c\":3,\"d\":4}");
         w += *w.GetValue("a", 1);
         return ((v.Size() == 8) && (w.Size() == 5)) ? 0 : (printf("sizes %u %u\n", (unsigned)v.Size(), (unsigned)w.Size()), 1);
     }},
    {"value_groupby_into_itself", [] {
         Value<char> v = JSON::Parse("[{\"k\":1,\"x\":5},{\"k\":2,\"x\":6}]");
         const bool ok = v.GroupBy(v, "k");
         return (ok && v.IsObject() && (v.Size() == 2)) ? 0 : (printf("GroupBy into itself: ok=%d size=%u\n", (int)ok, (unsigned)v.Size()), 1);
     }},
    {"qexpression_move_assign_list_over_number", [] {
         QExpression a;
         a.Type                 = QExpression::ExpressionType::NaturalNumber;
         a.Value.Number.Natural = 5;
         QExpression b{Array<QExpression>{}, QExpression::QOperation::NoOp};
         a = Memory::Move(b);
         return (a.Type == QExpression::ExpressionType::SubOperation) ? 0 : 1;
     }},
    {"string_stepback_zero_on_empty", [] {
         String<char> s;
         s.StepBack(0);
         return (s.Length() == 0) ? 0 : 1;
     }},
    // ---- C16: an argument that lives inside the value itself
    {"value_assign_own_member_container", [] {
         Value<char> a = JSON::Parse("{\"a\":{\"x\":1,\"y\":[1,2,3]},\"b\":2}");
         a = Memory::Move(*(a["a"].GetObject()));
         Value<char> b = JSON::Parse("[[1,2,3],4]");
         b = Memory::Move(*(b[0].GetArray()));
         Value<char> c = JSON::Parse("[\"a string long enough to be on the heap\",4]");
         c = Memory::Move(*(c[0].GetString()));
         Value<char> d = JSON::Parse("{\"a\":[1,2,3],\"b\":2}");
         d += Memory::Move(*(d["a"].GetArray()));
         Value<char> e;
         e = "a string long enough to be on the heap";
         e = e.StringStorage();
         Value<char> f;
         f = "a key long enough to be on the heap!!";
         f[f.StringStorage()] = 1;
         const bool ok = a.IsObject() && (a.Size() == 2) && b.IsArray() && (b.Size() == 3) && c.IsString() && e.IsString() && f.IsObject() && (f.Size() == 1);
         return ok ? 0 : (printf("unexpected shape after assigning an own member\n"), 1);
     }},
    // ---- C12 Value typestate
    {"value_remove_by_string_key", [] {
         Value<char> v = JSON::Parse("{\"abc\":1,\"d\":2}");
         String<char> k{"abc"};
         v.Remove(k);
         const Value<char> *x = v.GetValue("abc", 3);
         return (x == nullptr) ? 0 : (printf("key abc still present after Remove(String)\n"), 1);
     }},
    {"value_assign_kind_over_container", [] {
         // leak + reinterpretation: an object re-tagged as Array without releasing it
         Value<char> v = JSON::Parse("{\"abc\":1,\"d\":2}");
         v = ValueType::Array;
         v += 1;
         return (v.Size() == 1) ? 0 : (printf("array after retag has size %u\n", v.Size()), 1);
     }},
    {"value_number_to_array_dirty_storage", [] {
         alignas(16) unsigned char buf[sizeof(Value<char>)];
         memset(buf, 0xAB, sizeof(buf));
         Value<char> *v = new (buf) Value<char>(SizeT64{5});
         (*v) += 1;
         int r = (v->Size() == 1) ? 0 : 1;
         v->~Value();
         return r;
     }},
    {"value_merge_into_moved_from_scalar", [] {
         alignas(16) unsigned char buf[sizeof(Value<char>)];
         memset(buf, 0xAB, sizeof(buf));
         Value<char> *a = new (buf) Value<char>(SizeT64{5});
         Value<char> b{Memory::Move(*a)};   // a is Undefined now, payload bits remain
         Value<char> arr = JSON::Parse("[1,2]");
         a->Merge(arr);
         int r = (a->Size() == 2) ? 0 : 1;
         a->~Value();
         return r;
     }},
    // ---- C08
    {"stringify_control_char_escaped", [] {
         Value<char> v;
         v += "a\x01" "b";
         String<char> t = v.Stringify();
         for (SizeT i = 0; i < t.Length(); i++)
             if ((unsigned char)t.First()[i] < 0x20)
                 return printf("raw control character %#x in JSON text\n", t.First()[i]), 1;
         Value<char> w = JSON::Parse(t.First(), t.Length());
         const String<char> *s = w.GetValue(0) ? w.GetValue(0)->GetString() : nullptr;
         if (s == nullptr || s->Length() != 3 || memcmp(s->First(), "a\x01" "b", 3) != 0)
             return printf("round trip lost the string: %s\n", t.First()), 1;
         return 0;
     }},
    {"tmpl_loop_under_two_ifs", [] { return tp_is("<if case=\"1\"><if case=\"1\"><loop value=\"v\">{var:v}</loop></if></if>", "[1,2,3]", "123"); }},
    {"tmpl_loop_end_inside_if", [] { return tp_is("<loop value=\"a\"><if case=\"1\"></loop>x", "[1]", nullptr); }},
    {"tmpl_stale_loop_key", [] {
         return tp_is("<loop value=\"v\" sort=\"ascend\">{var:v}</loop><loop set=\"arr\" value=\"v\">{var:v}</loop>",
                      "{\"a\":1,\"b\":2,\"arr\":[[1]]}", nullptr);
     }},
    // ---- C04 / C01 integer remainder
    // KNOWN FINDING (not repaired: EvaluateTest pins "-8^-2" == -0.015625): prints DEFECT on the current tree
    {"math_negative_base_even_negative_exponent", [] { return tp_is("{math:(-2)^-2}", "[1]", "0.25"); }},
    {"math_naturals_above_2_63_compared", [] {
         // NaturalNumber and IntegerNumber share their bits: ordering them through Number.Integer takes 2^64-1 for -1
         return tp_is("{math:18446744073709551615 > 1}|{math:18446744073709551615 < 1}|{math:9223372036854775808 >= 9223372036854775807}|"
                      "{math:(0-1) < 18446744073709551615}|{math:18446744073709551615 == (0-1)}|{math:1.5 < 18446744073709551615}|"
                      "{math:(0-5) < (0-3)}|{math:(0-3) <= 2}|{math:7 > (0-7)}",
                      "[1]", "1|0|1|1|0|1|1|1|1");
     }},
    {"tmpl_array_index_must_be_digits", [] {
         return tp_is("{var:list[:]}|{var:list[4294967297]}|{var:list[]}|{var:list[1]}", "{\"list\":[10,11,12,13,14,15,16,17,18,19,20,21]}",
                      "{var:list[:]}|{var:list[4294967297]}|{var:list[]}|11");
     }},
    {"math_power_of_real_operands", [] {
         return tp_is("{math:2.5^2}|{math:1.5^2}|{math:(-2.5)^3 == -15.625}|{math:2^2.5}|{math:2.0^3.0}", "[1]", "6.25|2.25|1|{math:2^2.5}|8");
     }},
    {"math_precedence_after_nested_climb", [] {
         return tp_is("{math:10 - 2 * 3 ^ 2 - 1}|{math:7 - 2 * 3 % 4 - 1}|{math:8-2*2^2-1 == -1}", "[1]", "-9|0|1");
     }},
    {"math_remainder_by_zero", [] { return tp_is("{math: 5 % 0}", "[1]", "{math: 5 % 0}"); }},
    {"math_remainder_by_fraction", [] { return tp_is("{math: 5 % 0.5}", "[1]", "{math: 5 % 0.5}"); }},
    {"math_remainder_min_by_minus_one", [] { return tp_is("{math: (-9223372036854775807 - 1) % -1}", "[1]", "0"); }},
    {"math_remainder_ok", [] { return tp_is("{math: 9 % 5}", "[1]", "4"); }},
    // ---- C01 template scanner / renderer
    {"tmpl_operator_lookahead", [] {
         char *p = exact("1|", 2);
         auto  e = TemplateCore<char, Value<char>, StringStream<char>>::ParseExpressions(p, 2);
         free(p);
         return 0;
     }},
    {"tmpl_var_bracket_suffix", [] { return tp_is("{var:a]}", "{\"a]\":[7]}", nullptr); }},
    {"tmpl_math_unterminated_nested", [] { return tp_is("{math:1+{math:2", "[1]", "{math:1+{math:2"); }},
    {"tmpl_svar_phrase_open_brace", [] {
         // phrase ends in '{': the tail flush must not emit the string's terminator
         Value<char> v = JSON::Parse("{\"k\":\"ab{\",\"x\":1}");
         const char *t = "{svar:k, {var:x}}";
         StringStream<char> ss;
         Template::Render(t, (SizeT)strlen(t), v, ss);
         if (ss.Length() != 3 || memcmp(ss.First(), "ab{", 3) != 0)
             return printf("expected [ab{] (3 units), got %u units\n", ss.Length()), 1;
         return 0;
     }},
    // ---- C14 / C16 self-merge: the source is the object itself
    {"harray_self_merge", [] {
         HArray<String<char>, Value<char>> h;
         h["a"] = 1; h["b"] = 2; h["c"] = 3;
         const HArray<String<char>, Value<char>> &alias = h;
         h += alias;   // Size()+Size() exceeds the capacity: the table is rebuilt while src_item still walks the old block
         return (h.Size() == 3) ? 0 : (printf("expected 3 members, got %u\n", h.Size()), 1);
     }},
    {"hlist_self_merge", [] {
         HList<String<char>> l;
         l.Insert("a", 1); l.Insert("b", 1); l.Insert("c", 1);
         const HList<String<char>> &alias = l;
         l += alias;
         return (l.Size() == 3) ? 0 : (printf("expected 3 keys, got %u\n", l.Size()), 1);
     }},
    // ---- C16: assigning a container from one of its own descendants
    {"value_assign_from_child_copy", [] {
         Value<char> v = JSON::Parse("{\"child\":{\"a\":[1,2,3],\"b\":\"a long enough string to live on the heap\"}}");
         v = v["child"];
         return (v.IsObject() && v.Size() == 2) ? 0 : (printf("expected the child object\n"), 1);
     }},
    {"value_assign_from_child_move", [] {
         Value<char> v = JSON::Parse("[[1,2,3,\"a long enough string to live on the heap\"]]");
         v = Memory::Move(v[0]);
         return (v.IsArray() && v.Size() == 4) ? 0 : (printf("expected the child array\n"), 1);
     }},
    {"array_move_assign_from_child", [] {
         Array<Array<int>> outer;   // not recursive: only shows the API; the recursive case is the tag cache
         Array<Tags::TagBit> cache;
         const char *t = "<if case=\"1\">{var:a}{var:b}</if>";
         TemplateCore<char, Value<char>, StringStream<char>>::Parse(t, (SizeT)strlen(t), cache);
         cache = Memory::Move(cache.First()->GetIfTag().Cases.First()->SubTags);
         return (cache.Size() == 2) ? 0 : (printf("expected the two sub tags, got %u\n", cache.Size()), 1);
     }},
    {"array_append_own_element", [] {
         Array<String<char>> a;
         a += String<char>("a long enough string to live on the heap 1");
         a += String<char>("a long enough string to live on the heap 2");   // Size() == Capacity() == 2
         a += a.First()[0];
         return (a.Size() == 3 && a.First()[2] == a.First()[0]) ? 0 : (printf("expected a copy of element 0\n"), 1);
     }},
    {"value_append_own_element", [] {
         Value<char> v = JSON::Parse("[\"a long enough string to live on the heap\",2]");
         v += v[0];
         return (v.Size() == 3) ? 0 : (printf("expected 3 elements\n"), 1);
     }},
    {"value_append_own_member_to_object", [] {
         Value<char> v = JSON::Parse("{\"k\":\"a long enough string to live on the heap\"}");
         v += v["k"];   // a non-array becomes an array holding the appended value
         return (v.IsArray() && v.Size() == 1 && v[0].IsString()) ? 0 : (printf("expected [string]\n"), 1);
     }},
    {"value_merge_own_child", [] {
         Value<char> v = JSON::Parse("[[1,2,3,4,5,6,7,8,9],2]");
         v.Merge(v[0]);
         return (v.Size() == 11) ? 0 : (printf("expected 11 elements, got %u\n", v.Size()), 1);
     }},
    {"value_insert_own_member", [] {
         Value<char> v = JSON::Parse("[{\"j\":\"a long enough string to live on the heap\"}]");
         v.Insert("k", Memory::Move(v[0]));   // a non-object becomes an object holding the inserted value
         return (v.IsObject() && v.Size() == 1) ? 0 : (printf("expected an object with one member\n"), 1);
     }},
    {"value_merge_move_own_child", [] {
         Value<char> v = JSON::Parse("[[1,2,3,4,5,6,7,8,9,\"a long enough string to live on the heap\"],2]");
         v.Merge(Memory::Move(v[0]));
         return (v.Size() >= 10) ? 0 : (printf("expected the children appended, got %u\n", v.Size()), 1);
     }},
    {"value_append_move_own_child_object", [] {
         Value<char> v = JSON::Parse("{\"a\":1,\"child\":{\"b\":2,\"c\":3,\"d\":4,\"e\":5,\"f\":6,\"g\":7,\"h\":8}}");
         v += Memory::Move(v["child"]);   // object += object merges; the child lives in the table that grows
         return (v.IsObject() && v.Size() >= 8) ? 0 : (printf("expected the merged members\n"), 1);
     }},
    // ---- C01 / C10: rounding carry past the last digit written into a full stream
    {"digit_round_carry_full_stream", [] {
         int bad = 0;
         for (unsigned pre = 0; pre < 40; ++pre) {
             StringStream<char> ss;
             for (unsigned i = 0; i < pre; ++i) ss += 'a';
             Digit::NumberToString(ss, 0.006, Digit::RealFormatInfo{2U, Digit::RealFormatType::SemiFixed});
             Digit::NumberToString(ss, 0.996, Digit::RealFormatInfo{2U, Digit::RealFormatType::SemiFixed});
             Digit::NumberToString(ss, 9.996, Digit::RealFormatInfo{2U, Digit::RealFormatType::Fixed});
             Digit::NumberToString(ss, 99.99999, Digit::RealFormatInfo{3U, Digit::RealFormatType::Default});
         }
         return bad;
     }},
    // ---- C19: words above index_ are zero after an operation that lowers it
    {"bigint_copy_assign_shorter_source", [] {
         using B = BigInt<unsigned long long, 256U>;
         B a{7ULL};
         a <<= 64U;
         a |= 9ULL;
         a <<= 64U;
         a |= 1ULL;          // words 1, 9, 7
         B b{5ULL};
         a = b;              // one word now
         a += 0xFFFFFFFFFFFFFFFFULL;   // 5 + (2^64 - 1) = 2^64 + 4
         const bool ok = (a.Index() == 1U) && (a.Storage()[0] == 4ULL) && (a.Storage()[1] == 1ULL);
         return ok ? 0 : (printf("expected [4 1], got [%llx %llx]\n", (unsigned long long)a.Storage()[0], (unsigned long long)a.Storage()[1]), 1);
     }},
    {"bigint_and_narrower_number", [] {
         using B = BigInt<unsigned long long, 256U>;
         B e{7ULL};
         e <<= 128U;
         e |= 0xFFULL;
         e &= 0x0FULL;       // 0x0F
         e <<= 64U;          // 0x0F << 64
         e.Add(0xFFFFFFFFFFFFFFF1ULL, 1U);   // word 1 overflows to 0 and carries into word 2: exactly 2^128
         const bool ok = (e.Index() == 2U) && (e.Storage()[2] == 1ULL) && (e.Storage()[3] == 0ULL) && (e.Storage()[1] == 0ULL);
         return ok ? 0 : (printf("expected [0 0 1 0], got [%llx %llx %llx %llx]\n", (unsigned long long)e.Storage()[0], (unsigned long long)e.Storage()[1],
                                 (unsigned long long)e.Storage()[2], (unsigned long long)e.Storage()[3]), 1);
     }},
    {"bigint_multiply_by_zero_predicates", [] {
         using B = BigInt<unsigned long long, 256U>;
         B d{7ULL};
         d <<= 128U;
         d |= 3ULL;
         d *= 0ULL;
         const bool ok = d.IsZero() && !d.NotZero() && (d == 0ULL) && (d < 5ULL) && !d.IsBig();
         return ok ? 0 : (printf("expected zero predicates after x *= 0, got IsZero=%d NotZero=%d Index=%u\n", (int)d.IsZero(), (int)d.NotZero(), d.Index()), 1);
     }},
    // ---- C10: digits of the integer part are not trailing zeros of the fraction
    {"digit_integer_zeros_kept", [] {
         struct { double v; unsigned p; Digit::RealFormatType t; const char *want; } cs[] = {
             {100.04, 1U, Digit::RealFormatType::Fixed, "100.0"},     {10.04, 1U, Digit::RealFormatType::Fixed, "10.0"},
             {120.04, 1U, Digit::RealFormatType::Fixed, "120.0"},     {100.004, 2U, Digit::RealFormatType::Fixed, "100.00"},
             {119.952, 1U, Digit::RealFormatType::Fixed, "120.0"},    {109.995, 2U, Digit::RealFormatType::Fixed, "110.00"},
             {100.04, 1U, Digit::RealFormatType::SemiFixed, "100"},   {119.952, 1U, Digit::RealFormatType::SemiFixed, "120"},
             {10.007, 2U, Digit::RealFormatType::Default, "10"},      {10.007, 3U, Digit::RealFormatType::Default, "10"},
         };
         int bad = 0;
         for (auto &c : cs) {
             StringStream<char> ss;
             Digit::NumberToString(ss, c.v, Digit::RealFormatInfo{c.p, c.t});
             if (!ss.IsEqual(c.want, (SizeT)strlen(c.want))) {
                 ss += '\0';
                 printf("expected [%s], got [%s] for %.17g at precision %u\n", c.want, ss.First(), c.v, c.p);
                 ++bad;
             }
         }
         return bad;
     }},
    // ---- C10: what is dropped below the rounding digit takes part in the rounding decision
    {"digit_fixed_tie_behind_leading_zeros", [] {
         // an exact tie is rounded to even (as %.*f does); leading zeros of the fraction are not "above the half"
         struct { double v; unsigned p; const char *want; } cs[] = {
             {0.0625, 3U, "0.062"}, {0.03125, 4U, "0.0312"}, {-0.015625, 5U, "-0.01562"}, {0.09375, 4U, "0.0938"},
             {0.0078125, 6U, "0.007812"}, {0.00390625, 7U, "0.0039062"},
         };
         int bad = 0;
         for (auto &c : cs) {
             StringStream<char> ss;
             Digit::NumberToString(ss, c.v, Digit::RealFormatInfo{c.p, Digit::RealFormatType::Fixed});
             if (!ss.IsEqual(c.want, (SizeT)strlen(c.want))) {
                 ss += '\0';
                 printf("expected [%s], got [%s] for %.17g at %u decimals\n", c.want, ss.First(), c.v, c.p);
                 ++bad;
             }
         }
         return bad;
     }},
    {"digit_rounding_sees_dropped_part", [] {
         struct { double v; unsigned p; const char *want; } cs[] = {
             {25.007, 1U, "3e+01"}, {250.0, 1U, "2e+02"}, {350.0, 1U, "4e+02"}, {1050.0, 2U, "1e+03"},
             {116656.0, 4U, "1.167e+05"}, {13805.5, 4U, "1.381e+04"}, {15851.0, 3U, "1.59e+04"},
         };
         int bad = 0;
         for (auto &c : cs) {
             StringStream<char> ss;
             Digit::NumberToString(ss, c.v, Digit::RealFormatInfo{c.p, Digit::RealFormatType::Default});
             if (!ss.IsEqual(c.want, (SizeT)strlen(c.want))) {
                 ss += '\0';
                 printf("expected [%s], got [%s] for %.17g at precision %u\n", c.want, ss.First(), c.v, c.p);
                 ++bad;
             }
         }
         return bad;
     }},
    // ---- C10: precision 0
    {"digit_precision_zero", [] {
         struct { double v; Digit::RealFormatType t; const char *want; } cs[] = {
             {0.0, Digit::RealFormatType::Fixed, "0"},      {1.5, Digit::RealFormatType::Fixed, "2"},      {0.518, Digit::RealFormatType::Fixed, "1"},
             {0.2, Digit::RealFormatType::Fixed, "0"},      {123.456, Digit::RealFormatType::Fixed, "123"}, {0.518, Digit::RealFormatType::SemiFixed, "1"},
             {2.5, Digit::RealFormatType::Default, "2"},    {10.4, Digit::RealFormatType::Default, "1e+01"}, {0.04, Digit::RealFormatType::Default, "0.04"},
         };
         int bad = 0;
         for (auto &c : cs) {
             StringStream<char> ss;
             Digit::NumberToString(ss, c.v, Digit::RealFormatInfo{0U, c.t});
             if (!ss.IsEqual(c.want, (SizeT)strlen(c.want))) {
                 ss += '\0';
                 printf("expected [%s], got [%s] for %.17g at precision 0\n", c.want, ss.First(), c.v);
                 ++bad;
             }
         }
         return bad;
     }},
    // ---- C01: positions that do not fit their 8-bit fields
    {"tmpl_inline_if_more_than_255_subtags", [] {
         std::string t = "{if case=\"0\" true=\"";
         for (int i = 0; i < 300; i++) t += "{var:a}";
         t += "\" false=\"{var:b}\"}";
         Value<char> v = JSON::Parse("{\"a\":1,\"b\":2}");
         char *buf = exact(t.data(), t.size());
         StringStream<char> ss;
         Template::Render(buf, (SizeT)t.size(), v, ss);
         free(buf);
         return 0;
     }},
    {"tmpl_parentheses_100000_deep", [] {
         // one level of recursion per `(`: the depth of the machine stack is chosen by the template text
         std::string t = "{math:" + std::string(100000, '(') + "1" + std::string(100000, ')') + "}";
         Value<char> v;
         StringStream<char> ss;
         Template::Render(t.data(), (SizeT)t.size(), v, ss);
         std::string ok = "{math:" + std::string(200, '(') + "1+1" + std::string(200, ')') + "}";
         StringStream<char> s2;
         Template::Render(ok.data(), (SizeT)ok.size(), v, s2);
         if (!(s2 == "2")) { printf("expected 2 for 200 levels, got %.*s\n", (int)(s2.Length() > 40 ? 40 : s2.Length()), s2.First()); return 1; }
         return 0;
     }},
    {"json_nesting_100000_deep", [] {
         // one level of recursion per `[` or `{`
         std::string a(100000, '[');
         if (!js_undef(a.data(), (SizeT)a.size())) return 1;
         std::string o;
         for (int i = 0; i < 100000; i++) o += "{\"a\":";
         if (!js_undef(o.data(), (SizeT)o.size())) return 1;
         std::string ok = std::string(200, '[') + std::string(200, ']');
         Value<char> v = JSON::Parse(ok.data(), (SizeT)ok.size());
         if (!v.IsArray()) { printf("expected an array for 200 levels\n"); return 1; }
         return 0;
     }},
    {"tmpl_loop_level_256", [] {
         std::string t = "<loop set=\"o\" value=\"a\">";
         for (int i = 0; i < 255; i++) t += "<if case=\"1\">";
         t += "<loop set=\"i\" value=\"b\" sort=\"ascend\">{var:b}</loop>[{var:a}]";
         for (int i = 0; i < 255; i++) t += "</if>";
         t += "</loop>";
         Value<char> v = JSON::Parse("{\"o\":[\"...\"],\"i\":[\"...\",\"...\"]}");
         char *buf = exact(t.data(), t.size());
         StringStream<char> ss;
         Template::Render(buf, (SizeT)t.size(), v, ss);
         free(buf);
         return 0;
     }},
    // ---- C01: tag records whose 16-bit fields cannot hold the tag
    {"tmpl_inline_if_longer_than_16_bits", [] {
         std::string t = "{if case=\"1\" true=\"";
         t.append(70000, 'x');
         t += "{var:a}\"}";
         char *p = exact(t.c_str(), t.size());
         Value<char> v = JSON::Parse("{\"a\":1}");
         StringStream<char> ss;
         Template::Render(p, (SizeT)t.size(), v, ss);
         free(p);
         return 0;
     }},
    {"tmpl_inline_if_subtag_outside_ranges", [] {
         const char *t = "{if case=\"1\" true=\"T\" foo=\"{var:z}\"}";
         char *p = exact(t, strlen(t));
         Value<char> v = JSON::Parse("{\"z\":1}");
         StringStream<char> ss;
         Template::Render(p, (SizeT)strlen(t), v, ss);
         free(p);
         return 0;
     }},
};

int main(int argc, char **argv) {
    if (argc < 2) {
        for (auto &c : cases)
            puts(c.name);
        return 0;
    }
    for (auto &c : cases)
        if (strcmp(c.name, argv[1]) == 0) {
            int r = c.fn();
            printf("%s: %s\n", c.name, r == 0 ? "ok" : "DEFECT");
            return r;
        }
    fprintf(stderr, "unknown case %s\n", argv[1]);
    return 2;
}
