#!/bin/sh
# usage: run.sh [repo-dir]   builds the replay program against <repo>/Include (default /repo) in a scratch dir and runs every case
REPO=${1:-/repo}
D=$(mktemp -d /tmp/qv-replay-XXXXXX)
g++ -std=gnu++17 -O1 -g -fsanitize=address,undefined -fno-sanitize-recover=all -fno-exceptions -I$REPO/Include "$(dirname "$0")/replays.cpp" -o $D/replays || { rm -rf $D; exit 2; }
# cases that demonstrate a KNOWN finding (known_findings.jsonl, status "known"): they fail on the current tree by design
KNOWN="math_negative_base_even_negative_exponent"
for c in $($D/replays); do
  if $D/replays $c >$D/out 2>&1; then echo "ok      $c"; elif echo " $KNOWN " | grep -q " $c "; then echo "known   $c  ($(grep -m1 -E 'expected' $D/out | cut -c1-110))"; else echo "DEFECT  $c  ($(grep -m1 -E 'ERROR: AddressSanitizer|runtime error|expected|DEFECT|SEGV|FPE' $D/out | cut -c1-110))"; fi
done
rm -rf $D
