"""Normalised source-like text of exported AST nodes (whitespace/paren independent)."""

_SKIP = ("ParenExpr", "ImplicitCastExpr", "ExprWithCleanups", "MaterializeTemporaryExpr",
         "CXXBindTemporaryExpr", "ConstantExpr", "SubstNonTypeTemplateParmExpr", "CXXDefaultArgExpr",
         "CXXDefaultInitExpr")


def expr_text(fn, nid, depth=0):
    if nid is None or nid < 0:
        return ""
    if depth > 40:
        return "..."
    n = fn.nodes[nid]
    k = n["k"]
    ch = n.get("ch", [])
    T = lambda x: expr_text(fn, x, depth + 1)
    if k in _SKIP:
        return T(ch[0]) if ch else ""
    if k == "DeclRefExpr":
        return n["n"]
    if k == "DependentScopeDeclRefExpr":
        return n["text"]
    if k == "UnresolvedLookupExpr":
        return n["n"]
    if k in ("MemberExpr", "CXXDependentScopeMemberExpr", "UnresolvedMemberExpr"):
        if n.get("qual") and (not ch or n.get("implicit")):
            return n["qual"] + n["n"]
        if n.get("anon"):
            return T(ch[0]) if ch else ""
        if not ch or n.get("implicit"):
            return n["n"]
        b = fn.nodes[fn.strip(ch[0])]
        if b["k"] == "CXXThisExpr":
            return n["n"]
        bt = T(ch[0])
        if not bt:
            return n["n"]
        return bt + ("->" if n.get("arrow") else ".") + n["n"]
    if k == "CXXThisExpr":
        return "this"
    if k in ("IntegerLiteral", "CharacterLiteral", "CXXBoolLiteralExpr"):
        return str(n.get("cv"))
    if k == "FloatingLiteral":
        return n.get("fv", "?")
    if k == "StringLiteral":
        try:
            return '"' + "".join(chr(c) if 32 <= c < 127 else "\\x%x" % c for c in n["str"]) + '"'
        except Exception:
            return '"?"'
    if k == "CXXNullPtrLiteralExpr":
        return "nullptr"
    if k in ("BinaryOperator", "CompoundAssignOperator"):
        return "(" + T(ch[0]) + " " + n["op"] + " " + T(ch[1]) + ")"
    if k == "UnaryOperator":
        if n.get("postfix"):
            return T(ch[0]) + n["op"]
        return n["op"] + T(ch[0])
    if k == "ArraySubscriptExpr":
        return T(ch[0]) + "[" + T(ch[1]) + "]"
    if k in ("ConditionalOperator",):
        return "(" + T(ch[0]) + " ? " + T(ch[1]) + " : " + T(ch[2]) + ")"
    if k == "CXXOperatorCallExpr":
        op = n.get("op", "?")
        args = ch[1:]
        if op == "[]" and len(args) == 2:
            return T(args[0]) + "[" + T(args[1]) + "]"
        if op == "()" and args:
            return T(args[0]) + "(" + ", ".join(T(a) for a in args[1:]) + ")"
        if len(args) == 2:
            return "(" + T(args[0]) + " " + op + " " + T(args[1]) + ")"
        if len(args) == 1:
            return op + T(args[0])
        return op + "(" + ", ".join(T(a) for a in args) + ")"
    if k in ("CallExpr", "CXXMemberCallExpr"):
        return T(ch[0]) + "(" + ", ".join(T(a) for a in ch[1:]) + ")"
    if k in ("CXXConstructExpr", "CXXTemporaryObjectExpr"):
        ty = n.get("fq", n.get("t", "?")).split("::")[-1]
        if len(ch) == 1 and (n.get("copy") or n.get("move") or n.get("elidable")):
            return T(ch[0])
        return ty + "{" + ", ".join(T(a) for a in ch) + "}"
    if k == "CXXUnresolvedConstructExpr":
        return n.get("ty", "?") + "{" + ", ".join(T(a) for a in ch) + "}"
    if k == "InitListExpr":
        return "{" + ", ".join(T(a) for a in ch) + "}"
    if k in ("CXXStaticCastExpr", "CXXReinterpretCastExpr", "CXXConstCastExpr", "CStyleCastExpr",
             "CXXFunctionalCastExpr"):
        nm = {"CXXStaticCastExpr": "static_cast", "CXXReinterpretCastExpr": "reinterpret_cast",
              "CXXConstCastExpr": "const_cast", "CStyleCastExpr": "ccast", "CXXFunctionalCastExpr": "fcast"}[k]
        return "%s<%s>(%s)" % (nm, n.get("ty", n.get("t", "?")), T(ch[0]) if ch else "")
    if k == "UnaryExprOrTypeTraitExpr":
        return "sizeof(%s)" % (n.get("ty") or (T(ch[0]) if ch else ""))
    if k == "CXXNewExpr":
        return "new " + n.get("ty", "?") + "(" + ", ".join(T(a) for a in ch) + ")"
    if k == "CXXDeleteExpr":
        return "delete " + (T(ch[0]) if ch else "")
    if k == "ReturnStmt":
        return "return " + T(n.get("val", -1))
    if k == "DeclStmt":
        return "; ".join("%s %s = %s" % (d.get("t", ""), d.get("n", ""), T(d.get("init", -1))) for d in n["decls"])
    if k == "CXXScalarValueInitExpr":
        return n.get("t", "?") + "{}"
    if k == "ImplicitValueInitExpr":
        return "{}"
    return k + "(" + ", ".join(T(a) for a in ch) + ")"
