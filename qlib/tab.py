"""E-TAB helpers: constants, literals and tables of the exported model, per specialisation."""
from .model import AnalysisBroken

WIDTH_OF_TARGS = {
    "<type-parameter-0-0, 1U>": "char(1)", "<type-parameter-0-0, 2U>": "char16_t(2)",
    "<type-parameter-0-0, 4U>": "char32_t(4)", "<wchar_t, 4U>": "wchar_t(4)", "<wchar_t, 2U>": "wchar_t(2)",
}


def rel(v):
    return "%s:%d" % (v["file"].split("/Include/")[-1] if "/Include/" in v["file"] else v["file"], v["line"])


def var_units(model, v):
    """code units of a string constant (pointer to literal, or array of char)"""
    val = v.get("val")
    if isinstance(val, dict) and "str" in val:
        return list(val["str"][val.get("off", 0):])
    if isinstance(val, list) and all(isinstance(x, int) for x in val):
        u = list(val)
        while u and u[-1] == 0:
            u.pop()
        return u
    if v.get("init", -1) >= 0:
        nodes = v["nodes"]
        nid = v["init"]
        for _ in range(8):
            n = nodes[nid]
            if n["k"] == "StringLiteral":
                return list(n["str"])
            ch = n.get("ch", [])
            if n["k"] in ("ImplicitCastExpr", "ParenExpr", "InitListExpr", "ConstantExpr") and ch:
                nid = ch[0]
                continue
            if n["k"] == "UnaryOperator" and n.get("op") == "&" and ch:
                # &(X::Lit[0])
                s = nodes[ch[0]]
                while s["k"] in ("ParenExpr", "ImplicitCastExpr") and s.get("ch"):
                    s = nodes[s["ch"][0]]
                if s["k"] == "ArraySubscriptExpr":
                    base = nodes[s["ch"][0]]
                    while base["k"] in ("ParenExpr", "ImplicitCastExpr") and base.get("ch"):
                        base = nodes[base["ch"][0]]
                    if base["k"] in ("DeclRefExpr", "MemberExpr") and base.get("static"):
                        tv = [x for x in model.vars if x["id"] == base.get("d")]
                        if tv:
                            return var_units(model, tv[0])
                    if base["k"] in ("DependentScopeDeclRefExpr",):
                        return ("ref", base["text"])
                return None
            if n["k"] in ("DeclRefExpr", "MemberExpr") and n.get("static"):
                tv = [x for x in model.vars if x["id"] == n.get("d")]
                if tv:
                    return var_units(model, tv[0])
                return None
            if n["k"] == "DependentScopeDeclRefExpr":
                return ("ref", n["text"])
            return None
    return None


def var_int(model, v):
    val = v.get("val")
    if isinstance(val, int):
        return val
    return model.const_of_var(v)


def var_list(model, v):
    """list of ints of an array constant (evaluated, or from an InitListExpr of literals)"""
    val = v.get("val")
    if isinstance(val, list):
        return val
    if v.get("init", -1) >= 0:
        nodes = v["nodes"]
        n = nodes[v["init"]]
        if n["k"] == "InitListExpr":
            out = []
            for c in n.get("ch", []):
                cn = nodes[c]
                if cn["k"] == "InitListExpr":
                    out.append([model.eval_nodes(nodes, x) for x in cn.get("ch", [])])
                else:
                    out.append(model.eval_nodes(nodes, c))
            return out
        if n["k"] == "StringLiteral":
            return list(n["str"])
    return None


def members(model, record_q):
    """{targs: {member name: var}} for all static data members of records named record_q"""
    out = {}
    pre = record_q + "::"
    for v in model.vars:
        if v["q"].startswith(pre) and "::" not in v["q"][len(pre):]:
            out.setdefault(v.get("targs", ""), {})[v["q"][len(pre):]] = v
    if not out:
        raise AnalysisBroken("no static members found for record %s" % record_q)
    return out


def local_table(model, fn_q, name, targs=None):
    """function-local static table `name` inside functions with qualified name fn_q"""
    r = [v for v in model.vars if v["q"] == fn_q + "::" + name and (targs is None or v.get("targs", "") == targs)]
    if not r:
        raise AnalysisBroken("static table %s::%s not found" % (fn_q, name))
    return r


def ascii_text(units):
    try:
        return "".join(chr(u) for u in units)
    except Exception:
        return repr(units)


# ---------------------------------------------------------------- acyclic path enumeration
def paths(fn, max_paths=4096):
    """all entry->exit paths of an acyclic CFG: list of (steps) where a step is ('el', elem) or
    ('cond', nid, truth) or ('case', cond_nid, label) / ('default', cond_nid, labels).  Raises on cycles."""
    from . import dataflow
    blocks = fn.blocks()
    out = []

    def walk(bid, steps, seen):
        if len(out) > max_paths:
            raise AnalysisBroken("%s: too many paths" % fn.q)
        if bid in seen:
            raise AnalysisBroken("%s: CFG has a cycle; path enumeration does not apply" % fn.q)
        b = blocks[bid]
        steps = steps + [("el", e) for e in b["el"] if "n" in e and not e.get("k")]
        succ = dataflow.successors(fn, b)
        if not succ:
            out.append(steps)
            return
        for (s, kind, payload) in succ:
            st = steps
            if kind in ("true", "false"):
                st = steps + [("cond", payload, kind == "true")]
            elif kind == "case":
                st = steps + [("case", b.get("cond"), payload)]
            elif kind == "default":
                st = steps + [("default", b.get("cond"), payload)]
            walk(s, st, seen | {bid})
    walk(fn.cfg["entry"], [], frozenset())
    return out
