"""Structural queries over exported function bodies."""


def nodes_of(fn, kinds, root=None):
    if isinstance(kinds, str):
        kinds = (kinds,)
    return [i for i in fn.walk(root) if fn.nodes[i]["k"] in kinds]


def calls(fn, simple_name=None, root=None):
    out = []
    for i in fn.walk(root):
        n = fn.nodes[i]
        if n["k"] in ("CallExpr", "CXXMemberCallExpr", "CXXOperatorCallExpr"):
            if simple_name is None or fn.call_simple_name(i) == simple_name:
                out.append(i)
    return out


def label_of_case(fn, case_nid):
    """(name, value) of a CaseStmt label"""
    n = fn.nodes[case_nid]
    lhs = fn.strip_casts(n["lhs"])
    ln = fn.nodes[lhs]
    name = None
    if ln["k"] == "DeclRefExpr":
        name = ln["n"]
    elif ln["k"] == "DependentScopeDeclRefExpr":
        name = ln["text"]
    elif ln["k"] == "CXXDependentScopeMemberExpr" and ln.get("qual"):
        name = ln["qual"] + ln["n"]
    elif ln["k"] == "MemberExpr":
        name = ln["n"]
    val = ln.get("cv")
    if val is None:
        val = fn.nodes[n["lhs"]].get("cv")
    return name, val


def switch_arms(fn, switch_nid):
    """[(labels, stmts)] labels: list of (name, value) or ('default', None); stmts: statement ids of the arm
    (statements up to the next label; fall-through is not followed)"""
    sw = fn.nodes[switch_nid]
    body = fn.nodes[sw["body"]]
    arms = []
    cur = None
    for c in body.get("ch", []):
        n = fn.nodes[c]
        labels = []
        x = c
        while fn.nodes[x]["k"] in ("CaseStmt", "DefaultStmt"):
            xn = fn.nodes[x]
            if xn["k"] == "CaseStmt":
                labels.append(label_of_case(fn, x))
            else:
                labels.append(("default", None))
            x = xn["sub"]
        if labels:
            cur = (labels, [x] if x >= 0 else [])
            arms.append(cur)
        elif cur is not None:
            cur[1].append(c)
    return arms


def returns(fn, root=None):
    return nodes_of(fn, "ReturnStmt", root)


def is_default_constructed(fn, nid):
    """ValueT{} / Value_T() style expression with no arguments"""
    nid = fn.strip(nid)
    if nid is None or nid < 0:
        return False
    n = fn.nodes[nid]
    if n["k"] in ("CXXUnresolvedConstructExpr", "CXXTemporaryObjectExpr", "CXXConstructExpr", "InitListExpr",
                  "CXXScalarValueInitExpr"):
        args = [a for a in n.get("ch", []) if fn.nodes[a]["k"] != "CXXDefaultArgExpr"]
        if not args:
            return True
        if len(args) == 1 and n["k"] in ("CXXUnresolvedConstructExpr", "CXXFunctionalCastExpr"):
            return is_default_constructed(fn, args[0]) and fn.nodes[fn.strip(args[0])]["k"] == "InitListExpr"
    if n["k"] == "CXXFunctionalCastExpr":
        return is_default_constructed(fn, n["ch"][0])
    if n["k"] in ("CXXConstructExpr",) and len(n.get("ch", [])) == 1:
        return is_default_constructed(fn, n["ch"][0])     # copy/move of the expression below
    if n["k"] == "DeclRefExpr" and n.get("dk") == "var":
        # a local that was default-constructed and is mentioned nowhere else (ValueT nothing{}; return nothing;)
        decl = None
        for i in nodes_of(fn, "DeclStmt"):
            for d in fn.nodes[i]["decls"]:
                if d.get("d") == n.get("d"):
                    decl = d
        if decl is None or decl.get("ref") or decl.get("static") or decl.get("tk") == "ptr":
            return False
        init_ok = decl.get("init", -1) < 0 and decl.get("tk") == "rec" or (decl.get("init", -1) >= 0 and is_default_constructed(fn, decl["init"]))
        others = [i for i in fn.walk() if fn.nodes[i]["k"] == "DeclRefExpr" and fn.nodes[i].get("d") == n.get("d") and i != nid]
        return bool(init_ok) and not others
    return False


def enclosing(fn, nid, kinds):
    par = fn.parents()
    x = par.get(nid)
    while x is not None:
        if fn.nodes[x]["k"] in kinds:
            return x
        x = par.get(x)
    return None


def refs_decl(fn, nid, name):
    """does the subtree reference a variable/param called name"""
    for i in fn.walk(nid):
        n = fn.nodes[i]
        if n["k"] == "DeclRefExpr" and n["n"] == name:
            return True
    return False


def local_var_term(fn, name):
    for i in fn.walk():
        n = fn.nodes[i]
        if n["k"] == "DeclStmt":
            for d in n["decls"]:
                if d.get("n") == name:
                    return "v:%s#%d" % (name, d["d"])
    for p in fn.params:
        if p["n"] == name:
            return "v:%s#%d" % (name, p["d"])
    return None
