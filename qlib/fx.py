"""E-FX: effect analysis from an entry point over the instantiation view.

Memory regions are named relative to a function by symbols
    'T'        the object `this` points to (and everything it owns)
    ('P', i)   the object a pointer / reference parameter i refers to
    'L'        locals, temporaries and blocks allocated by the call
    'G:<q>'    static storage (variable q)
    'K'        string literals
    'F:<f>'    what a pointer field f of the per-call context class (TemplateCore) refers to
    'U'        unknown: a pointer loaded from a non-owning pointer field or from an array of pointers
An *owning* pointer field (Array::storage_, String::storage_, StringStream::storage_, HashTable::hashTable_,
TagBit::storage_) refers to memory in the region of its holder.

Phase 1 (per function, iterated with the callees to a fixpoint): which region every local pointer / reference may
refer to, which region the returned pointer / reference refers to (as symbols of the function), the list of direct
stores with the region symbols of their target, and the list of calls with the region symbols bound to the callee's
`this` and pointer / reference parameters.  A call through a function-pointer parameter is resolved from the functions
whose address is passed for that parameter at the call sites.
Phase 2 (top down from the entry): the symbols are bound to the entry's roots (input / stream / context) and pushed
along the call edges; bindings of one function are joined over its call sites.
Phase 3: a direct store whose target may lie in a forbidden root is a finding, reported with a call path from the entry.
"""
from collections import deque

OWNING = {("Qentem::Array", "storage_"), ("Qentem::String", "storage_"), ("Qentem::StringStream", "storage_"),
          ("Qentem::HashTable", "hashTable_"), ("Qentem::Tags::TagBit", "storage_")}
CONTEXT_CLASS = "Qentem::TemplateCore"
PASS = ("ParenExpr", "ExprWithCleanups", "CXXBindTemporaryExpr", "ConstantExpr", "SubstNonTypeTemplateParmExpr",
        "CXXStaticCastExpr", "CStyleCastExpr", "CXXReinterpretCastExpr", "CXXConstCastExpr", "CXXFunctionalCastExpr")
CALLS = ("CallExpr", "CXXMemberCallExpr", "CXXOperatorCallExpr")
CTORS = ("CXXConstructExpr", "CXXTemporaryObjectExpr")
E = frozenset()
L = frozenset(["L"])


def pointee_const(t):
    t = t.strip()
    return t.startswith("const ") and t.count("*") <= 1 or t.endswith("const *") or " const *" in t


class FnFX:
    def __init__(self, fx, f):
        self.fx = fx
        self.f = f
        self.env = {}
        self.ret = E
        self.stores = []      # (nid, frozenset symbols, kind)
        self.calls = []       # (nid, callee id | None, T symbols, {i: symbols}, name)
        self.icalls = []      # (nid, param index, [arg symbols])
        self.fnargs = {}      # call nid -> {param index: ("fn", id) | ("param", i) | ("unknown",)}
        self.outp = {}        # reference-to-pointer parameter i -> symbols stored into it
        self.pidx = {p["d"]: i for i, p in enumerate(f.params)}
        self.decl = {}
        for n in f.nodes:
            if n["k"] == "DeclStmt":
                for d in n["decls"]:
                    if "d" in d:
                        self.decl[d["d"]] = d
        self.init_of = {}     # ctor expression node -> target kind
        for n in f.nodes:
            if n["k"] == "DeclStmt":
                for d in n["decls"]:
                    if "d" in d and d.get("init", -1) >= 0:
                        self.init_of[self.peel(d["init"])] = "local"
        for ini in f.d.get("inits", []) or []:
            if ini.get("n", -1) >= 0:
                self.init_of[self.peel(ini["n"])] = "member"
        self.unknown = set()

    def fn_of_local(self, did):
        """a local function pointer that is only ever given the address of one function: that function's id"""
        f = self.f
        targets = set()
        d = self.decl.get(did)
        vals = [d["init"]] if d is not None and d.get("init", -1) >= 0 else []
        for n in f.nodes:
            if n["k"] == "BinaryOperator" and n["op"] == "=" and f.nodes[self.peel(n["ch"][0])].get("d") == did:
                vals.append(n["ch"][1])
        for v in vals:
            an = f.nodes[self.peel(v)]
            if an["k"] == "UnaryOperator" and an.get("op") == "&":
                an = f.nodes[self.peel(an["ch"][0])]
            if an["k"] == "DeclRefExpr" and an.get("dk") in ("func", "method") and an.get("fd") is not None:
                targets.add(an["fd"])
            else:
                return None
        return targets.pop() if len(targets) == 1 else None

    def peel(self, nid):
        f = self.f
        while f.nodes[nid]["k"] in PASS + ("ImplicitCastExpr", "MaterializeTemporaryExpr") and f.nodes[nid].get("ch"):
            nid = f.nodes[nid]["ch"][0]
        return nid

    # ---------------- regions
    def lv(self, nid):
        """region of the object an lvalue expression denotes"""
        f = self.f
        n = f.nodes[nid]
        k = n["k"]
        if k in PASS or k == "ImplicitCastExpr":
            ch = n.get("ch")
            if not ch:
                return L
            if k == "ImplicitCastExpr" and n.get("ck") == "LValueToRValue":
                return L   # a loaded value, not an object
            if n.get("tk") == "rec" and k == "CXXFunctionalCastExpr":
                return L
            return self.lv(ch[0])
        if k == "DeclRefExpr":
            dk = n.get("dk")
            if dk == "param":
                i = self.pidx.get(n["d"])
                if i is None:
                    return L
                p = self.f.params[i]
                return frozenset([("P", i)]) if p.get("ref") else L
            if dk == "var":
                if n.get("static"):
                    return frozenset(["G:" + (n.get("q") or n.get("n"))])
                d = self.decl.get(n["d"])
                if d is not None and d.get("static"):
                    return frozenset(["G:%s::%s" % (self.f.q, d["n"])])
                if d is not None and d.get("ref"):
                    return self.env.get(n["d"], E)
                return L
            return L
        if k == "MemberExpr":
            if n.get("dk") == "var":
                return frozenset(["G:" + (n.get("q") or n.get("n"))])
            ch = n.get("ch")
            if not ch:
                return frozenset(["T"])
            return self.val(ch[0]) if n.get("arrow") else self.lv(ch[0])
        if k == "CXXThisExpr":
            return frozenset(["T"])
        if k == "UnaryOperator":
            op = n["op"]
            if op == "*":
                return self.val(n["ch"][0])
            if op in ("++", "--", "__real", "__imag", "__extension__"):
                return self.lv(n["ch"][0])
            return L
        if k == "ArraySubscriptExpr":
            a, b = n["ch"]
            return self.val(a) if f.nodes[a].get("tk") == "ptr" else self.val(b)
        if k in ("BinaryOperator", "CompoundAssignOperator"):
            if n["op"] == ",":
                return self.lv(n["ch"][1])
            if n["op"].endswith("=") and n["op"] not in ("==", "!=", "<=", ">="):
                return self.lv(n["ch"][0])
            return L
        if k == "ConditionalOperator":
            return self.lv(n["ch"][1]) | self.lv(n["ch"][2])
        if k in CALLS:
            return self.call_ret(nid)
        if k == "StringLiteral":
            return frozenset(["K"])
        if k in ("MaterializeTemporaryExpr", "CXXTemporaryObjectExpr", "CXXConstructExpr", "InitListExpr", "IntegerLiteral",
                 "CharacterLiteral", "FloatingLiteral", "CXXBoolLiteralExpr", "CXXNullPtrLiteralExpr", "CXXDefaultArgExpr",
                 "CXXDefaultInitExpr", "LambdaExpr", "CXXNewExpr", "UnaryExprOrTypeTraitExpr", "CXXScalarValueInitExpr",
                 "ImplicitValueInitExpr", "CXXPseudoDestructorExpr", "GNUNullExpr"):
            return L
        self.unknown.add(k)
        return frozenset(["U"])

    def load(self, nid):
        """region a pointer refers to, for the pointer stored in the lvalue nid"""
        f = self.f
        n = f.nodes[nid]
        k = n["k"]
        if k in PASS or (k == "ImplicitCastExpr" and n.get("ck") != "LValueToRValue"):
            return self.load(n["ch"][0]) if n.get("ch") else E
        if k == "DeclRefExpr":
            dk = n.get("dk")
            if dk == "param":
                i = self.pidx.get(n["d"])
                if i is None:
                    return E
                p = self.f.params[i]
                if p.get("ref"):
                    return frozenset([("P", i), "U"])   # a reference to a pointer: the pointer lives in the caller
                return frozenset([("P", i)])
            if dk == "var":
                if n.get("static"):
                    return frozenset(["G:" + (n.get("q") or n.get("n"))])
                d = self.decl.get(n["d"])
                if d is not None and d.get("static"):
                    return frozenset(["G:%s::%s" % (self.f.q, d["n"])])
                return self.env.get(n["d"], E)
            return E
        if k == "MemberExpr" and n.get("dk") == "field":
            holder = self.lv(nid)
            rec, fld = n.get("rec"), n.get("n")
            if (rec, fld) in OWNING:
                return holder
            if rec == CONTEXT_CLASS:
                return frozenset(["F:" + fld])
            return holder | frozenset(["U"])
        if k == "UnaryOperator" and n["op"] in ("++", "--"):
            return self.load(n["ch"][0])
        if k in ("BinaryOperator", "CompoundAssignOperator"):
            if n["op"] == "=":
                return self.load(n["ch"][0]) | self.val(n["ch"][1])
            if n["op"] == ",":
                return self.load(n["ch"][1])
            return self.load(n["ch"][0])
        if k == "ConditionalOperator":
            return self.load(n["ch"][1]) | self.load(n["ch"][2])
        # a pointer read out of memory that is not a named field (array of pointers, *pp, call returning T*&)
        return self.lv(nid) | frozenset(["U"])

    def val(self, nid):
        """region a pointer-valued expression refers to"""
        f = self.f
        n = f.nodes[nid]
        k = n["k"]
        if k == "ImplicitCastExpr":
            ck = n.get("ck")
            if ck == "LValueToRValue":
                return self.load(n["ch"][0])
            if ck == "ArrayToPointerDecay":
                return self.lv(n["ch"][0])
            if ck in ("NullToPointer", "IntegralToPointer", "FunctionToPointerDecay"):
                return E
            return self.val(n["ch"][0]) if n.get("ch") else E
        if k in PASS:
            return self.val(n["ch"][0]) if n.get("ch") else E
        if k == "UnaryOperator":
            op = n["op"]
            if op == "&":
                return self.lv(n["ch"][0])
            if op in ("++", "--"):
                return self.load(n["ch"][0])
            if op == "*":
                return self.load(nid)
            return E
        if k in ("BinaryOperator", "CompoundAssignOperator"):
            op = n["op"]
            if op == ",":
                return self.val(n["ch"][1])
            if op == "=":
                return self.val(n["ch"][1])
            if op in ("+", "-", "+=", "-="):
                r = E
                for c in n["ch"]:
                    if f.nodes[c].get("tk") == "ptr":
                        r |= self.val(c) if op in ("+", "-") else self.load(c)
                return r
            return E
        if k == "ConditionalOperator":
            return self.val(n["ch"][1]) | self.val(n["ch"][2])
        if k in CALLS:
            return self.call_ret(nid)
        if k == "CXXThisExpr":
            return frozenset(["T"])
        if k == "CXXNewExpr":
            if n.get("nplace", 0) > 0:
                return self.val(n["ch"][-1])
            return L
        if k in ("CXXNullPtrLiteralExpr", "IntegerLiteral", "GNUNullExpr", "CXXDefaultArgExpr", "CXXScalarValueInitExpr",
                 "ImplicitValueInitExpr", "CXXBoolLiteralExpr", "InitListExpr", "CXXDefaultInitExpr"):
            if k == "InitListExpr" and n.get("ch"):
                return self.val(n["ch"][0])
            return E
        if k == "StringLiteral":
            return frozenset(["K"])
        if k in ("DeclRefExpr", "MemberExpr", "ArraySubscriptExpr"):
            # an lvalue of pointer type used without a load (initialiser lists print it this way)
            if n.get("dk") in ("func", "method"):
                return E
            return self.load(nid)
        if k == "MaterializeTemporaryExpr":
            return self.val(n["ch"][0]) if n.get("ch") else E
        self.unknown.add(k)
        return frozenset(["U"])

    # ---------------- calls
    def callee(self, nid):
        n = self.f.nodes[nid]
        fd = n.get("fd")
        return self.fx.m.by_id.get(fd) if fd is not None else None

    def call_parts(self, nid):
        """(callee Fn|None, T symbols, [arg node ids in parameter order], name)"""
        f = self.f
        n = f.nodes[nid]
        k = n["k"]
        g = self.callee(nid)
        ch = n.get("ch", [])
        name = n.get("fq") or ""
        if k in CTORS:
            return g, self.ctor_target(nid), list(ch), name
        if k == "CXXMemberCallExpr":
            cal = f.nodes[self.peel(ch[0])] if ch else {}
            T = E
            if cal.get("k") == "MemberExpr" and cal.get("ch"):
                T = self.val(cal["ch"][0]) if cal.get("arrow") else self.lv(cal["ch"][0])
            elif cal.get("k") == "MemberExpr":
                T = frozenset(["T"])
            elif cal.get("k") == "CXXPseudoDestructorExpr":
                return None, E, [], "pseudo-destructor"
            return g, T, list(ch[1:]), name
        if k == "CXXOperatorCallExpr":
            is_method = (g is not None and g.cls and not g.is_static) or (g is None and n.get("fnp") is not None and n.get("fnp") == len(ch) - 2)
            if is_method and len(ch) > 1:
                return g, self.lv(ch[1]), list(ch[2:]), name
            return g, E, list(ch[1:]), name
        return g, E, list(ch[1:]), name

    def ctor_target(self, nid):
        f = self.f
        kind = self.init_of.get(nid)
        if kind == "member":
            return frozenset(["T"])
        if kind == "local":
            return L
        par = f.parents().get(nid)
        while par is not None and f.nodes[par]["k"] in PASS + ("ImplicitCastExpr", "MaterializeTemporaryExpr", "InitListExpr"):
            par = f.parents().get(par)
        if par is not None and f.nodes[par]["k"] == "CXXNewExpr":
            pn = f.nodes[par]
            if pn.get("nplace", 0) > 0:
                return self.val(pn["ch"][-1])
        return L

    def bind_args(self, g, args):
        out = {}
        f = self.f
        if g is None:
            return out
        for i, p in enumerate(g.params):
            if i >= len(args):
                break
            a = args[i]
            if f.nodes[a]["k"] == "CXXDefaultArgExpr":
                continue
            if p.get("ref"):
                out[i] = self.lv(a)
            elif p.get("ptr") or p.get("tk") == "ptr":
                out[i] = self.val(a)
        return out

    def call_ret(self, nid):
        g, T, args, name = self.call_parts(nid)
        n = self.f.nodes[nid]
        if g is None:
            if name.endswith("operator new"):
                return L
            r = E
            for a in args:
                if self.f.nodes[a].get("tk") == "ptr":
                    r |= self.val(a)
            if n["k"] == "CallExpr" and "fd" not in n and n.get("ch"):
                # call through a function pointer: its result is not tracked
                return r | frozenset(["U"]) if n.get("tk") == "ptr" else r
            return r | T
        s = self.fx.fn.get(g.id)
        if s is None:
            return E
        b = self.bind_args(g, args)
        return subst(s.ret, T, b)

    # ---------------- one pass over the function
    def analyse(self):
        f = self.f
        changed = False
        old_env = dict(self.env)
        stores, calls, icalls = [], [], []
        for nid in (f.walk() if f.body is not None and f.body >= 0 else []):
            n = f.nodes[nid]
            k = n["k"]
            if k == "DeclStmt":
                for d in n["decls"]:
                    if "d" not in d or d.get("init", -1) < 0:
                        continue
                    if d.get("ref"):
                        self.env[d["d"]] = self.env.get(d["d"], E) | self.lv(d["init"])
                    elif d.get("tk") == "ptr":
                        self.env[d["d"]] = self.env.get(d["d"], E) | self.val(d["init"])
            elif k in ("BinaryOperator", "CompoundAssignOperator") and n["op"].endswith("=") and n["op"] not in ("==", "!=", "<=", ">="):
                lhs = n["ch"][0]
                tgt = self.lv(lhs)
                stores.append((nid, tgt, "assignment"))
                ln = f.nodes[self.peel(lhs)]
                if n["op"] == "=" and ln["k"] == "DeclRefExpr" and ln.get("dk") == "var" and ln.get("tk") == "ptr":
                    self.env[ln["d"]] = self.env.get(ln["d"], E) | self.val(n["ch"][1])
                if n["op"] == "=" and ln["k"] == "DeclRefExpr" and ln.get("dk") == "param" and ln.get("tk") == "ptr":
                    pi = self.pidx.get(ln["d"])
                    if pi is not None and self.f.params[pi].get("ref"):
                        self.outp[pi] = self.outp.get(pi, E) | self.val(n["ch"][1])
            elif k == "UnaryOperator" and n["op"] in ("++", "--"):
                stores.append((nid, self.lv(n["ch"][0]), "increment"))
            elif k in CALLS or k in CTORS:
                g, T, args, name = self.call_parts(nid)
                b = self.bind_args(g, args)
                if g is None:
                    if k == "CallExpr" and "fd" not in n and n.get("ch"):
                        cal = f.nodes[self.peel(n["ch"][0])]
                        if cal["k"] == "DeclRefExpr" and cal.get("dk") == "param":
                            syms = []
                            for a in args:
                                an = f.nodes[a]
                                if an.get("tk") == "ptr":
                                    syms.append(self.val(a))
                                elif an.get("lv"):
                                    syms.append(self.lv(a))
                                else:
                                    syms.append(L)
                            icalls.append((nid, self.pidx.get(cal["d"]), syms))
                            continue
                        if cal["k"] == "CXXPseudoDestructorExpr":
                            continue
                        stores.append((nid, frozenset(["U"]), "call through an untracked function pointer"))
                        continue
                    # no body in the model: builtins, intrinsics, operator new/delete, implicit members
                    if name.split("::")[-1].startswith("~"):
                        stores.append((nid, T, "destructor %s" % name))
                    for a in args:
                        an = f.nodes[a]
                        if an.get("tk") == "ptr" and not pointee_const(an.get("t", "")) and "(*)" not in an.get("t", ""):
                            stores.append((nid, self.val(a), "%s writes through its pointer argument" % (name or "external function")))
                else:
                    calls.append((nid, g.id, T, b, name))
                    # addresses of functions passed on
                    fa = {}
                    for i, a in enumerate(args):
                        if i >= len(g.params) or "(*)" not in g.params[i].get("t", ""):
                            continue
                        an = f.nodes[self.peel(a)]
                        if an["k"] == "UnaryOperator" and an.get("op") == "&":
                            an = f.nodes[self.peel(an["ch"][0])]
                        if an["k"] == "DeclRefExpr" and an.get("dk") in ("func", "method") and an.get("fd") is not None:
                            fa[i] = ("fn", an["fd"])
                        elif an["k"] == "DeclRefExpr" and an.get("dk") == "param":
                            fa[i] = ("param", self.pidx.get(an["d"]))
                        elif an["k"] == "DeclRefExpr" and an.get("dk") == "var" and an.get("d") in self.decl and self.fn_of_local(an["d"]) is not None:
                            fa[i] = ("fn", self.fn_of_local(an["d"]))
                        elif an["k"] in ("CXXDefaultArgExpr", "CXXNullPtrLiteralExpr", "GNUNullExpr") or (an["k"] == "IntegerLiteral" and an.get("cv") == 0):
                            pass   # a null function pointer: nothing to call
                        else:
                            fa[i] = ("unknown",)
                    if fa:
                        self.fnargs[nid] = fa
                # out-parameters: a local pointer handed over by reference / address may come back pointing anywhere the callee can reach
                reach = T
                for v in b.values():
                    reach |= v
                for i, a in enumerate(args):
                    an = f.nodes[self.peel(a)]
                    if an["k"] == "UnaryOperator" and an.get("op") == "&":
                        an = f.nodes[self.peel(an["ch"][0])]
                        byaddr = True
                    else:
                        byaddr = bool(g is not None and i < len(g.params) and g.params[i].get("ref") and not g.params[i].get("pconst"))
                    if byaddr and an["k"] == "DeclRefExpr" and an.get("dk") == "var" and an.get("tk") == "ptr" and an["d"] in self.decl:
                        gs = self.fx.fn.get(g.id) if g is not None else None
                        if gs is not None and i < len(g.params) and g.params[i].get("ref"):
                            got = subst(gs.outp.get(i, E), T, b)   # exactly what the callee stores into the reference
                        else:
                            got = (reach - frozenset(["L"])) | (frozenset(["U"]) if g is None else E)
                        self.env[an["d"]] = self.env.get(an["d"], E) | got
        if f.kind == "dtor":
            stores.append((f.body if f.body is not None else 0, frozenset(["T"]), "destruction of the object"))
        ret = E
        rt = f.d.get("ret", "")
        if rt.endswith("&") or rt.endswith("*") or rt.endswith("*const"):
            for nid in f.walk() if f.body is not None and f.body >= 0 else []:
                n = f.nodes[nid]
                if n["k"] == "ReturnStmt" and n.get("val", -1) is not None and n.get("val", -1) >= 0:
                    ret |= self.lv(n["val"]) if rt.endswith("&") else self.val(n["val"])
        ret -= frozenset(["L"]) if False else E
        new = (self.env != old_env) or ret != self.ret or self.outp != getattr(self, "_outp_old", None) or [s[1] for s in stores] != [s[1] for s in self.stores] or \
              [(c[1], c[2], c[3]) for c in calls] != [(c[1], c[2], c[3]) for c in self.calls] or [i[2] for i in icalls] != [i[2] for i in self.icalls]
        self._outp_old = dict(self.outp)
        self.ret, self.stores, self.calls, self.icalls = ret, stores, calls, icalls
        return new


def subst(syms, T, b):
    out = set()
    for s in syms:
        if s == "T":
            out |= T
        elif isinstance(s, tuple):
            out |= b.get(s[1], E)
        else:
            out.add(s)
    return frozenset(out)


class FX:
    def __init__(self, model):
        self.m = model
        self.fn = {}
        for f in model.functions:
            if f.dependent:
                continue
            self.fn[f.id] = FnFX(self, f)

    def solve(self, roots):
        """phase 1 over the functions reachable from roots (ids)"""
        reach = set()
        work = list(roots)
        # first pass discovers the call graph (callee sets do not depend on the regions)
        while work:
            x = work.pop()
            if x in reach or x not in self.fn:
                continue
            reach.add(x)
            s = self.fn[x]
            s.analyse()
            for c in s.calls:
                work.append(c[1])
            for fa in s.fnargs.values():
                for v in fa.values():
                    if v[0] == "fn":
                        work.append(v[1])
        for it in range(40):
            ch = False
            for x in sorted(reach):
                if self.fn[x].analyse():
                    ch = True
            if not ch:
                break
        else:
            raise RuntimeError("E-FX phase 1 did not converge")
        self.iterations = it + 1
        return reach

    def effects(self, ids):
        """bottom-up summaries: region symbols (of each function) that the function or its callees may store to"""
        eff = {x: set() for x in ids if x in self.fn}
        for x in eff:
            for (nid, syms, kind) in self.fn[x].stores:
                eff[x] |= set(syms) - {"L"}
        changed = True
        rounds = 0
        while changed:
            changed = False
            rounds += 1
            if rounds > 100:
                raise RuntimeError("E-FX effect summaries did not converge")
            for x in eff:
                s = self.fn[x]
                for (nid, gid, T, P, name) in s.calls:
                    ge = eff.get(gid)
                    if not ge:
                        continue
                    add = set(subst(frozenset(ge), T, P)) - {"L"}
                    if not add <= eff[x]:
                        eff[x] |= add
                        changed = True
        return eff

    def bind(self, entry, seed_T, seed_P, fields):
        """phase 2: concrete roots for every reachable function.  Returns bindings {fid: {'T': set, i: set, 'fp': {i: set(fn ids)}}} and the
        call tree parents for witness paths."""
        B = {entry: {"T": set(seed_T), "P": {i: set(v) for i, v in seed_P.items()}, "fp": {}}}
        parent = {entry: None}
        work = deque([entry])

        def conc(syms, b):
            out = set()
            for s in syms:
                if s == "T":
                    out |= b["T"]
                elif isinstance(s, tuple):
                    out |= b["P"].get(s[1], set())
                elif isinstance(s, str) and s.startswith("F:"):
                    out |= fields.get(s[2:], {"I"})
                else:
                    out.add(s)
            return out
        self.conc = conc

        def push(caller, nid, gid, T, P, fp):
            if gid not in self.fn:
                return
            nb = B.get(gid)
            if nb is None:
                B[gid] = {"T": set(T), "P": {i: set(v) for i, v in P.items()}, "fp": {i: set(v) for i, v in fp.items()}}
                parent[gid] = (caller, nid)
                work.append(gid)
                return
            ch = False
            if not T <= nb["T"]:
                nb["T"] |= T
                ch = True
            for i, v in P.items():
                if not v <= nb["P"].setdefault(i, set()):
                    nb["P"][i] |= v
                    ch = True
            for i, v in fp.items():
                if not v <= nb["fp"].setdefault(i, set()):
                    nb["fp"][i] |= v
                    ch = True
            if ch and gid not in work:
                work.append(gid)

        n_iter = 0
        while work:
            n_iter += 1
            if n_iter > 200000:
                raise RuntimeError("E-FX phase 2 did not converge")
            x = work.popleft()
            s = self.fn[x]
            b = B[x]
            for (nid, gid, T, P, name) in s.calls:
                fp = {}
                for i, v in s.fnargs.get(nid, {}).items():
                    if v[0] == "fn":
                        fp[i] = {v[1]}
                    elif v[0] == "unknown":
                        fp[i] = {"UNKNOWN"}
                    elif v[1] is not None:
                        fp[i] = set(b["fp"].get(v[1], set()))
                push(x, nid, gid, conc(T, b), {i: conc(v, b) for i, v in P.items()}, fp)
            for (nid, pi, syms) in s.icalls:
                for gid in b["fp"].get(pi, set()):
                    g = self.fn.get(gid)
                    if g is None:
                        continue
                    P = {}
                    for i, p in enumerate(g.f.params):
                        if i < len(syms) and (p.get("ref") or p.get("ptr") or p.get("tk") == "ptr"):
                            P[i] = conc(syms[i], b)
                    push(x, nid, gid, set(), P, {})
        self.B, self.parent = B, parent
        return B

    def path(self, fid):
        out = []
        cur = fid
        seen = set()
        while cur is not None and cur not in seen:
            seen.add(cur)
            p = self.parent.get(cur)
            if p is None:
                out.append((self.fn[cur].f.sig, None))
                break
            caller, nid = p
            out.append((self.fn[cur].f.sig, self.fn[caller].f.loc(nid)))
            cur = caller
        return list(reversed(out))
