"""E-TAG: typestate for tagged unions (payload kind vs discriminant) over the exported CFG.

Per receiver r (this, a parameter, a local pointer/reference, or a stable member path) the state is
  P : set of kinds the payload may currently hold        (the member that is really active)
  T : set of values the discriminant may currently hold
  zero   : the whole payload is known to be all-zero (fresh object or after the class's reset routine)
  synced : P and T are known to coincide (class invariant); tests on the discriminant refine both
Obligations:
  T1   a union member (or typed accessor) is touched only when P is within the kinds mapped to it,
       or the payload is zero/moved (then the access (re)initialises it)
  TX   at every exit, for objects that outlive the function, the discriminant cannot name a kind whose
       member is not the active payload while the payload may still hold an owning kind (leak), and an
       owning discriminant is never left over a payload of another kind
  TR   the reset routine is only invoked while synced (it releases by the discriminant)
"""
from . import dataflow, astq


class Spec:
    def __init__(self, cls, enum_q, kinds, members, owning, getters, predicates, setters, generic_setter,
                 reset, accessors=None, type_field=None, zero_members=(), entry_zero=()):
        self.cls = cls
        self.enum_q = enum_q
        self.kinds = frozenset(kinds)
        self.members = members              # member name -> frozenset of kinds
        self.owning = frozenset(owning)
        self.getters = getters              # method names returning the discriminant
        self.predicates = predicates        # method name -> kind
        self.setters = setters              # method name -> kind
        self.generic_setter = generic_setter  # method name taking the kind as argument (or None)
        self.reset = reset                  # name of the reset routine
        self.accessors = accessors or {}    # accessor method name -> frozenset of kinds (typed views of the payload)
        self.type_field = type_field        # public discriminant field name (direct writes), or None
        self.entry_zero = set(entry_zero)   # methods that assume an all-zero payload on entry (checked at call sites)
        self.subfields = {}                 # member -> {sub-field name: kinds it represents}


class RS:
    """state of one receiver (one disjunct)"""
    __slots__ = ("P", "T", "zero", "synced", "gen", "vf")

    def __init__(self, P, T, zero=False, synced=True, gen=0, vf=()):
        self.P, self.T, self.zero, self.synced, self.gen, self.vf = P, T, zero, synced, gen, vf

    def key(self):
        return (self.P, self.T, self.zero, self.synced, self.gen, self.vf)

    def copy(self):
        return RS(self.P, self.T, self.zero, self.synced, self.gen, self.vf)


class TagClient(dataflow.Client):
    def __init__(self, model, fn, spec, this_initial=None):
        self.model = model
        self.fn = fn
        self.spec = spec
        self.ALL = spec.kinds
        self.this_initial = this_initial
        self.is_member = fn.cls == spec.cls
        self.obs = []      # filled by the replay pass
        self.recording = False
        self._seen = set()

    # ---------------- receivers
    def recv_key(self, nid):
        """stable key for the object expression nid (None = implicit this)"""
        fn = self.fn
        if nid is None:
            return "this" if self.is_member else None
        s = fn.strip(nid)
        n = fn.nodes[s]
        k = n["k"]
        if k == "CXXThisExpr":
            return "this"
        if k == "UnaryOperator" and n["op"] == "*":
            return self.recv_key(n["ch"][0])
        if k == "DeclRefExpr" and n.get("dk") in ("var", "param"):
            return "%s#%d" % (n["n"], n["d"])
        if k in ("MemberExpr", "CXXDependentScopeMemberExpr") and not n.get("qual"):
            ch = n.get("ch", [])
            if n.get("anon") and ch:
                return self.recv_key(ch[0])
            base = self.recv_key(ch[0]) if ch and not n.get("implicit") else ("this" if self.is_member else None)
            if base is None:
                return None
            return base + "." + n["n"]
        if k == "ArraySubscriptExpr":
            return None
        return None

    MAXD = 6

    def default(self):
        return RS(self.ALL, self.ALL, False, True, 0)

    def get(self, st, key):
        """list of disjuncts for a receiver"""
        r = st.get(key)
        return r if r is not None else [self.default()]

    def put(self, st, key, ds):
        # dedupe, cap
        seen, out = set(), []
        for d in ds:
            if d.key() not in seen:
                seen.add(d.key())
                out.append(d)
        if len(out) > self.MAXD:
            m = out[0]
            for d in out[1:]:
                m = RS(m.P | d.P, m.T | d.T, m.zero and d.zero, m.synced and d.synced, m.gen if m.gen == d.gen else -1, ())
            out = [m]
        st[key] = out

    def upd(self, st, key, f):
        """apply f(RS copy) -> RS or None (drop) to every disjunct"""
        out = []
        for d in self.get(st, key):
            r = f(d.copy())
            if r is not None:
                out.append(r)
        self.put(st, key, out)
        return bool(out)

    # ---------------- client interface
    def initial(self, fn):
        st = {}
        if self.is_member and self.this_initial is not None:
            st["this"] = [self.this_initial.copy()]
        st["__alias"] = {}
        st["__eq"] = frozenset()
        st["__tagvals"] = {}
        st["__tver"] = {}
        st["__teq"] = {}
        return st

    def copy(self, st):
        out = {k: ([d.copy() for d in v] if isinstance(v, list) else (v if isinstance(v, frozenset) else dict(v))) for k, v in st.items()}
        return out

    def join(self, a, b):
        out = {"__alias": {k: v for k, v in a["__alias"].items() if b["__alias"].get(k) == v},
               "__eq": a.get("__eq", frozenset()) & b.get("__eq", frozenset()),
               "__tagvals": {k: v | b.get("__tagvals", {}).get(k, self.ALL) for k, v in a.get("__tagvals", {}).items()},
               "__tver": {k: (v if b.get("__tver", {}).get(k, 0) == v else -1) for k, v in dict(b.get("__tver", {}), **a.get("__tver", {})).items()}}
        out["__teq"] = {k: v for k, v in a.get("__teq", {}).items() if b.get("__teq", {}).get(k) == v}
        for k in set(a) | set(b):
            if k in ("__alias", "__eq", "__tagvals", "__tver", "__teq"):
                continue
            self.put(out, k, [d.copy() for d in self.get(a, k)] + [d.copy() for d in self.get(b, k)])
        return out

    def equal(self, a, b):
        if a["__alias"] != b["__alias"] or a.get("__eq") != b.get("__eq") or a.get("__tagvals") != b.get("__tagvals"):
            return False
        if a.get("__tver") != b.get("__tver"):
            return False
        if a.get("__teq") != b.get("__teq"):
            return False
        ks = (set(a) | set(b)) - {"__alias", "__eq", "__tagvals", "__tver", "__teq"}
        return all(sorted(d.key().__repr__() for d in self.get(a, k)) == sorted(d.key().__repr__() for d in self.get(b, k)) for k in ks)

    # ---------------- expression helpers
    def enum_kind(self, nid):
        fn = self.fn
        n = fn.nodes[fn.strip(nid)]
        if n["k"] == "DeclRefExpr" and n.get("dk") == "enumc" and (n.get("q") or "").startswith(self.spec.enum_q + "::"):
            return n["n"]
        return None

    def tag_source(self, st, nid):
        """('recv', key) if the expression reads the discriminant of a receiver; ('alias', key, gen, synced) for an
        alias local; ('kind', K) for an enumerator"""
        fn = self.fn
        s = fn.strip(nid)
        n = fn.nodes[s]
        k = self.enum_kind(s)
        if k:
            return ("kind", k)
        if n["k"] in ("CallExpr", "CXXMemberCallExpr") and fn.call_simple_name(s) in self.spec.getters and not fn.call_args(s):
            key = self.recv_key(fn.call_receiver(s))
            if key:
                return ("recv", key)
        if n["k"] in ("MemberExpr", "CXXDependentScopeMemberExpr") and self.spec.type_field and n.get("n") == self.spec.type_field and not n.get("qual"):
            key = self.recv_key(n["ch"][0]) if n.get("ch") else "this"
            if key:
                return ("recv", key)
        if n["k"] == "DeclRefExpr" and n.get("dk") in ("var", "param"):
            a = st["__alias"].get(n["d"])
            if a:
                return ("alias",) + a
        return None

    def refine_to(self, st, src, kinds, truth_set, _seen=None):
        """restrict the discriminant named by src to `kinds` (truth_set True) or to its complement"""
        key0 = src[1] if src[0] in ("recv", "alias") else None
        if key0 is not None and _seen is None:
            ok = self._refine_one(st, src, kinds, truth_set)
            for pair in st.get("__eq", frozenset()):
                if key0 in pair:
                    for other in pair:
                        if other != key0:
                            ok = self._refine_one(st, ("recv", other), kinds, truth_set) and ok
            return ok
        return self._refine_one(st, src, kinds, truth_set)

    def _refine_one(self, st, src, kinds, truth_set):
        if src[0] == "recv":
            def f(r):
                newT = (r.T & kinds) if truth_set else (r.T - kinds)
                if not newT:
                    return None
                if r.synced:
                    r.P = (r.P & kinds) if truth_set else (r.P - kinds)
                r.T = newT
                return r
            return self.upd(st, src[1], f)
        if src[0] == "alias":
            _, key, gen, synced, tagsnap = src

            def g(r):
                if synced and r.gen == gen:
                    newP = (r.P & kinds) if truth_set else (r.P - kinds)
                    if not newP and not r.zero:
                        return None
                    r.P = newP
                    if r.synced:
                        r.T = (r.T & kinds) if truth_set else (r.T - kinds)
                return r
            return self.upd(st, key, g)
        return True

    def refine(self, fn, st, cond, truth, block):
        s = fn.strip(cond)
        n = fn.nodes[s]
        if n["k"] == "UnaryOperator" and n["op"] == "!":
            return self.refine(fn, st, n["ch"][0], not truth, block)
        if n["k"] in ("CallExpr", "CXXMemberCallExpr") and fn.call_simple_name(s) in self.spec.predicates and not fn.call_args(s):
            key = self.recv_key(fn.call_receiver(s))
            if key:
                return self.refine_to(st, ("recv", key), frozenset([self.spec.predicates[fn.call_simple_name(s)]]), truth)
            return True
        if n["k"] == "BinaryOperator" and n["op"] in ("==", "!="):
            a, b = n["ch"]
            sa, sb = self.tag_source(st, a), self.tag_source(st, b)
            eq = (n["op"] == "==") == truth
            for (x, y, xn) in ((sa, sb, a), (sb, sa, b)):
                if y and y[0] == "kind":
                    vn = fn.nodes[fn.strip(xn)]
                    if vn["k"] == "DeclRefExpr" and vn.get("dk") in ("var", "param") and self.spec.enum_q.split("::")[-1] in (vn.get("t") or ""):
                        if not self.refine_var(st, vn["d"], frozenset([y[1]]), eq):
                            return False
                if x and y and y[0] == "kind" and x[0] in ("recv", "alias"):
                    return self.refine_to(st, x, frozenset([y[1]]), eq)
            if sa and sb and sa[0] in ("recv", "alias") and sb[0] in ("recv", "alias") and eq and sa[1] != sb[1]:
                ra, rb = self.get(st, sa[1]), self.get(st, sb[1])
                usable = all(x[0] == "recv" or (x[3] and all(d.gen == x[2] for d in self.get(st, x[1]))) for x in (sa, sb))
                if usable:
                    ua = frozenset().union(*[(d.T if sa[0] == "recv" else d.P) for d in ra])
                    ub = frozenset().union(*[(d.T if sb[0] == "recv" else d.P) for d in rb])
                    common = ua & ub
                    ok1 = self._refine_one(st, sa, common, True)
                    ok2 = self._refine_one(st, sb, common, True)
                    st["__eq"] = st.get("__eq", frozenset()) | {frozenset([sa[1], sb[1]])}
                    return ok1 and ok2
        return True

    def refine_var(self, st, d, kinds, truth_set):
        """the enum variable d is (not) within kinds: update its value set and every discriminant known equal to it"""
        cur = st.get("__tagvals", {}).get(d, self.ALL)
        cur = (cur & kinds) if truth_set else (cur - kinds)
        tv = dict(st.get("__tagvals", {}))
        tv[d] = cur
        st["__tagvals"] = tv
        ok = bool(cur)
        for key, vd in list(st.get("__teq", {}).items()):
            if vd == d:
                def f(r):
                    nt = (r.T & kinds) if truth_set else (r.T - kinds)
                    if not nt:
                        return None
                    if r.synced or r.zero:
                        r.P = (r.P & kinds) if truth_set else (r.P - kinds)
                    r.T = nt
                    return r
                ok = self.upd(st, key, f) and ok
        return ok

    def refine_switch(self, fn, st, cond, label, others, block):
        if cond is None:
            return True
        src = self.tag_source(st, cond)
        cn = fn.nodes[fn.strip(cond)]
        is_var = cn["k"] == "DeclRefExpr" and cn.get("dk") in ("var", "param") and self.spec.enum_q.split("::")[-1] in (cn.get("t") or "")
        if is_var:
            if label is not None:
                nm = (label.get("name") or "").split("::")[-1]
                okv = self.refine_var(st, cn["d"], frozenset([nm]), True) if nm in self.ALL else True
            else:
                okv = self.refine_var(st, cn["d"], frozenset((l.get("name") or "").split("::")[-1] for l in (others or [])) & self.ALL, False)
            if not okv:
                return False
        if not src or src[0] == "kind":
            return True
        if label is not None:
            nm = (label.get("name") or "").split("::")[-1]
            if nm in self.ALL:
                return self.refine_to(st, src, frozenset([nm]), True)
            return True
        kinds = frozenset((l.get("name") or "").split("::")[-1] for l in (others or [])) & self.ALL
        return self.refine_to(st, src, kinds, False)

    # ---------------- transfer
    def note(self, kind, nid, ok, why, key):
        if self.recording and (kind, nid) not in self._seen:
            self._seen.add((kind, nid))
            self.obs.append((kind, nid, ok, why, key))

    def snapshot(self, st, key):
        """what is known about enum variables and other receivers' discriminants right now (kept with a disjunct that
        is being (re)initialised, so that a later `setType(x)` can be matched with the arm it came from)"""
        items = []
        for d, vals in st.get("__tagvals", {}).items():
            items.append((("var", d), vals, 0))
        for k, ds in st.items():
            if isinstance(ds, list) and k != key:
                items.append((("recv", k), frozenset().union(*[x.T for x in ds]), st.get("__tver", {}).get(k, 0)))
        return tuple(sorted(items, key=lambda x: str(x[0])))

    def touch_member(self, st, nid, member, key, writing):
        spec = self.spec
        allowed = spec.members[member]
        oks, whys = [], []
        snap = self.snapshot(st, key)

        def f(r):
            if r.zero:
                oks.append(True)
                if writing:
                    r.P, r.zero = allowed, False
                    r.synced = len(r.T) > 0 and r.T <= allowed and r.P >= r.T and len(allowed) == 1
                    r.gen = nid
                    r.vf = snap
            else:
                ok = bool(r.P) and r.P <= allowed
                oks.append(ok)
                if not ok:
                    whys.append("payload kind %s (discriminant %s)" % (sorted(r.P) if len(r.P) < len(self.ALL) else "unknown",
                                                                       sorted(r.T) if len(r.T) < len(self.ALL) else "unknown"))
                if writing and ok:
                    r.gen = nid
            return r
        self.upd(st, key, f)
        ok = all(oks)
        self.note("T1", nid, ok, ("%s needs %s; " % (member, sorted(allowed)) + " / ".join(whys)) if not ok else
                  "payload kind within %s on every path state" % sorted(allowed), key)

    def transfer(self, fn, st, e, block):
        if "n" not in e or e.get("k") in ("autodtor", "tmpdtor", "memberdtor", "basedtor", "deletedtor"):
            return
        nid = e["n"]
        if nid < 0:
            return
        spec = self.spec
        n = fn.nodes[nid]
        k = n["k"]
        if e.get("k") == "init":
            # constructor initialiser of a union member
            fld = e.get("field")
            if fld in spec.members and self.is_member:
                dflt = astq.is_default_constructed(fn, e["n"]) or fn.nodes[fn.strip(e["n"])]["k"] in ("ImplicitValueInitExpr",)

                def f(r):
                    if dflt:
                        r.P, r.zero, r.gen = frozenset(), True, nid
                    else:
                        r.P, r.zero, r.gen = spec.members[fld], False, nid
                    r.synced = False
                    return r
                self.upd(st, "this", f)
            return
        # union member access
        if (k == "MemberExpr" and n.get("n") in spec.members and (n.get("rec") or "").startswith(spec.cls)) or \
                (k == "CXXDependentScopeMemberExpr" and n.get("n") in spec.members and not n.get("qual") and not n.get("implicit")):
            key = self.recv_key(nid)
            # recv_key(nid) gives "<base>.<member>"; the receiver is the base
            ch = n.get("ch", [])
            base_key = None
            if ch:
                b = fn.strip(ch[0])
                bn = fn.nodes[b]
                if bn["k"] == "MemberExpr" and bn.get("anon"):
                    base_key = self.recv_key(bn["ch"][0]) if bn.get("ch") else "this"
                else:
                    base_key = self.recv_key(ch[0])
            else:
                base_key = "this" if self.is_member else None
            if base_key is None:
                self.note("T1", nid, False, "union member touched through a receiver the analysis cannot name", "?")
                return
            writing = self.is_write_context(nid)
            self.touch_member(st, nid, n["n"], base_key, writing)
            # sub-fields with their own kind (number_.Natural / Integer / Real)
            sub = self.spec.subfields.get(n["n"]) if hasattr(self.spec, "subfields") else None
            if sub:
                par = fn.parents().get(nid)
                while par is not None and fn.nodes[par]["k"] in ("ParenExpr", "ImplicitCastExpr"):
                    par = fn.parents().get(par)
                pn = fn.nodes[par] if par is not None else None
                if pn is not None and pn["k"] in ("MemberExpr", "CXXDependentScopeMemberExpr") and pn.get("n") in sub:
                    want = sub[pn["n"]]
                    numeric = frozenset().union(*sub.values())
                    ds = self.get(st, base_key)
                    bad = [d for d in ds if not d.zero and d.P and d.P <= numeric and not (d.P <= want)]
                    if not self.is_write_context(par):
                        self.note("T1s", par, not bad, "%s.%s read while the payload kind is %s (that field belongs to %s)" % (
                            n["n"], pn["n"], " / ".join(str(sorted(d.P)) for d in bad) or "compatible", sorted(want)), base_key)
            return
        if k == "DeclStmt":
            for d in n["decls"]:
                if "d" in d and d.get("init", -1) >= 0:
                    src = self.tag_source(st, d["init"])
                    if src and src[0] == "recv":
                        ds = self.get(st, src[1])
                        gens = set(x.gen for x in ds)
                        st["__alias"][d["d"]] = (src[1], gens.pop() if len(gens) == 1 else -2, all(x.synced for x in ds), None)
                    else:
                        st["__alias"].pop(d["d"], None)
                    # locals of the class type start fresh when default-constructed
                key = "%s#%d" % (d.get("n"), d.get("d", -1))
                if key in st:
                    del st[key]
                is_obj = spec.cls.split("::")[-1] in (d.get("t") or "") and not d.get("ref") and d.get("tk") != "ptr"
                if d.get("init", -1) < 0 or (d.get("init", -1) >= 0 and astq.is_default_constructed(fn, d["init"])):
                    if is_obj:
                        st[key] = [RS(frozenset(["Undefined"]) & self.ALL or self.ALL, frozenset(["Undefined"]) & self.ALL or self.ALL, True, True, 0)]
                elif is_obj:
                    # T x{y} / T x{Move(y)}: the new object takes over y's kind (copy and move constructors copy the discriminant);
                    # after a move y is left Undefined with an emptied payload
                    i0 = d["init"]
                    while fn.nodes[fn.strip(i0)]["k"] in ("InitListExpr", "CXXUnresolvedConstructExpr", "ParenListExpr", "CXXConstructExpr", "CXXTemporaryObjectExpr", "CXXFunctionalCastExpr") and len(fn.nodes[fn.strip(i0)].get("ch", [])) == 1:
                        i0 = fn.nodes[fn.strip(i0)]["ch"][0]
                    sn = fn.nodes[fn.strip(i0)]
                    moved = False
                    if sn["k"] in ("CallExpr",) and fn.call_simple_name(fn.strip(i0)) in ("Move", "Forward") and fn.call_args(fn.strip(i0)):
                        moved = True
                        i0 = fn.call_args(fn.strip(i0))[0]
                    sk = self.recv_key(i0)
                    if sk and sk != key:
                        src_states = self.get(st, sk)
                        st[key] = [RS(r.P, r.T, r.zero, r.synced, 0) for r in src_states]
                        if moved:
                            und = frozenset(["Undefined"]) & self.ALL
                            if und:
                                st[sk] = [RS(und, und, True, True, nid)]
            return
        if k in ("BinaryOperator",) and n["op"] == "=":
            lhs = fn.nodes[fn.strip(n["ch"][0])]
            if lhs["k"] == "DeclRefExpr" and lhs.get("dk") in ("var", "param"):
                key = "%s#%d" % (lhs["n"], lhs["d"])
                # pointer/reference retarget: forget
                for kk in [x for x in st if x not in ("__alias", "__eq", "__tagvals", "__tver", "__teq") and (x == key or x.startswith(key + "."))]:
                    del st[kk]
                    self.drop_eq(st, kk)
                src = self.tag_source(st, n["ch"][1])
                if src and src[0] == "recv":
                    ds = self.get(st, src[1])
                    gens = set(x.gen for x in ds)
                    st["__alias"][lhs["d"]] = (src[1], gens.pop() if len(gens) == 1 else -2, all(x.synced for x in ds), None)
                else:
                    st["__alias"].pop(lhs["d"], None)
            # direct write of the discriminant field
            if spec.type_field and lhs["k"] == "MemberExpr" and lhs.get("n") == spec.type_field:
                key = self.recv_key(lhs["ch"][0]) if lhs.get("ch") else "this"
                if key:
                    self.set_tag(st, key, n["ch"][1], nid)
            return
        if k == "UnaryOperator" and n["op"] in ("++", "--"):
            t = fn.nodes[fn.strip(n["ch"][0])]
            if t["k"] == "DeclRefExpr":
                key = "%s#%d" % (t["n"], t["d"])
                for kk in [x for x in st if x not in ("__alias", "__eq", "__tagvals", "__tver", "__teq") and (x == key or x.startswith(key + "."))]:
                    del st[kk]
                    self.drop_eq(st, kk)
            return
        if k in ("CallExpr", "CXXMemberCallExpr"):
            nm = fn.call_simple_name(nid)
            ch0 = fn.nodes[fn.strip(n["ch"][0])] if n.get("ch") else {}
            is_member_call = ch0.get("k") in ("MemberExpr", "CXXDependentScopeMemberExpr", "UnresolvedMemberExpr") and not ch0.get("qual")
            if nm == "Move" and not is_member_call:
                # Memory::Move(r.member): the payload leaves r
                a = fn.call_args(nid)
                if a:
                    an = fn.nodes[fn.strip(a[0])]
                    if an["k"] in ("MemberExpr", "CXXDependentScopeMemberExpr") and an.get("n") in spec.members:
                        bk = None
                        ch = an.get("ch", [])
                        if ch:
                            bn = fn.nodes[fn.strip(ch[0])]
                            bk = self.recv_key(bn["ch"][0]) if bn["k"] == "MemberExpr" and bn.get("anon") and bn.get("ch") else self.recv_key(ch[0])
                        if bk:
                            def f(r):
                                r.zero, r.P, r.gen = True, frozenset(), nid
                                r.synced = False
                                return r
                            self.upd(st, bk, f)
                return
            if not is_member_call:
                # free function: receivers passed by mutable reference lose their facts
                for a in fn.call_args(nid):
                    key = self.recv_key(a)
                    an = fn.nodes[fn.strip(a)]
                    if key and key in st and an.get("tk") != "ptr" and "const " not in (an.get("t") or ""):
                        if nm in ("Dispose", "Initialize"):
                            continue
                        st[key] = [self.default()]
                return
            rk = self.recv_key(fn.call_receiver(nid))
            if nm in spec.accessors and rk:
                ds = self.get(st, rk)
                ok = all(r.zero is False and bool(r.P) and r.P <= spec.accessors[nm] for r in ds)
                bad = [r for r in ds if not (r.zero is False and bool(r.P) and r.P <= spec.accessors[nm])]
                self.note("T1", nid, ok, "%s() needs kind %s; payload kind %s" % (nm, sorted(spec.accessors[nm]),
                          " / ".join(str(sorted(r.P)) if len(r.P) < len(self.ALL) else "unknown" for r in bad) or "ok"), rk)
                return
            if rk is None:
                return
            if nm in spec.setters:
                self.set_tag_kind(st, rk, spec.setters[nm], nid)
                return
            if nm == spec.generic_setter:
                a = fn.call_args(nid)
                self.set_tag(st, rk, a[0] if a else None, nid)
                return
            if nm == spec.reset:
                ds = self.get(st, rk)
                bad = [r for r in ds if not (r.synced or r.zero or not (r.P & spec.owning or r.T & spec.owning))]
                self.note("TR", nid, not bad, "the reset routine releases by the discriminant: " + (" / ".join("payload %s vs discriminant %s" % (
                    sorted(r.P) if len(r.P) < len(self.ALL) else "unknown", sorted(r.T) if len(r.T) < len(self.ALL) else "unknown") for r in bad) or "in sync"), rk)

                def f(r):
                    r.zero, r.P, r.gen = True, frozenset(), nid
                    r.synced = False
                    return r
                self.upd(st, rk, f)
                return
            if nm in spec.entry_zero:
                ds = self.get(st, rk)
                self.note("TE", nid, all(d.zero for d in ds), "%s() assumes an all-zero payload (fresh object or right after %s())" % (nm, spec.reset), rk)
                st[rk] = [self.default()]
                return
            if nm in spec.getters or nm in spec.predicates:
                return
            # other methods of the class on a tracked receiver
            if n.get("fconst") is True:
                return
            if n.get("fconst") is False or "fq" not in n:
                # non-const or unresolved: the class invariant holds again afterwards, nothing else is known
                if rk in st or rk == "this":
                    callee_cls = (n.get("fq") or "").rsplit("::", 1)[0]
                    if callee_cls == spec.cls or rk != "this":
                        st[rk] = [self.default()]
            return

    def is_write_context(self, nid):
        """the member expression is assigned to / has a non-const method called on it / is passed to Move"""
        fn = self.fn
        par = fn.parents()
        p = par.get(nid)
        cur = nid
        while p is not None and fn.nodes[p]["k"] in ("ParenExpr", "ImplicitCastExpr", "MemberExpr", "CXXDependentScopeMemberExpr"):
            if fn.nodes[p]["k"] in ("MemberExpr", "CXXDependentScopeMemberExpr") and fn.nodes[p].get("anon") is not True:
                break
            cur = p
            p = par.get(p)
        if p is None:
            return False
        pn = fn.nodes[p]
        if pn["k"] in ("BinaryOperator", "CompoundAssignOperator") and pn.get("op", "").endswith("=") and pn["op"] not in ("==", "!=", "<=", ">="):
            return fn.strip(pn["ch"][0]) == fn.strip(cur) or cur in set(fn.walk(pn["ch"][0]))
        if pn["k"] == "CXXOperatorCallExpr" and pn.get("op") in ("=", "+="):
            return True
        if pn["k"] in ("MemberExpr", "CXXDependentScopeMemberExpr"):
            # member.method(...) : writing unless the method is a known const one
            gp = par.get(p)
            if gp is not None and fn.nodes[gp]["k"] in ("CallExpr", "CXXMemberCallExpr"):
                return fn.nodes[gp].get("fconst") is not True and pn.get("n") not in ("First", "Last", "End", "Length", "Size", "Storage", "IsEmpty", "IsNotEmpty", "GetKey", "GetValue", "GetItem", "Has", "Capacity")
            # member.field = ...
            return self.is_write_context(p)
        return False

    def drop_eq(self, st, key, nid=0):
        st["__eq"] = frozenset(p for p in st.get("__eq", frozenset()) if key not in p)
        tv = dict(st.get("__tver", {}))
        tv[key] = nid
        st["__tver"] = tv
        te = dict(st.get("__teq", {}))
        te.pop(key, None)
        st["__teq"] = te

    def set_tag_kind(self, st, key, kind, nid):
        self.drop_eq(st, key, nid)

        def f(r):
            r.T = frozenset([kind])
            if r.zero:
                # an all-zero payload is the valid empty state of every member
                r.P = frozenset([kind])
                r.synced = True
                r.zero = kind not in self.spec.owning and r.zero
                if kind in self.spec.owning:
                    r.zero = False
            else:
                r.synced = (r.P == r.T)
            return r
        self.upd(st, key, f)

    def set_tag(self, st, key, arg_nid, nid):
        self.drop_eq(st, key, nid)
        if arg_nid is None:
            st[key] = [self.default()]
            return
        src = self.tag_source(st, arg_nid)
        if src and src[0] == "kind":
            self.set_tag_kind(st, key, src[1], nid)
            return
        vals = None
        an = self.fn.nodes[self.fn.strip(arg_nid)]
        if an["k"] == "DeclRefExpr" and an.get("d") in st.get("__tagvals", {}):
            vals = st["__tagvals"][an["d"]]
        if src and src[0] == "recv":
            vals = frozenset().union(*[d.T for d in self.get(st, src[1])])
        elif src and src[0] == "alias":
            ds = self.get(st, src[1])
            vals = frozenset().union(*[d.P for d in ds]) if (src[3] and all(d.gen == src[2] for d in ds)) else self.ALL
        if vals is None:
            vals = self.ALL

        want = None
        if an["k"] == "DeclRefExpr" and an.get("dk") in ("var", "param"):
            want = ("var", an["d"])
        if src and src[0] == "recv":
            want = ("recv", src[1])
        tver = st.get("__tver", {})

        def f(r):
            v = vals
            for (what, sv, ver) in r.vf:
                if what == want and (what[0] == "var" or tver.get(what[1], 0) == ver):
                    v = sv & vals
            r.T = v
            if r.zero:
                r.P = r.T
                r.synced = True
                if len(r.T) == 1 and (r.T & self.spec.owning):
                    r.zero = False
            else:
                r.synced = (len(r.T) == 1 and r.P == r.T) or (bool(r.T) and r.T <= r.P and not (r.P & self.spec.owning) and not (r.T & self.spec.owning))
            return r
        self.upd(st, key, f)
        if want and want[0] == "var":
            te = dict(st.get("__teq", {}))
            te[key] = want[1]
            st["__teq"] = te


def run(model, fn, spec, this_initial=None, exit_receivers=("this",), check_exit=True):
    """returns list of (rule, nid, ok, why, receiver key)"""
    c = TagClient(model, fn, spec, this_initial)
    states = dataflow.run(fn, c)
    c.recording = True

    def visit(b, i, e, st):
        return
    # replay for obligations
    blocks = fn.blocks()
    for bid, st0 in states.items():
        st = c.copy(st0)
        for e in blocks[bid]["el"]:
            c.transfer(fn, st, e, blocks[bid])
    obs = list(c.obs)
    if fn.cls == spec.cls and (fn.name in spec.setters or fn.name == spec.generic_setter):
        check_exit = False   # the primitive discriminant writers: their callers are checked
    if check_exit and fn.cfg:
        ex = fn.cfg["exit"]
        for b in fn.cfg["blocks"]:
            if ex not in [s for s in b.get("succ", []) if s is not None] or b["id"] not in states:
                continue
            st = c.copy(states[b["id"]])
            c.recording = False
            for e in b["el"]:
                c.transfer(fn, st, e, b)
            last = [e["n"] for e in b["el"] if isinstance(e.get("n"), int) and not e.get("k")]
            for key, r in st.items():
                if key in ("__alias", "__eq", "__tagvals", "__tver", "__teq") or not isinstance(r, list):
                    continue
                base = key.split("#")[0]
                is_param = any(p["n"] == base and (p["ref"] or p["ptr"]) for p in fn.params)
                if not (key == "this" or (is_param and "." not in key)):
                    continue
                if key == "this" and fn.kind == "dtor":
                    continue
                for d in r:
                    if d.synced or d.zero:
                        continue
                    # not in sync and not zero: the discriminant was written independently of the payload
                    lost = d.P & spec.owning
                    wrong = (d.T & spec.owning) if not lost else frozenset()
                    if lost or wrong:
                        obs.append(("TX", last[-1] if last else fn.body, False,
                                    "on exit `%s` may hold a payload of kind %s while its discriminant is %s%s" % (
                                        base, sorted(d.P) if len(d.P) < len(spec.kinds) else "unknown",
                                        sorted(d.T) if len(d.T) < len(spec.kinds) else "unknown",
                                        " (owning payload leaked/reinterpreted)" if lost else " (owning kind named over a payload of another kind)"), key))
                        break
    return obs
