"""Disjunctive (partitioned) wrapper around a dataflow client: the abstract state is a map
tag -> inner state; states with different tags are never joined.  The tag is a small typestate
updated by retag(fn, tag, elem)."""
from . import dataflow


class Partitioned(dataflow.Client):
    def __init__(self, inner, retag, initial_tag, retag_edge=None):
        self.inner = inner
        self.retag = retag
        self.retag_edge = retag_edge
        self.initial_tag = initial_tag

    def initial(self, fn):
        return {self.initial_tag: self.inner.initial(fn)}

    def copy(self, st):
        return {k: self.inner.copy(v) for k, v in st.items()}

    def transfer(self, fn, st, e, block):
        new = {}
        for tag, s in st.items():
            self.inner.transfer(fn, s, e, block)
            nt = self.retag(fn, tag, e)
            if nt in new:
                new[nt] = self.inner.join(new[nt], s)
            else:
                new[nt] = s
        st.clear()
        st.update(new)

    def refine(self, fn, st, cond, truth, block):
        for tag in list(st):
            if self.inner.refine(fn, st[tag], cond, truth, block) is False:
                del st[tag]
        if self.retag_edge is not None:
            new = {}
            for tag, s in st.items():
                nt = self.retag_edge(fn, tag, cond, truth)
                if nt is None:
                    continue   # the typestate contradicts this edge
                new[nt] = self.inner.join(new[nt], s) if nt in new else s
            st.clear()
            st.update(new)
        return bool(st)

    def refine_switch(self, fn, st, cond, label, others, block):
        for tag in list(st):
            if self.inner.refine_switch(fn, st[tag], cond, label, others, block) is False:
                del st[tag]
        return bool(st)

    def join(self, a, b):
        out = {k: v for k, v in a.items()}
        for k, v in b.items():
            out[k] = self.inner.join(out[k], v) if k in out else v
        return out

    def widen(self, a, b):
        out = {k: v for k, v in a.items()}
        for k, v in b.items():
            out[k] = self.inner.widen(out[k], v) if k in out else v
        return out

    def equal(self, a, b):
        return set(a) == set(b) and all(self.inner.equal(a[k], b[k]) for k in a)
