"""Glue: run E-ZONE obligations for a list of contract keys and collect them into Rule objects."""
from .zone import ContractTable
from . import zonecheck
from .model import AnalysisBroken


def functions_for(model, table, key):
    q = key.split("/")[0]
    np = int(key.split("/")[1]) if "/" in key else None
    fs = [f for f in model.fns(q, pattern=True) if np is None or len(f.params) == np]
    if not fs:
        raise AnalysisBroken("contract %s matches no function definition" % key)
    return fs


def run_zone(ctx, model, contracts, keys, rules, fields_written_by=None):
    """rules: dict engine-rule-name -> Rule (ZB-read, ZB-call, ZB-req, ZB-ens).  Returns stats per function."""
    table = ContractTable(contracts)
    stats_all = {}
    for key in keys:
        if key not in contracts:
            raise AnalysisBroken("no contract named %s" % key)
        for f in functions_for(model, table, key):
            ctx.note_fn(f)
            obs, stats, _ = zonecheck.analyse(model, f, table, fields_written_by=fields_written_by)
            stats_all[f.sig] = stats
            if stats["unclassified"]:
                for (txt, loc) in stats["unclassified"]:
                    r = rules.get("ZB-read")
                    if r is not None:
                        r.broke("%s: raw access %s at %s is on a pointer the contract of this function does not classify" % (f.q, txt, loc))
            for o in obs:
                r = rules.get(o.rule)
                if r is None:
                    continue
                r.add_zone(o)
    return stats_all
