"""Bit-level abstract values for small bit-manipulating code (UTF encoders, surrogate recombination).

A value is  BV + K : a vector of W symbolic bits plus an integer constant K (K != 0 only after an
addition whose carries cannot be resolved bitwise).  A symbolic bit is 0, 1 or ('b', var, i) = bit i
of the named input.  Equality of two values in this domain implies equality of the functions they
denote on the inputs allowed by the known-bits/interval facts (sound; incomplete shapes are reported
as "unrecognised", never as a verdict)."""

W = 40


class Unrecognised(Exception):
    pass


class Var:
    """facts about one unsigned input: interval and known bits"""

    def __init__(self, name, lo=0, hi=(1 << 32) - 1):
        self.name = name
        self.lo = lo
        self.hi = hi
        self.known = {}  # bit index -> 0/1

    def copy(self):
        v = Var(self.name, self.lo, self.hi)
        v.known = dict(self.known)
        return v

    def bits(self):
        out = []
        top = self.hi.bit_length()
        for i in range(W):
            if i in self.known:
                out.append(self.known[i])
            elif i >= top:
                out.append(0)
            else:
                out.append(("b", self.name, i))
        return out

    def empty(self):
        return self.lo > self.hi


class Val:
    def __init__(self, bits, k=0):
        self.bits = list(bits)
        self.k = k

    @staticmethod
    def const(c):
        if c < 0:
            raise Unrecognised("negative constant")
        return Val([(c >> i) & 1 for i in range(W)])

    def is_const(self):
        return all(b in (0, 1) for b in self.bits)

    def const_value(self):
        return sum((b << i) for i, b in enumerate(self.bits)) + self.k

    def key(self):
        return (tuple(self.bits), self.k)

    def __eq__(self, o):
        return isinstance(o, Val) and self.key() == o.key()

    def __repr__(self):
        # compress: describe runs
        parts = []
        i = W - 1
        while i >= 0 and self.bits[i] == 0:
            i -= 1
        s = []
        for j in range(i, -1, -1):
            b = self.bits[j]
            s.append(str(b) if b in (0, 1) else "%s%d" % (b[1], b[2]))
        return "[" + " ".join(s) + "]" + (" + %#x" % self.k if self.k else "")


def _bitop(op, a, b):
    if op == "|":
        if a == 1 or b == 1:
            return 1
        if a == 0:
            return b
        if b == 0:
            return a
        if a == b:
            return a
    elif op == "&":
        if a == 0 or b == 0:
            return 0
        if a == 1:
            return b
        if b == 1:
            return a
        if a == b:
            return a
    elif op == "^":
        if a == 0:
            return b
        if b == 0:
            return a
        if a in (0, 1) and b in (0, 1):
            return a ^ b
        if a == b:
            return 0
    raise Unrecognised("bit operation %s on two distinct symbolic bits" % op)


def binop(op, a, b):
    if op in ("|", "&", "^"):
        if a.k or b.k:
            raise Unrecognised("bitwise operator on a value with an unresolved additive constant")
        return Val([_bitop(op, x, y) for x, y in zip(a.bits, b.bits)])
    if op == "<<":
        if not b.is_const() or a.k:
            raise Unrecognised("shift by a non-constant")
        s = b.const_value()
        return Val(([0] * s + a.bits)[:W])
    if op == ">>":
        if not b.is_const() or a.k:
            raise Unrecognised("shift by a non-constant")
        s = b.const_value()
        return Val(a.bits[s:] + [0] * min(s, W))
    if op == "+":
        # disjoint supports: same as OR
        if all(x == 0 or y == 0 for x, y in zip(a.bits, b.bits)):
            return Val([y if x == 0 else x for x, y in zip(a.bits, b.bits)], a.k + b.k)
        if b.is_const():
            return Val(a.bits, a.k + b.const_value() - b.k + b.k)
        if a.is_const():
            return Val(b.bits, b.k + a.const_value())
        raise Unrecognised("addition with overlapping symbolic bits")
    raise Unrecognised("operator %s" % op)


def truncate(a, width):
    if a.k:
        raise Unrecognised("truncation of a value with an unresolved additive constant")
    return Val(a.bits[:width] + [0] * (W - width))


def refine_cmp(var, op, c):
    """refine Var by  var <op> c ; returns False if it becomes empty"""
    if op == "<":
        var.hi = min(var.hi, c - 1)
    elif op == "<=":
        var.hi = min(var.hi, c)
    elif op == ">":
        var.lo = max(var.lo, c + 1)
    elif op == ">=":
        var.lo = max(var.lo, c)
    elif op == "==":
        var.lo = max(var.lo, c)
        var.hi = min(var.hi, c)
    elif op == "!=":
        if var.lo == c:
            var.lo += 1
        if var.hi == c:
            var.hi -= 1
    return not var.empty()


def refine_shift_eq(var, k, c, eq):
    """(var >> k) == c  (eq True) / != c (eq False)"""
    lo, hi = c << k, (c << k) + (1 << k) - 1
    if eq:
        var.lo = max(var.lo, lo)
        var.hi = min(var.hi, hi)
        for i in range(k, W):
            var.known[i] = (c >> (i - k)) & 1
        return not var.empty()
    # complement: only representable when the excluded block touches an end of the interval
    if hi < var.lo or lo > var.hi:
        return True
    if lo <= var.lo and hi >= var.hi:
        var.lo, var.hi = 1, 0
        return False
    if lo <= var.lo:
        var.lo = hi + 1
        return True
    if hi >= var.hi:
        var.hi = lo - 1
        return True
    raise Unrecognised("excluded block splits the interval")


def value_set_shift_eq(k, c, width=16):
    return (c << k, min((c << k) + (1 << k) - 1, (1 << width) - 1))
