"""Generic forward dataflow over the exported clang CFG.

The CFG was built with setAllAlwaysAdd: every sub-expression is its own element,
in evaluation order.  A client therefore gives a *shallow* transfer function per
element (the node's own effect; children were processed as earlier elements) and
a refinement per branch edge.  Successor 0 of a two-way branch is the true edge.
"""


class Client:
    def initial(self, fn):
        raise NotImplementedError

    def copy(self, st):
        raise NotImplementedError

    def transfer(self, fn, st, elem, block):
        """mutate st for one CFG element (dict from the export)"""

    def refine(self, fn, st, cond_nid, truth, block):
        """mutate st for the edge taken when cond is `truth`; return False if the edge is infeasible"""
        return True

    def refine_switch(self, fn, st, cond_nid, label, sibling_labels, block):
        return True

    def join(self, a, b):
        raise NotImplementedError

    def widen(self, old, new):
        return self.join(old, new)

    def equal(self, a, b):
        raise NotImplementedError


def successors(fn, b):
    """[(succ_id, kind, payload)] kind in 'fall','true','false','case','default'"""
    blocks = fn.blocks()
    succ = b.get("succ", [])
    termk = b.get("termk")
    out = []
    if termk == "SwitchStmt":
        labels = []
        for s in succ:
            if s is None:
                labels.append(None)
                continue
            labels.append(blocks[s].get("label"))
        for i, s in enumerate(succ):
            if s is None:
                continue
            lab = labels[i]
            if lab is not None and "case" in lab or (lab is not None and "name" in lab and "default" not in lab):
                out.append((s, "case", lab))
            else:
                # default label, or the implicit default edge (last successor)
                out.append((s, "default", [l for l in labels if l and "default" not in l]))
        return out
    if "cond" in b and len(succ) == 2 and not b.get("tmpdtorbranch"):
        if succ[0] is not None:
            out.append((succ[0], "true", b["cond"]))
        if succ[1] is not None:
            out.append((succ[1], "false", b["cond"]))
        return out
    for s in succ:
        if s is not None:
            out.append((s, "fall", None))
    return out


def run(fn, client, max_iter=200000, widen_after=4):
    """returns (entry_states, None).  entry_states: block id -> state at block entry."""
    cfg = fn.cfg
    if not cfg:
        return {}
    blocks = fn.blocks()
    entry = cfg["entry"]
    states = {entry: client.initial(fn)}
    visits = {}
    work = [entry]
    inwork = {entry}
    it = 0
    while work:
        it += 1
        if it > max_iter:
            raise RuntimeError("dataflow did not converge in %s" % fn.q)
        bid = work.pop()
        inwork.discard(bid)
        b = blocks[bid]
        st = client.copy(states[bid])
        for e in b["el"]:
            client.transfer(fn, st, e, b)
        for (s, kind, payload) in successors(fn, b):
            out = client.copy(st)
            feasible = True
            if kind == "true":
                feasible = client.refine(fn, out, payload, True, b)
            elif kind == "false":
                feasible = client.refine(fn, out, payload, False, b)
            elif kind == "case":
                feasible = client.refine_switch(fn, out, b.get("cond"), payload, None, b)
            elif kind == "default":
                feasible = client.refine_switch(fn, out, b.get("cond"), None, payload, b)
            if feasible is False:
                continue
            if s not in states:
                states[s] = out
                changed = True
            else:
                visits[s] = visits.get(s, 0) + 1
                if visits[s] > widen_after:
                    new = client.widen(states[s], out)
                else:
                    new = client.join(states[s], out)
                changed = not client.equal(new, states[s])
                if changed:
                    states[s] = new
            if changed and s not in inwork:
                work.append(s)
                inwork.add(s)
    return states


def replay(fn, client, states, visit):
    """after the fixpoint: walk every reachable block once and call
    visit(block, elem_index, elem, state_before_elem).  Also visit(block, None, None, state_at_end)."""
    blocks = fn.blocks()
    for bid, st0 in states.items():
        b = blocks[bid]
        st = client.copy(st0)
        for i, e in enumerate(b["el"]):
            visit(b, i, e, st)
            client.transfer(fn, st, e, b)
        visit(b, None, None, st)


def edge_states(fn, client, states):
    """yield (block, succ_id, kind, payload, state_on_edge) after the fixpoint"""
    blocks = fn.blocks()
    for bid, st0 in states.items():
        b = blocks[bid]
        st = client.copy(st0)
        for e in b["el"]:
            client.transfer(fn, st, e, b)
        for (s, kind, payload) in successors(fn, b):
            out = client.copy(st)
            feasible = True
            if kind == "true":
                feasible = client.refine(fn, out, payload, True, b)
            elif kind == "false":
                feasible = client.refine(fn, out, payload, False, b)
            elif kind == "case":
                feasible = client.refine_switch(fn, out, b.get("cond"), payload, None, b)
            elif kind == "default":
                feasible = client.refine_switch(fn, out, b.get("cond"), None, payload, b)
            if feasible is False:
                continue
            yield b, s, kind, payload, out


def block_of(fn, nid):
    """id of the CFG block holding AST node nid as an element (or as terminator condition)"""
    for b in fn.cfg["blocks"]:
        for e in b["el"]:
            if e.get("n") == nid:
                return b["id"]
    return None


def reachable(fn, avoid_edge=None, start=None):
    """block ids reachable from the entry; avoid_edge(block, succ_id, kind, payload) -> True to drop an edge"""
    blocks = fn.blocks()
    start = fn.cfg["entry"] if start is None else start
    seen = {start}
    work = [start]
    while work:
        b = blocks[work.pop()]
        for (s, kind, payload) in successors(fn, b):
            if avoid_edge is not None and avoid_edge(b, s, kind, payload):
                continue
            if s not in seen:
                seen.add(s)
                work.append(s)
    return seen


def dominated_by_branch(fn, target_nid, cond_nid, truth):
    """every entry->target path takes the `truth` edge of the branch on cond_nid"""
    tb = block_of(fn, target_nid)
    if tb is None:
        return False
    want = "true" if truth else "false"
    # remove the wanted edge: if the target is still reachable, some path avoids it
    r = reachable(fn, lambda b, s, kind, payload: kind == want and payload == cond_nid)
    has = any(b.get("cond") == cond_nid for b in fn.cfg["blocks"])
    return has and tb not in r
