"""E-ZONE: difference-bound abstract interpretation of unsigned cursors.

State = closed set of difference constraints  a - b <= c  over *terms*
(locals, parameters, entry values of parameters, fields of `this`, pure getter
calls), plus definitions `x == linear form` for derived lengths/pointers and
implications carried by boolean flags.

All tracked terms are unsigned integers; `x + small constant` is assumed not to
overflow (documented assumption), but a subtraction `a - b` is only given a value
when `b <= a` is a known fact (unsigned wrap otherwise).
"""
from . import dataflow

ZERO = "0"
INF = None

import re
_DEP_INT = re.compile(r"^(const )?(Number\d*_T|N_Number_T|Number2_T|SizeT_Type)( &)?$")


def trackable_decl(tk, t):
    """is a declared variable of this (type kind, type string) a cursor-like unsigned integer / flag / pointer"""
    if tk in ("uint", "bool", "ptr"):
        return True
    if tk == "dep":
        return bool(_DEP_INT.match(t or ""))
    return False


PURE_GETTERS = {"Length", "Size", "Capacity", "GetOffset", "GetLength", "GetMatch", "Count", "MaxIndex", "TypeWidth", "Index"}


class Lin:
    """linear form: sum coef*term + const"""
    __slots__ = ("co", "k")

    def __init__(self, co=None, k=0):
        self.co = {t: c for t, c in (co or {}).items() if c != 0}
        self.k = k

    def __add__(self, o):
        co = dict(self.co)
        for t, c in o.co.items():
            co[t] = co.get(t, 0) + c
        return Lin(co, self.k + o.k)

    def __sub__(self, o):
        co = dict(self.co)
        for t, c in o.co.items():
            co[t] = co.get(t, 0) - c
        return Lin(co, self.k - o.k)

    def scale(self, m):
        return Lin({t: c * m for t, c in self.co.items()}, self.k * m)

    def shift(self, d):
        return Lin(self.co, self.k + d)

    def terms(self):
        return set(self.co)

    def subst(self, t, lin):
        """replace term t by linear form lin"""
        if t not in self.co:
            return self
        c = self.co[t]
        co = dict(self.co)
        del co[t]
        return Lin(co, self.k) + lin.scale(c)

    def is_const(self):
        return not self.co

    def single(self):
        """(term, k) if form is term + k"""
        if len(self.co) == 1:
            (t, c), = self.co.items()
            if c == 1:
                return t, self.k
        return None

    def key(self):
        return (tuple(sorted(self.co.items())), self.k)

    def __repr__(self):
        parts = []
        for t, c in sorted(self.co.items()):
            parts.append(("" if c == 1 else "-" if c == -1 else "%d*" % c) + t)
        if self.k or not parts:
            parts.append(str(self.k))
        return " + ".join(parts)


class State:
    __slots__ = ("dbm", "defs", "flags", "ptrs", "bottom", "notes", "ubs")

    def __init__(self):
        self.dbm = {}      # (a, b) -> c   meaning a - b <= c   (closed)
        self.defs = {}     # term -> Lin   (term == Lin)
        self.ptrs = {}     # pointer term -> (buffer term, Lin)   p == buf + Lin
        self.flags = {}    # bool term -> (cons_if_true, cons_if_false, deps)
        self.bottom = False
        self.notes = set()
        self.ubs = {}      # term -> Lin with more than one variable:  term <= Lin  (what a callee guarantees about its result
                           # relative to an argument expression such as `length - offset`; outside the two-variable domain)

    def copy(self):
        s = State()
        s.ubs = dict(self.ubs)
        s.dbm = dict(self.dbm)
        s.defs = dict(self.defs)
        s.ptrs = dict(self.ptrs)
        s.flags = dict(self.flags)
        s.bottom = self.bottom
        s.notes = set(self.notes)
        return s

    # ---- dbm
    def terms(self):
        ts = set()
        for (a, b) in self.dbm:
            ts.add(a)
            ts.add(b)
        return ts

    def get(self, a, b):
        if a == b:
            return 0
        v = self.dbm.get((a, b))
        if v is None and b == ZERO:
            return None
        if v is None and a == ZERO:
            return 0  # 0 - b <= 0 : every term is unsigned
        if v is None:
            # a <= u and b >= 0  =>  a - b <= u
            return self.dbm.get((a, ZERO))
        return v

    def add(self, a, b, c):
        """add a - b <= c and restore closure (incremental Floyd-Warshall)"""
        if a == b:
            if c < 0:
                self.bottom = True
            return
        cur = self.get(a, b)
        if cur is not None and cur <= c:
            return
        ts = self.terms() | {a, b, ZERO}
        # contradiction?
        back = self.get(b, a)
        if back is not None and back + c < 0:
            self.bottom = True
        new = {}
        for x in ts:
            xa = self.get(x, a)
            if xa is None:
                continue
            for y in ts:
                if x == y:
                    continue
                by = self.get(b, y)
                if by is None:
                    continue
                v = xa + c + by
                old = self.get(x, y)
                if old is None or v < old:
                    nv = new.get((x, y))
                    if nv is None or v < nv:
                        new[(x, y)] = v
        for (x, y), v in new.items():
            if x == ZERO and v >= 0:
                continue
            self.dbm[(x, y)] = v

    def le(self, a, b, c=0):
        """is a - b <= c known?"""
        v = self.get(a, b)
        return v is not None and v <= c

    def kill(self, t):
        if ("o:" + t) in self.terms() or ("o:" + t) in self.defs:
            self.kill("o:" + t)
        for key in [k for k in self.dbm if k[0] == t or k[1] == t]:
            del self.dbm[key]
        for d in [d for d, l in self.defs.items() if d == t or t in l.co]:
            del self.defs[d]
        for p in [p for p, (b, l) in self.ptrs.items() if p == t or b == t or t in l.co]:
            del self.ptrs[p]
        for f in [f for f, (_, _, deps) in self.flags.items() if f == t or t in deps]:
            del self.flags[f]
        for u in [u for u, l in self.ubs.items() if u == t or t in l.co]:
            del self.ubs[u]

    def kill_prefix(self, pred):
        for t in [t for t in (self.terms() | set(self.defs) | set(self.ptrs) | set(self.flags)) if pred(t)]:
            self.kill(t)
        # definitions mentioning such terms
        for d in [d for d, l in self.defs.items() if any(pred(x) for x in l.co)]:
            del self.defs[d]
        for p in [p for p, (b, l) in self.ptrs.items() if pred(b) or any(pred(x) for x in l.co)]:
            del self.ptrs[p]
        for f in [f for f, (_, _, deps) in self.flags.items() if any(pred(x) for x in deps)]:
            del self.flags[f]
        for u in [u for u, l in self.ubs.items() if pred(u) or any(pred(x) for x in l.co)]:
            del self.ubs[u]

    def shift(self, t, d):
        """t := t + d  (d may be negative; caller has checked no wrap)"""
        nd = {}
        for u in [u for u, l in self.ubs.items() if u == t or t in l.co]:
            del self.ubs[u]
        if d > 0 and (ZERO, t) not in self.dbm and t != ZERO:
            nd[(ZERO, t)] = -d      # every term is unsigned: 0 - t <= 0 held implicitly before the step
        for (a, b), c in self.dbm.items():
            if a == t and b != t:
                nd[(a, b)] = c + d
            elif b == t and a != t:
                nd[(a, b)] = c - d
            else:
                nd[(a, b)] = c
        self.dbm = {k: v for k, v in nd.items() if not (k[0] == ZERO and v >= 0)}
        # x == L(t_old) where t_old = t_new - d
        old = Lin({t: 1}, -d)
        for x, l in list(self.defs.items()):
            if x == t:
                del self.defs[x]
            elif t in l.co:
                self.defs[x] = l.subst(t, old)
        for p, (b, l) in list(self.ptrs.items()):
            if t in l.co and t != "o:" + p:
                self.ptrs[p] = (b, l.subst(t, old))
        for f, (ct, cf, deps) in list(self.flags.items()):
            if t in deps:
                sh = lambda cons: [(a, b, c + d if a == t and b != t else c - d if b == t and a != t else c) for (a, b, c) in cons]
                self.flags[f] = (tuple(sh(ct)), tuple(sh(cf)), deps)

    # ---- linear-form queries
    def lin_le0(self, l):
        """is linear form l <= 0 known?  only forms  a - b + k,  a + k,  -b + k,  k (also after
        substituting definitions)"""
        if self._lin_le0(l):
            return True
        e = self.expand(l)
        if e.key() != l.key() and self._lin_le0(e):
            return True
        # t <= U(t): replacing a positively occurring t by its recorded upper bound can only make the form larger
        for t, c in list(l.co.items()):
            if c != 1:
                continue
            for u, ub in self.ubs.items():
                # t - u <= k (k = 0 for t itself) and u <= ub  =>  t <= ub + k
                k = 0 if t == u else self.dbm.get((t, u))
                if k is None or u in l.co and t != u:
                    continue
                l2 = l.subst(t, ub.shift(k))
                if l2.key() != l.key() and (self._lin_le0(l2) or self._lin_le0(self.expand(l2))):
                    return True
        return False

    def _lin_le0(self, l):
        co = l.co
        if not co:
            return l.k <= 0
        pos = [t for t, c in co.items() if c == 1]
        neg = [t for t, c in co.items() if c == -1]
        if len(pos) + len(neg) != len(co) or len(pos) > 1 or len(neg) > 1:
            return False
        a = pos[0] if pos else ZERO
        b = neg[0] if neg else ZERO
        return self.le(a, b, -l.k)

    def add_lin_le0(self, l):
        co = l.co
        if not co:
            if l.k > 0:
                self.bottom = True
            return True
        pos = [t for t, c in co.items() if c == 1]
        neg = [t for t, c in co.items() if c == -1]
        if len(pos) + len(neg) != len(co) or len(pos) > 1 or len(neg) > 1:
            return False
        a = pos[0] if pos else ZERO
        b = neg[0] if neg else ZERO
        self.add(a, b, -l.k)
        return True

    def expand(self, l):
        """substitute definitions (one level) to reach forms over base terms"""
        for _ in range(3):
            changed = False
            for t in list(l.co):
                if t in self.defs:
                    l = l.subst(t, self.defs[t])
                    changed = True
            if not changed:
                break
        return l


WIDEN_THRESHOLDS = (-2, -1, 0, 1, 2)


def join(a, b):
    if a.bottom:
        return b.copy()
    if b.bottom:
        return a.copy()
    s = State()
    ts = a.terms() | b.terms() | {ZERO}
    for (x, y), c in a.dbm.items():
        v = b.get(x, y)
        if v is None:
            continue
        s.dbm[(x, y)] = max(c, v)
    for (x, y), c in b.dbm.items():
        if (x, y) in s.dbm:
            continue
        v = a.get(x, y)
        if v is None:
            continue
        m = max(c, v)
        if x == ZERO and m >= 0:
            continue
        s.dbm[(x, y)] = m
    for d, l in a.defs.items():
        l2 = b.defs.get(d)
        if l2 is not None and l2.key() == l.key():
            s.defs[d] = l
    for p, (bb, l) in a.ptrs.items():
        o = b.ptrs.get(p)
        if o is not None and o[0] == bb and o[1].key() == l.key():
            s.ptrs[p] = (bb, l)
    for u, l in a.ubs.items():
        l2 = b.ubs.get(u)
        if l2 is not None and l2.key() == l.key():
            s.ubs[u] = l
    for f in set(a.flags) | set(b.flags):
        fa, fb = a.flags.get(f), b.flags.get(f)
        if fa is not None and fa == fb:
            s.flags[f] = fa
            continue
        # an implication "f => C" survives when each side has it, or knows f is the other
        # constant, or knows C outright
        def holds(S, fl, truth, c):
            if fl is not None and c in (fl[0] if truth else fl[1]):
                return True
            if truth and S.le(f, ZERO, 0):
                return True
            if (not truth) and S.le(ZERO, f, -1):
                return True
            return S.le(c[0], c[1], c[2])
        ct = [c for c in dict.fromkeys(tuple(fa[0] if fa else ()) + tuple(fb[0] if fb else ()))
              if holds(a, fa, True, c) and holds(b, fb, True, c)]
        cf = [c for c in dict.fromkeys(tuple(fa[1] if fa else ()) + tuple(fb[1] if fb else ()))
              if holds(a, fa, False, c) and holds(b, fb, False, c)]
        if ct or cf:
            deps = frozenset(x for (p, q, _) in ct + cf for x in (p, q) if x != ZERO)
            s.flags[f] = (tuple(ct), tuple(cf), deps)
    s.notes = a.notes | b.notes
    return s


def widen(old, new):
    j = join(old, new)
    # constraints that are still growing jump to the next threshold, then are dropped
    for k in list(j.dbm):
        ov = old.get(*k)
        if ov is None:
            del j.dbm[k]
        elif j.dbm[k] > ov:
            nv = j.dbm[k]
            for t in WIDEN_THRESHOLDS:
                if nv <= t:
                    j.dbm[k] = t
                    break
            else:
                del j.dbm[k]
    return j


def equal(a, b):
    return a.bottom == b.bottom and a.dbm == b.dbm and \
        {k: v.key() for k, v in a.defs.items()} == {k: v.key() for k, v in b.defs.items()} and \
        {k: (v[0], v[1].key()) for k, v in a.ptrs.items()} == {k: (v[0], v[1].key()) for k, v in b.ptrs.items()} and \
        a.flags == b.flags and {k: v.key() for k, v in a.ubs.items()} == {k: v.key() for k, v in b.ubs.items()}


class Contract:
    """per-function facts, written after reading the code (tables/contracts.py)"""

    def __init__(self, buffers=None, requires=None, ensures=None, onepast=None, notes="", literals=None,
                 foreign=None, invariants=None, axioms=None, ret=None, call_requires=None, objects=None, accessor_model=None, lower_bounds=None):
        self.buffers = buffers or {}    # buffer term name -> bound expression (term name, '@entry' allowed)
        self.requires = requires or []  # [(a, b, c)] on parameter names: a - b <= c at entry
        self.ensures = ensures or {}    # by-ref param name -> list of ('inc',) | ('le', boundname)
        self.onepast = onepast or set() # buffers whose unit at index == bound is readable
        self.literals = literals or []  # expressions naming non-empty NUL-terminated literals (terminator readable)
        self.foreign = foreign or {}    # buffer expression text -> reason it is out of this engine's scope
        self.invariants = invariants or []  # [(a, b, c)] over field terms: assumed at entry, proven at every exit
        self.axioms = axioms or []      # [(termA, termB, c, reason)] facts about pure getters, re-established after kills
        self.ret = ret or []            # facts about the returned value: ('le', param) result <= param
        self.call_requires = call_requires or {}  # callee simple name -> [(arg index, bound name)]: arg <= bound here
        # local object -> method -> effect spec on its pure getters (each spec is justified by a rule on the class):
        #   {"set": (getter, arg index)}                               getter() == argument afterwards
        #   {"havoc": [getters], "inc": [getters], "le": [(getter, bound)], "implies": [(flag getter, getter, bound)]}
        self.objects = objects or {}
        # name of the size getter ("Length" / "Size") when First()/Last()/End() of containers are to be read as
        # Storage(), Storage() + size - 1, Storage() + size (justified by the accessor bodies, checked by the rule that sets it)
        self.accessor_model = accessor_model
        # buffer term name -> name of a term below which the function has no business (definite-violation rule only)
        self.lower_bounds = lower_bounds or {}
        self.notes = notes


class ContractTable:
    """qualified name (optionally 'name/<nparams>' for overloads) -> Contract"""

    def __init__(self, table):
        self.table = dict(table)
        self._bound = False

    def bind(self, model):
        """translate contracts whose function kept its parameter count but renamed parameters (positional match against the
        names recorded in tables/contract_params.json when the contract was reviewed)"""
        if self._bound:
            return
        self._bound = True
        import json, os, re
        snap_path = os.path.join(os.path.dirname(os.path.dirname(os.path.abspath(__file__))), "tables", "contract_params.json")
        if not os.path.exists(snap_path):
            return
        snap = json.load(open(snap_path))
        for key, old_names in snap.items():
            c = self.table.get(key)
            if c is None:
                continue
            q = key.split("/")[0]
            np = int(key.split("/")[1]) if "/" in key else None
            fs = [f for f in model.fns(q, pattern=True, required=False) if (np is None or len(f.params) == np) and len(f.params) == len(old_names)]
            if not fs:
                continue
            new_names = [p_["n"] for p_ in fs[0].params]
            ren = {o: n_ for o, n_ in zip(old_names, new_names) if o != n_}
            if not ren:
                continue

            def tr(x):
                if isinstance(x, str):
                    return re.sub(r"\b(%s)\b" % "|".join(re.escape(o) for o in ren), lambda mt: ren[mt.group(1)], x)
                if isinstance(x, tuple):
                    return tuple(tr(y) for y in x)
                if isinstance(x, list):
                    return [tr(y) for y in x]
                if isinstance(x, set):
                    return set(tr(y) for y in x)
                if isinstance(x, dict):
                    return {tr(k_): tr(v_) for k_, v_ in x.items()}
                return x
            c2 = Contract(buffers=tr(c.buffers), requires=tr(c.requires), ensures=tr(c.ensures), onepast=tr(c.onepast), notes=c.notes,
                          literals=c.literals, foreign=tr(c.foreign), invariants=tr(c.invariants), axioms=tr(c.axioms), ret=tr(c.ret),
                          call_requires=tr(c.call_requires), objects=c.objects, accessor_model=c.accessor_model, lower_bounds=tr(c.lower_bounds))
            self.table[key] = c2

    def get(self, q, nparams=None):
        if q is None:
            return None
        if nparams is not None and (q + "/%d" % nparams) in self.table:
            return self.table[q + "/%d" % nparams]
        return self.table.get(q)

    def by_simple(self, simple, nparams):
        c = [v for kq, v in self.table.items()
             if kq.split("/")[0].split("::")[-1] == simple and ("/" not in kq or kq.endswith("/%d" % nparams))]
        return c[0] if len(c) == 1 else None

    def items(self):
        return self.table.items()


class Zone(dataflow.Client):
    """one function under one contract table"""

    def __init__(self, model, fn, contracts, fields_written_by=None, assume_entry=None):
        self.model = model
        self.fn = fn
        self.contracts = contracts
        if hasattr(contracts, "bind"):
            contracts.bind(model)
        self.contract = contracts.get(fn.q, len(fn.params)) or Contract()
        self._static_getters = None
        self.assume_entry = assume_entry or []
        self.pnames = {p["d"]: p["n"] for p in fn.params}
        self.pinfo = {p["n"]: p for p in fn.params}
        self.addr_taken = set()
        self.decl_names = dict(self.pnames)
        self.decl_tk = {p["d"]: p["tk"] for p in fn.params}
        for nid in fn.walk():
            n = fn.nodes[nid]
            if n["k"] == "DeclStmt":
                for d in n["decls"]:
                    if "d" in d:
                        self.decl_names[d["d"]] = d["n"]
                        self.decl_tk[d["d"]] = d["tk"]
        self.fields_written_by = fields_written_by
        n2t = self.name_terms()
        self.buffer_terms = set()
        for bname in self.contract.buffers:
            bt = n2t(bname)
            if bt:
                self.buffer_terms.add(bt)
        # literal buffers: buffer term -> length term
        self.literal_bounds = {"x:" + x: "L:" + x for x in self.contract.literals}

    # ---------------------------------------------------------------- terms
    def term_of(self, nid):
        """term name for a trackable lvalue / pure getter, else None"""
        fn = self.fn
        nid = fn.strip_casts(nid)
        if nid is None or nid < 0:
            return None
        n = fn.nodes[nid]
        k = n["k"]
        if k == "DeclRefExpr":
            if n["dk"] in ("var", "param") and not n.get("static"):
                return "v:%s#%d" % (n["n"], n["d"])
            return None
        if k in ("MemberExpr", "CXXDependentScopeMemberExpr"):
            ch = n.get("ch", [])
            if n.get("qual"):
                return None   # Scope::constant, not a field of this
            if n["k"] == "MemberExpr" and n.get("dk") != "field":
                return None
            if not ch or n.get("implicit"):
                return "f:" + n["n"]
            b = fn.strip(ch[0])
            bn = fn.nodes[b]
            if bn["k"] == "CXXThisExpr":
                return "f:" + n["n"]
            bt = self.term_of(b)
            if bt and bt.startswith("v:"):
                return "m:%s|%s.%s" % (bt, fn.text(b), n["n"])
            return None
        if k in ("CallExpr", "CXXMemberCallExpr"):
            if fn.call_args(nid):
                return None
            nm = fn.call_simple_name(nid)
            if nm not in PURE_GETTERS:
                return None
            r = fn.call_receiver(nid)
            if r is None:
                return "g:this|%s()" % nm
            rs = fn.strip(r)
            rn = fn.nodes[rs]
            if rn["k"] == "CXXThisExpr":
                return "g:this|%s()" % nm
            rt = self.term_of(rs)
            if rt and rt.startswith("v:"):
                return "g:%s|%s.%s()" % (rt, fn.text(rs), nm)
            if rt and rt.startswith("f:"):
                return "g:%s|%s.%s()" % (rt, fn.text(rs), nm)
            # *ptr / ptr-> receivers: key by text, depends on the pointer variable
            txt = fn.text(rs)
            return "g:?|%s.%s()" % (txt, nm)
        return None

    @staticmethod
    def pretty_term(t):
        if t == ZERO:
            return "0"
        if t.startswith("v:"):
            return t[2:].split("#")[0]
        if t.startswith("e:"):
            return t[2:].split("#")[0] + "@entry"
        if t.startswith(("m:", "g:")):
            return t.split("|", 1)[1]
        if t.startswith("o:"):
            return "off(" + Zone.pretty_term(t[2:]) + ")"
        if t.startswith("L:"):
            return "len(" + t[2:] + ")"
        return t[2:]

    def is_unsigned_term(self, nid):
        n = self.fn.nodes[self.fn.strip_casts(nid)]
        return n.get("tk") in ("uint", "dep", "bool", "enum")

    # ---------------------------------------------------------------- linear forms
    def lin(self, st, nid, depth=0):
        fn = self.fn
        if nid is None or nid < 0 or depth > 30:
            return None
        nid0 = nid
        nid = fn.strip(nid)
        n = fn.nodes[nid]
        k = n["k"]
        if "cv" in n and k not in ("DeclRefExpr",):
            return Lin({}, n["cv"])
        if k in ("CXXStaticCastExpr", "CXXFunctionalCastExpr", "CStyleCastExpr"):
            sub = n["ch"][0]
            sn = fn.nodes[fn.strip(sub)]
            # narrowing integral casts do not preserve the value
            tw, sw = n.get("tw"), sn.get("tw")
            if tw is not None and sw is not None and tw < sw:
                return None
            if n.get("tk") == "sint" or sn.get("tk") == "sint":
                if not (n.get("tk") == sn.get("tk")):
                    return None
            return self.lin(st, sub, depth + 1)
        if k in ("InitListExpr", "CXXUnresolvedConstructExpr") and len(n.get("ch", [])) == 1 and n.get("tk") != "rec":
            return self.lin(st, n["ch"][0], depth + 1)
        if k == "DependentScopeDeclRefExpr" or (k == "CXXDependentScopeMemberExpr" and n.get("qual")):
            v = self.model.resolve_dep_const(n["text"] if k == "DependentScopeDeclRefExpr" else n["qual"] + n["n"])
            return Lin({}, v) if isinstance(v, int) and v >= 0 else None
        if k in ("DeclRefExpr", "MemberExpr") and n.get("static") and "cv" not in n:
            v = self.model.const_of_var_id(n.get("d"))
            return Lin({}, v) if isinstance(v, int) and v >= 0 else None
        if k == "DeclRefExpr" and "cv" in n and n.get("dk") in ("enumc", "nttp"):
            return Lin({}, n["cv"])
        if k == "DeclRefExpr" and "cv" in n and n.get("static"):
            return Lin({}, n["cv"])
        t = self.term_of(nid)
        if t is not None:
            if n.get("tk") in ("sint", "float", "ptr", "rec"):
                return None
            if "cv" in n and k == "DeclRefExpr":
                return Lin({}, n["cv"])
            return Lin({t: 1}, 0)
        if k == "BinaryOperator":
            op = n["op"]
            a, b = n["ch"]
            if op == "+":
                la, lb = self.lin(st, a, depth + 1), self.lin(st, b, depth + 1)
                if la is None or lb is None:
                    return None
                return la + lb
            if op == "-":
                la, lb = self.lin(st, a, depth + 1), self.lin(st, b, depth + 1)
                if la is None or lb is None:
                    return None
                # unsigned: value is la - lb only if lb <= la
                if st.lin_le0(st.expand(lb - la)):
                    return la - lb
                st.notes.add("wrap?:" + fn.text(nid))
                return None
            if op == "*":
                la, lb = self.lin(st, a, depth + 1), self.lin(st, b, depth + 1)
                if la is not None and lb is not None:
                    if la.is_const():
                        return lb.scale(la.k)
                    if lb.is_const():
                        return la.scale(lb.k)
                return None
            if op == "<<":
                la, lb = self.lin(st, a, depth + 1), self.lin(st, b, depth + 1)
                if la is not None and lb is not None and lb.is_const() and 0 <= lb.k < 31:
                    return la.scale(1 << lb.k)
                return None
            return None
        if k == "UnaryOperator":
            op = n["op"]
            if op == "++" and not n.get("postfix"):
                return self.lin(st, n["ch"][0], depth + 1)
            if op == "--" and not n.get("postfix"):
                return self.lin(st, n["ch"][0], depth + 1)
            if op == "++" and n.get("postfix"):
                l = self.lin(st, n["ch"][0], depth + 1)
                return l.shift(-1) if l is not None else None
            return None
        return None

    # ---------------------------------------------------------------- conditions
    def cond_cons(self, st, nid, truth, depth=0):
        """list of linear forms L meaning L <= 0, plus list of ('ne', Lin) atoms; None if not understood"""
        fn = self.fn
        nid = fn.strip(nid)
        n = fn.nodes[nid]
        k = n["k"]
        if k == "UnaryOperator" and n["op"] == "!":
            return self.cond_cons(st, n["ch"][0], not truth, depth + 1)
        if k == "BinaryOperator" and n["op"] in ("==", "!="):
            # *p == 0 / *p != 0 on a pointer into a NUL-terminated literal of the contract
            a, b = n["ch"]
            for x, y in ((a, b), (b, a)):
                xn = fn.nodes[fn.strip(x)]
                if xn["k"] == "UnaryOperator" and xn["op"] == "*" and fn.const_value(y) == 0:
                    pf = self.ptr_form(st, xn["ch"][0])
                    if pf is not None and pf[0] in self.literal_bounds:
                        d = st.expand(pf[1]) - Lin({self.literal_bounds[pf[0]]: 1})
                        eq = (n["op"] == "==") == truth
                        return [d, Lin({}) - d] if eq else [("ne", d)]
        if k == "BinaryOperator" and n["op"] in ("==", "!="):
            # flagged integer term compared with a constant: nonzero-ness re-activates its implications
            a, b = n["ch"]
            extra = []
            for x, y in ((a, b), (b, a)):
                xs = fn.strip(x)
                xn = fn.nodes[xs]
                if xn["k"] == "BinaryOperator" and xn["op"] == "=":
                    xs = fn.strip(xn["ch"][0])
                tx = self.term_of(xs)
                cy = fn.const_value(y)
                if cy is None:
                    ly = self.lin(st, y)
                    cy = ly.k if ly is not None and ly.is_const() else None
                if tx is not None and tx in st.flags and cy is not None:
                    eq = (n["op"] == "==") == truth
                    nonzero = (eq and cy != 0) or ((not eq) and cy == 0)
                    zero = eq and cy == 0
                    ct, cf, _ = st.flags[tx]
                    cons = ct if nonzero else (cf if zero else ())
                    extra = [Lin({p: 1, q: -1} if p != ZERO and q != ZERO else ({p: 1} if q == ZERO else {q: -1}), -c)
                             for (p, q, c) in cons]
            if extra:
                base = self._cmp_cons(st, n, truth)
                return (base or []) + extra
        if k == "BinaryOperator" and n["op"] in ("<", "<=", ">", ">=", "==", "!="):
            return self._cmp_cons(st, n, truth)
        if k == "DeclRefExpr" or k == "MemberExpr":
            t = self.term_of(nid)
            if t in st.flags:
                ct, cf, _ = st.flags[t]
                return [Lin({a: 1, b: -1} if a != ZERO and b != ZERO else ({a: 1} if b == ZERO else {b: -1}), -c)
                        for (a, b, c) in (ct if truth else cf)]
            if t is not None and n.get("tk") in ("uint", "bool"):
                # if (x) : x != 0
                if truth:
                    return [Lin({t: -1}, 1)]
                return [Lin({t: 1}, 0)]
        return None

    def _cmp_cons(self, st, n, truth):
        fn = self.fn
        if True:
            op = n["op"]
            a, b = n["ch"]
            if not (self.is_unsigned_term(a) and self.is_unsigned_term(b)):
                # signed comparisons carry no unsigned facts
                ta = fn.nodes[fn.strip_casts(a)].get("tk")
                tb = fn.nodes[fn.strip_casts(b)].get("tk")
                if "sint" in (ta, tb) and not ("cv" in fn.nodes[fn.strip_casts(a)] or "cv" in fn.nodes[fn.strip_casts(b)]):
                    return None
            la, lb = self.lin(st, a), self.lin(st, b)
            if (la is None or lb is None) and fn.nodes[fn.strip_casts(a)].get("tk") == "ptr" and fn.nodes[fn.strip_casts(b)].get("tk") == "ptr":
                # two pointers into the same buffer compare like their offsets
                pa, pb = self.ptr_form(st, a), self.ptr_form(st, b)
                if pa is not None and pb is not None and pa[0] == pb[0]:
                    la, lb = pa[1], pb[1]
            if la is None or lb is None:
                return None
            if not truth:
                op = {"<": ">=", "<=": ">", ">": "<=", ">=": "<", "==": "!=", "!=": "=="}[op]
            d = la - lb
            if op == "<":
                return [d.shift(1)]
            if op == "<=":
                return [d]
            if op == ">":
                return [(lb - la).shift(1)]
            if op == ">=":
                return [lb - la]
            if op == "==":
                return [d, lb - la]
            if op == "!=":
                return [("ne", d)]
        return None

    def apply_cons(self, st, cons):
        if cons is None:
            return
        for c in cons:
            if isinstance(c, tuple) and c[0] == "ne":
                for d in (c[1], st.expand(c[1])):
                    # a != b with a <= b known  =>  a < b
                    if st.lin_le0(d):
                        st.add_lin_le0(d.shift(1))
                    elif st.lin_le0(Lin({}, 0) - d):
                        st.add_lin_le0((Lin({}, 0) - d).shift(1))
                continue
            st.add_lin_le0(c)
            e = st.expand(c)
            if e.key() != c.key():
                st.add_lin_le0(e)

    # ---------------------------------------------------------------- client interface
    def initial(self, fn):
        st = State()
        for p in fn.params:
            if trackable_decl(p["tk"], p["t"]) and p["tk"] not in ("ptr", "bool"):
                v = "v:%s#%d" % (p["n"], p["d"])
                e = "e:%s#%d" % (p["n"], p["d"])
                st.add(v, e, 0)
                st.add(e, v, 0)
        for L in self.literal_bounds.values():
            st.add(ZERO, L, -1)   # the literal is not empty (checked by the table rules)
        name2term = self.name_terms()
        for (a, b, c) in list(self.contract.requires) + list(self.assume_entry) + list(self.contract.invariants):
            ta, tb = name2term(a), name2term(b)
            if ta and tb:
                st.add(ta, tb, c)
        self.apply_axioms(st)
        return st

    def apply_axioms(self, st):
        if self.contract.invariants:
            # class invariants hold again after every call of another method of the object
            n2t = self.name_terms()
            for (a, b, c) in self.contract.invariants:
                ta, tb = n2t(a), n2t(b)
                if ta and tb and not st.le(ta, tb, c):
                    st.add(ta, tb, c)
        if not self.contract.axioms:
            return
        name2term = self.name_terms()
        for ax in self.contract.axioms:
            a, b, c = ax[0], ax[1], ax[2]
            ta, tb = name2term(a), name2term(b)
            if ta and tb and not st.le(ta, tb, c):
                st.add(ta, tb, c)

    def name_terms(self):
        fn = self.fn

        def f(name):
            if name == "0":
                return ZERO
            entry = False
            if name.endswith("@entry"):
                entry = True
                name = name[:-6]
            if name in self.pinfo:
                p = self.pinfo[name]
                return ("e:%s#%d" if entry else "v:%s#%d") % (p["n"], p["d"])
            if name.startswith(("f:", "g:", "m:", "L:", "x:")):
                return name
            if "." in name and name.endswith("()"):
                base = name.split(".")[0]
                bt = f(base)
                if bt:
                    return "g:%s|%s" % (bt, name)
                return None
            for d, nm in self.decl_names.items():
                if nm == name:
                    return "v:%s#%d" % (nm, d)
            return None
        return f

    def copy(self, st):
        return st.copy()

    def join(self, a, b):
        return join(a, b)

    def widen(self, a, b):
        return widen(a, b)

    def equal(self, a, b):
        return equal(a, b)

    def refine(self, fn, st, cond, truth, block):
        if st.bottom:
            return False
        cons = self.cond_cons(st, cond, truth)
        self.apply_cons(st, cons)
        return not st.bottom

    def refine_switch(self, fn, st, cond, label, others, block):
        return not st.bottom

    # ---- effects
    def havoc(self, st, t, keep_lower=False, keep_le=None, keep_upper=False):
        """t takes an unknown value; keep_lower: the new value is >= the old one;
        keep_le: bound terms B for which (old <= B) implies (new <= B)"""
        lowers = []
        uppers = []
        if keep_lower:
            for (a, b), c in st.dbm.items():
                if b == t and a != t:
                    lowers.append((a, c))   # a - t <= c   stays valid when t grows
        for B in (keep_le or []):
            if st.le(t, B, 0):
                uppers.append(B)
        ups = []
        if keep_upper:
            ups = [(b, c) for (a, b), c in st.dbm.items() if a == t and b != t]
        st.kill(t)
        for b, c in ups:
            st.add(t, b, c)
        for a, c in lowers:
            st.add(a, t, c)
        for B in uppers:
            st.add(t, B, 0)

    def assign(self, st, t, rhs_nid, tk=None):
        fn = self.fn
        if tk == "ptr" or (rhs_nid is not None and rhs_nid >= 0 and fn.nodes[fn.strip(rhs_nid)].get("tk") == "ptr"):
            if t in self.buffer_terms:
                # a local pointer the contract declares as a buffer of its own: keep it a root
                st.kill(t)
                return
            pd = self.ptr_form(st, rhs_nid) if rhs_nid is not None and rhs_nid >= 0 else None
            ot = "o:" + t
            if pd is not None and pd[0] != t and ot in pd[1].co:
                # p = p + k
                s1 = pd[1].single()
                if s1 is not None and s1[0] == ot and st.ptrs.get(t, (None,))[0] == pd[0] and \
                        (s1[1] >= 0 or st.le(ZERO, ot, s1[1])):
                    st.shift(ot, s1[1])
                    return
                st.kill(t)
                return
            st.kill(t)
            if pd is not None and pd[0] != t and t not in pd[1].co:
                l = st.expand(pd[1])
                d = Lin({ot: 1}) - l
                ok1 = st.add_lin_le0(d)
                ok2 = st.add_lin_le0(Lin({}) - d)
                if not (ok1 and ok2):
                    st.defs[ot] = l
                st.ptrs[t] = (pd[0], Lin({ot: 1}))
            return
        if tk == "bool" or (rhs_nid is not None and rhs_nid >= 0 and fn.nodes[fn.strip(rhs_nid)].get("tk") == "bool"):
            ct = self.cond_cons(st, rhs_nid, True) if rhs_nid is not None and rhs_nid >= 0 else None
            cf = self.cond_cons(st, rhs_nid, False) if rhs_nid is not None and rhs_nid >= 0 else None
            st.kill(t)
            cv = fn.const_value(rhs_nid) if rhs_nid is not None and rhs_nid >= 0 else None
            if cv is not None:
                st.add(t, ZERO, cv)
                st.add(ZERO, t, -cv)
                return

            def simple(cons):
                out = []
                for c in cons or []:
                    if isinstance(c, tuple):
                        continue
                    co = c.co
                    pos = [x for x, m in co.items() if m == 1]
                    neg = [x for x, m in co.items() if m == -1]
                    if len(pos) + len(neg) != len(co) or len(pos) > 1 or len(neg) > 1:
                        continue
                    out.append((pos[0] if pos else ZERO, neg[0] if neg else ZERO, -c.k))
                return out
            sct, scf = simple(ct), simple(cf)
            deps = frozenset(x for (a, b, _) in sct + scf for x in (a, b) if x != ZERO)
            if (sct or scf) and t not in deps:
                st.flags[t] = (tuple(sct), tuple(scf), deps)
            return
        l = None
        if rhs_nid is not None and rhs_nid >= 0:
            src = self.term_of(rhs_nid)
            if src is not None and src in st.flags and src != t:
                fl = st.flags[src]
                self._assign_plain(st, t, rhs_nid)
                if t not in fl[2]:
                    st.flags[t] = fl
                return
            rn = fn.nodes[fn.strip(rhs_nid)]
            if rn["k"] in ("CallExpr", "CXXMemberCallExpr"):
                nm, _ = fn.callee_name(fn.strip(rhs_nid))
                args = fn.call_args(fn.strip(rhs_nid))
                cc = self.contracts.get(nm, len(args)) if nm else None
                if cc is None and nm and "fq" not in rn:
                    cc = self.contracts.by_simple(nm.split("::")[-1], len(args))
                if cc is not None and cc.ret:
                    params = self.lookup_callee_params(fn.strip(rhs_nid))
                    pn = [p_.get("n") for p_ in params] if params else []
                    facts = []
                    for r in cc.ret:
                        if r[0] == "le" and r[1] in pn and pn.index(r[1]) < len(args):
                            la = self.lin(st, args[pn.index(r[1])])
                            if la is not None:
                                facts.append(st.expand(la))
                    st.kill(t)
                    for la in facts:
                        if t not in la.co:
                            st.add_lin_le0(Lin({t: 1}) - la)
                            if len([x for x in la.co if x != ZERO]) > 1:
                                st.ubs[t] = la       # result <= a - b: kept beside the two-variable facts
                    return
            if rn["k"] == "ConditionalOperator":
                c, a, b = rn["ch"]
                s1, s2 = st.copy(), st.copy()
                self.apply_cons(s1, self.cond_cons(s1, c, True))
                self.apply_cons(s2, self.cond_cons(s2, c, False))
                self.assign(s1, t, a, tk)
                self.assign(s2, t, b, tk)
                j = join(s1, s2)
                st.dbm, st.defs, st.ptrs, st.flags, st.bottom = j.dbm, j.defs, j.ptrs, j.flags, j.bottom
                return
            l = self.lin(st, rhs_nid)
        if l is None:
            st.kill(t)
            return
        if t in l.co:
            s = l.single()
            if s is not None and s[0] == t:
                if s[1] >= 0 or st.le(ZERO, t, -(-s[1])):
                    st.shift(t, s[1])
                    return
            st.kill(t)
            return
        le = st.expand(l)
        st.kill(t)
        if t in le.co:
            return
        # t == l
        d = Lin({t: 1}) - l
        ok1 = st.add_lin_le0(d)
        ok2 = st.add_lin_le0(Lin({}) - d)
        if not (ok1 and ok2):
            d2 = Lin({t: 1}) - le
            ok1 = st.add_lin_le0(d2)
            ok2 = st.add_lin_le0(Lin({}) - d2)
            if not (ok1 and ok2):
                st.defs[t] = le
                # t == x + y + k with unsigned terms: t >= each term + k
                if all(cf == 1 for cf in le.co.values()) and le.k >= 0:
                    for x in le.co:
                        st.add(x, t, -le.k)

    def _assign_plain(self, st, t, rhs_nid):
        l = self.lin(st, rhs_nid)
        st.kill(t)
        if l is not None and t not in l.co:
            d = Lin({t: 1}) - l
            st.add_lin_le0(d)
            st.add_lin_le0(Lin({}) - d)

    def term_of_getter(self, recv_nid, getter):
        """term of  <receiver>.<getter>()  as term_of would name it for a call node"""
        fn = self.fn
        rs = fn.strip(recv_nid)
        rt = self.term_of(rs)
        if rt and (rt.startswith("v:") or rt.startswith("f:")):
            return "g:%s|%s.%s()" % (rt, fn.text(rs), getter)
        return None

    def ptr_form(self, st, nid, depth=0):
        """(buffer term, Lin offset) if expression is buffer + linear"""
        fn = self.fn
        nid = fn.strip_casts(nid)
        if nid is None or nid < 0 or depth > 10:
            return None
        n = fn.nodes[nid]
        if n.get("tk") not in ("ptr", "dep", "arr"):
            return None
        if n["k"] == "BinaryOperator" and n["op"] in ("+", "-"):
            a, b = n["ch"]
            pa = self.ptr_form(st, a, depth + 1)
            if pa is None:
                return None
            lb = self.lin(st, b)
            if lb is None:
                return None
            if n["op"] == "-":
                return None
            return pa[0], pa[1] + lb
        if n["k"] == "UnaryOperator" and n["op"] == "&":
            sub = fn.strip(n["ch"][0])
            sn = fn.nodes[sub]
            if sn["k"] == "ArraySubscriptExpr":
                pa = self.ptr_form(st, sn["ch"][0], depth + 1)
                li = self.lin(st, sn["ch"][1])
                if pa and li is not None:
                    return pa[0], pa[1] + li
            return None
        t = self.term_of(nid)
        if t is None:
            if n["k"] in ("CallExpr", "CXXMemberCallExpr") and not fn.call_args(nid):
                # storage accessors of the library's containers: First() == Storage(), Last() == Storage() + Length() - 1,
                # End() == Storage() + Length()/Size()
                nm = fn.call_simple_name(nid)
                rc = fn.call_receiver(nid)
                if rc is not None and nm in ("First", "Last", "End") and self.contract.accessor_model:
                    base = fn.text(fn.strip(rc))
                    lt = self.term_of_getter(rc, self.contract.accessor_model)
                    if nm == "First":
                        return ("x:%s.Storage()" % base, Lin())
                    if lt is not None:
                        return ("x:%s.Storage()" % base, Lin({lt: 1}, -1 if nm == "Last" else 0))
                return ("x:" + fn.text(nid), Lin())
            if n["k"] == "DependentScopeDeclRefExpr" or (n["k"] in ("DeclRefExpr", "MemberExpr") and n.get("static")) or \
                    (n["k"] == "CXXDependentScopeMemberExpr" and n.get("qual")):
                return ("x:" + fn.text(nid), Lin())
            return None
        if t in st.ptrs:
            return st.ptrs[t]
        return t, Lin()

    def lookup_callee_params(self, nid):
        """list of param dicts for the callee when it can be resolved, else None"""
        fn = self.fn
        n = fn.nodes[nid]
        nm, resolved = fn.callee_name(nid)
        if nm is None:
            return None
        nargs = len(fn.call_args(nid))
        cands = []
        if "fd" in n and n["fd"] in self.model.by_id:
            return self.model.by_id[n["fd"]].params
        if "fpat" in n and n["fpat"] in self.model.by_id:
            return self.model.by_id[n["fpat"]].params
        if resolved:
            cands = [f for f in self.model.fns(nm, required=False) if len(f.params) == nargs]
        if not cands:
            simple = nm.split("::")[-1]
            cands = [f for f in self.model.functions if f.name == simple and len(f.params) == nargs]
        if not cands:
            return None
        # merge: a parameter is "mutable ref" if any candidate says so
        out = []
        for i in range(nargs):
            mut = any((c.params[i]["ref"] or c.params[i]["ptr"]) and not c.params[i].get("pconst", False) for c in cands)
            out.append({"ref": mut, "pconst": not mut, "n": cands[0].params[i]["n"], "ptr": False, "_merged": True})
        return out

    def transfer(self, fn, st, e, block):
        if st.bottom:
            return
        if "n" not in e or e.get("k") in ("autodtor", "tmpdtor", "memberdtor", "basedtor", "deletedtor"):
            return
        nid = e["n"]
        if nid < 0:
            return
        n = fn.nodes[nid]
        k = n["k"]
        if e.get("k") == "init":
            return
        if k == "DeclStmt":
            for d in n["decls"]:
                if "d" not in d:
                    continue
                t = "v:%s#%d" % (d["n"], d["d"])
                if d.get("ref"):
                    st.kill(t)
                    continue
                init = d.get("init", -1)
                if trackable_decl(d["tk"], d["t"]):
                    self.assign(st, t, init if init >= 0 else None, d["tk"] if d["tk"] in ("ptr", "bool") else None)
            return
        if k == "BinaryOperator" and n["op"] == "=":
            lhs, rhs = n["ch"]
            t = self.term_of(lhs)
            if t is not None:
                self.assign(st, t, rhs, fn.nodes[fn.strip(lhs)].get("tk") if fn.nodes[fn.strip(lhs)].get("tk") in ("ptr", "bool") else None)
            return
        if k == "CompoundAssignOperator":
            lhs, rhs = n["ch"]
            t = self.term_of(lhs)
            if t is None:
                return
            if fn.nodes[fn.strip(lhs)].get("tk") == "ptr" or t in st.ptrs:
                lr = self.lin(st, rhs)
                ot = "o:" + t
                if t in st.ptrs and lr is not None and lr.is_const() and n["op"] == "+=" and lr.k >= 0:
                    st.shift(ot, lr.k)
                elif t in st.ptrs and lr is not None and lr.is_const() and n["op"] == "-=" and lr.k >= 0 and st.le(ZERO, ot, -lr.k):
                    st.shift(ot, -lr.k)
                else:
                    st.kill(t)
                return
            lr = self.lin(st, rhs)
            if n["op"] == "+=" and lr is not None and lr.is_const() and lr.k >= 0:
                st.shift(t, lr.k)
            elif n["op"] == "-=" and lr is not None and lr.is_const() and lr.k >= 0 and st.le(ZERO, t, -lr.k):
                st.shift(t, -lr.k)
            elif n["op"] == "+=" and lr is not None and t not in lr.co:
                # t := t + lr, lr >= 0 (unsigned): t grows by lr
                le = st.expand(lr)
                old_upper = None
                self.havoc(st, t, keep_lower=True)
                # t_new - lr == t_old ; keep facts  t_old <= B - lr  when lr is "B - a" style: handled via defs
                s = le.single()
                if s is not None:
                    # t_new >= lr + (lower bound of t_old = 0)
                    st.add(s[0], t, -s[1])
            elif n["op"] == "-=" and lr is not None:
                if st.lin_le0(st.expand(lr) - Lin({t: 1})):
                    # t shrinks but stays >= 0: upper bounds survive
                    ups = [(b, c) for (a, b), c in st.dbm.items() if a == t and b != t]
                    st.kill(t)
                    for b, c in ups:
                        st.add(t, b, c)
                else:
                    st.notes.add("wrap?:" + fn.text(nid))
                    st.kill(t)
            else:
                st.kill(t)
            return
        if k == "UnaryOperator" and n["op"] in ("++", "--"):
            t = self.term_of(n["ch"][0])
            if t is None:
                return
            if t in st.ptrs:
                ot = "o:" + t
                if n["op"] == "++":
                    st.shift(ot, 1)
                elif st.le(ZERO, ot, -1):
                    st.shift(ot, -1)
                else:
                    st.kill(t)
                return
            if fn.nodes[fn.strip(n["ch"][0])].get("tk") == "ptr":
                st.kill(t)
                return
            if n["op"] == "++":
                st.shift(t, 1)
            else:
                if st.le(ZERO, t, -1):
                    st.shift(t, -1)
                else:
                    st.notes.add("wrap?:" + fn.text(nid))
                    st.kill(t)
            return
        if k in ("CallExpr", "CXXMemberCallExpr", "CXXOperatorCallExpr", "CXXConstructExpr",
                 "CXXTemporaryObjectExpr", "CXXUnresolvedConstructExpr"):
            self.call_effects(st, nid)
            self.apply_axioms(st)
            return

    def object_effect(self, st, rn, method, args):
        spec = self.contract.objects[rn["n"]][method]
        base = "v:%s#%d" % (rn["n"], rn["d"])
        name2term = self.name_terms()

        def g(getter):
            return "g:%s|%s.%s" % (base, rn["n"], getter)
        if "set" in spec:
            getter, ai = spec["set"]
            la = self.lin(st, args[ai]) if ai < len(args) else None
            st.kill(g(getter))
            if la is not None and g(getter) not in la.co:
                d = Lin({g(getter): 1}) - la
                st.add_lin_le0(d)
                st.add_lin_le0(Lin({}) - d)
            return
        les = []
        for (getter, bound) in spec.get("le", []):
            bt = name2term(bound)
            if bt and st.le(g(getter), bt, 0):
                les.append((g(getter), bt))
        for getter in spec.get("havoc", []):
            t = g(getter)
            self.havoc(st, t, keep_lower=getter in spec.get("inc", []))
        for (t, bt) in les:
            st.add(t, bt, 0)
        for (fg, getter, bound) in spec.get("implies", []):
            bt = name2term(bound)
            if bt:
                st.flags[g(fg)] = (((g(getter), bt, 0),), (), frozenset([g(getter), bt]))

    def is_static_getter(self, term):
        """g:this|Name(): Name is a static member function without parameters of the analysed class -- a compile-time quantity
        (MaxIndex(), TypeWidth()) that no call can change"""
        if self._static_getters is None:
            self._static_getters = set(g.name for g in self.model.functions if g.cls == self.fn.cls and g.is_static and not g.params) if self.fn.cls else set()
        nm = term[len("g:this|"):]
        return nm.endswith("()") and nm[:-2] in self._static_getters

    def call_effects(self, st, nid):
        fn = self.fn
        n = fn.nodes[nid]
        args = fn.call_args(nid)
        nm, _ = fn.callee_name(nid)
        simple = nm.split("::")[-1] if nm else None
        params = self.lookup_callee_params(nid) if n["k"] not in ("CXXUnresolvedConstructExpr",) else None
        contract = None
        if nm:
            contract = self.contracts.get(nm, len(args))
            if contract is None and simple and "fq" not in n:
                # resolve by simple name when unique among contracts
                contract = self.contracts.by_simple(simple, len(args))
        pnames = [p.get("n") for p in params] if params else None
        # by-reference outputs
        for i, a in enumerate(args):
            t = self.term_of(a)
            an = fn.nodes[fn.strip(a)]
            if an["k"] == "UnaryOperator" and an["op"] == "&":
                t = self.term_of(an["ch"][0])
                if t is not None:
                    st.kill(t)
                continue
            if t is None:
                continue
            mutable = True
            if params is not None and i < len(params):
                p = params[i]
                mutable = bool(p.get("ref")) and not p.get("pconst", False)
                if not p.get("ref") and not p.get("ptr"):
                    mutable = False
            if an.get("tk") == "ptr" and not (params is not None and i < len(params) and params[i].get("ref") and not params[i].get("pconst")):
                mutable = False
            if not mutable:
                continue
            ens = None
            if contract is not None and pnames and i < len(pnames):
                ens = contract.ensures.get(pnames[i])
            if ens:
                keep_lower = any(x[0] == "inc" for x in ens)
                keep_upper = any(x[0] == "dec" for x in ens)
                bounds = []
                for x in ens:
                    if x[0] == "le":
                        # bound is another parameter of the callee: map to the actual argument
                        if x[1] in pnames:
                            j = pnames.index(x[1])
                            if j < len(args):
                                lb = self.lin(st, args[j])
                                if lb is not None:
                                    s = st.expand(lb).single()
                                    if s is not None and s[1] == 0:
                                        bounds.append(s[0])
                self.havoc(st, t, keep_lower=keep_lower, keep_le=bounds, keep_upper=keep_upper)
            else:
                st.kill(t)
        # receiver effects
        if n["k"] in ("CallExpr", "CXXMemberCallExpr", "CXXOperatorCallExpr"):
            r = fn.call_receiver(nid)
            is_const = n.get("fconst")
            if n.get("fstatic"):
                return
            if r is None:
                ch = n.get("ch", [])
                c0 = fn.nodes[fn.strip(ch[0])] if ch else None
                implicit_this = c0 is not None and c0["k"] in ("MemberExpr", "CXXDependentScopeMemberExpr", "UnresolvedMemberExpr") \
                    and not c0.get("qual")
                if implicit_this and not is_const:
                    if simple in PURE_GETTERS:
                        return
                    written = None
                    if self.fields_written_by is not None and nm:
                        written = self.fields_written_by(nm, len(args))
                    if written is not None:
                        st.kill_prefix(lambda t: (t.startswith("f:") and t[2:] in written) or (t.startswith("g:this|") and not self.is_static_getter(t)))
                    else:
                        st.kill_prefix(lambda t: t.startswith("f:") or (t.startswith("g:this|") and not self.is_static_getter(t)))
                return
            rs = fn.strip(r)
            rn = fn.nodes[rs]
            if rn["k"] == "DeclRefExpr" and rn["n"] in self.contract.objects and \
                    simple in self.contract.objects[rn["n"]]:
                self.object_effect(st, rn, simple, args)
                return
            if is_const or simple in PURE_GETTERS or simple in ("IsEmpty", "IsNotEmpty", "First", "Storage", "Last", "End"):
                return
            if rn["k"] == "CXXThisExpr":
                st.kill_prefix(lambda t: t.startswith("f:") or (t.startswith("g:this|") and not self.is_static_getter(t)))
                return
            rt = self.term_of(rs)
            txt = fn.text(rs)
            if rt is not None:
                st.kill_prefix(lambda t: (t.startswith(("g:", "m:")) and t.split("|")[0][2:] == rt))
            st.kill_prefix(lambda t: t.startswith("g:?|") and t.split("|", 1)[1].startswith(txt + "."))
