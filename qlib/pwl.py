"""Piecewise-linear abstract evaluation of an integer expression over ONE bounded input.

value(x) for x in [lo,hi] is described as a list of pieces (a, b, coef, const): on [a,b] the
expression equals coef*x + const.  Supported: the variable, constants, + - (and * by constant),
casts, `cond ? e1 : e2` and comparisons of the variable with constants as conditions.
Anything else raises Unrecognised (reported as analysis-broken, never as a verdict)."""
from .bitsym import Unrecognised


def pieces(fn, nid, var_d, lo, hi, consts=None):
    nid = fn.strip(nid)
    n = fn.nodes[nid]
    k = n["k"]
    if "cv" in n and k != "DeclRefExpr":
        return [(lo, hi, 0, n["cv"])]
    if k == "DeclRefExpr":
        if n.get("d") == var_d:
            return [(lo, hi, 1, 0)]
        if consts and n.get("d") in consts:
            return [(lo, hi, 0, consts[n["d"]])]
        if "cv" in n:
            return [(lo, hi, 0, n["cv"])]
        raise Unrecognised("reference to %s" % n.get("n"))
    if k in ("CXXFunctionalCastExpr", "CXXStaticCastExpr", "CStyleCastExpr", "CXXUnresolvedConstructExpr", "InitListExpr") and len(n.get("ch", [])) == 1:
        return pieces(fn, n["ch"][0], var_d, lo, hi, consts)
    if k == "BinaryOperator" and n["op"] in ("+", "-", "*"):
        A = pieces(fn, n["ch"][0], var_d, lo, hi, consts)
        B = pieces(fn, n["ch"][1], var_d, lo, hi, consts)
        out = []
        cuts = sorted(set([p[0] for p in A + B] + [p[1] + 1 for p in A + B]))
        for i in range(len(cuts) - 1):
            a, b = cuts[i], cuts[i + 1] - 1
            pa = [p for p in A if p[0] <= a and b <= p[1]][0]
            pb = [p for p in B if p[0] <= a and b <= p[1]][0]
            if n["op"] == "+":
                out.append((a, b, pa[2] + pb[2], pa[3] + pb[3]))
            elif n["op"] == "-":
                out.append((a, b, pa[2] - pb[2], pa[3] - pb[3]))
            else:
                if pa[2] == 0:
                    out.append((a, b, pb[2] * pa[3], pb[3] * pa[3]))
                elif pb[2] == 0:
                    out.append((a, b, pa[2] * pb[3], pa[3] * pb[3]))
                else:
                    raise Unrecognised("product of two non-constants")
        return out
    if k == "ConditionalOperator":
        c, e1, e2 = n["ch"]
        cn = fn.nodes[fn.strip(c)]
        if cn["k"] != "BinaryOperator" or cn["op"] not in ("<", "<=", ">", ">=", "==", "!="):
            raise Unrecognised("condition %s" % fn.text(c))
        v = fn.nodes[fn.strip_casts(cn["ch"][0])]
        cv = fn.const_value(cn["ch"][1])
        op = cn["op"]
        if not (v["k"] == "DeclRefExpr" and v.get("d") == var_d and cv is not None):
            raise Unrecognised("condition %s" % fn.text(c))
        if op in ("<", "<="):
            t = cv - 1 if op == "<" else cv
            true_iv, false_iv = (lo, min(hi, t)), (max(lo, t + 1), hi)
        elif op in (">", ">="):
            t = cv + 1 if op == ">" else cv
            true_iv, false_iv = (max(lo, t), hi), (lo, min(hi, t - 1))
        else:
            raise Unrecognised("equality condition")
        out = []
        if true_iv[0] <= true_iv[1]:
            out += pieces(fn, e1, var_d, true_iv[0], true_iv[1], consts)
        if false_iv[0] <= false_iv[1]:
            out += pieces(fn, e2, var_d, false_iv[0], false_iv[1], consts)
        return sorted(out)
    raise Unrecognised("expression %s" % fn.text(nid))


def normalise(ps):
    """merge adjacent pieces with the same (coef, const)"""
    out = []
    for p in sorted(ps):
        if out and out[-1][2:] == p[2:] and out[-1][1] + 1 == p[0]:
            out[-1] = (out[-1][0], p[1], p[2], p[3])
        else:
            out.append(p)
    return out
