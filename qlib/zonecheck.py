"""Obligations decided with E-ZONE: in-bounds reads (ZB-read), (pointer,length) call
arguments (ZB-call), entry requirements of callees (ZB-req), ensures of by-ref cursors (ZB-ens)."""
from . import dataflow
from .zone import Zone, Lin, ZERO, Contract


class Ob:
    """one obligation instance"""

    def __init__(self, rule, fn, nid, construct, ok, why="", detail=None, status=None):
        self.rule = rule
        self.fn = fn
        self.nid = nid
        self.construct = construct
        self.ok = ok
        self.why = why
        self.detail = detail or {}
        self.status = status or ("discharged" if ok else "open")

    @property
    def loc(self):
        return self.fn.loc(self.nid) if self.nid is not None and self.nid >= 0 else "%s:%d" % (self.fn.file, self.fn.line)

    def key(self):
        return (self.rule, self.fn.q, self.construct)


def plin(l):
    """linear form with declaration ids stripped"""
    if l is None:
        return "?"
    parts = []
    for t, c in sorted(l.co.items()):
        parts.append(("" if c == 1 else "-" if c == -1 else "%d*" % c) + Zone.pretty_term(t))
    if l.k or not parts:
        parts.append(str(l.k))
    return " + ".join(parts)


def fmt_state(st, terms):
    out = []
    for (a, b), c in sorted(st.dbm.items()):
        if a in terms or b in terms:
            pa, pb = Zone.pretty_term(a), Zone.pretty_term(b)
            if b == ZERO:
                out.append("%s <= %d" % (pa, c))
            elif a == ZERO:
                out.append("%s >= %d" % (pb, -c))
            else:
                out.append("%s - %s <= %d" % (pa, pb, c))
    return out


def analyse(model, fn, contracts, fields_written_by=None, assume_entry=None, classify_all=True):
    """returns (list of Ob, stats)"""
    z = Zone(model, fn, contracts, fields_written_by=fields_written_by, assume_entry=assume_entry)
    states = dataflow.run(fn, z)
    obs = []
    contract = z.contract
    name2term = z.name_terms()
    buf_bounds = {}
    for bname, bound in contract.buffers.items():
        bt = name2term(bname) if not bname.startswith(("f:", "x:")) else bname
        if bt is None:
            from .model import AnalysisBroken
            raise AnalysisBroken("contract of %s names buffer %s which is not a parameter/local" % (fn.q, bname))
        buf_bounds[bt] = bound
    for b_, L_ in z.literal_bounds.items():
        buf_bounds[b_] = L_
    seen = set()
    stats = {"blocks": len(states), "subscripts": 0, "calls": 0, "unclassified": []}

    def bound_lin(st, bound):
        """linear form of a contract bound expression: 'name', 'name@entry', 'name+1', 'f:length_'"""
        k = 0
        if "+" in bound:
            bound, ks = bound.split("+")
            k = int(ks)
        if bound.startswith("L:"):
            return Lin({bound: 1}, k)
        t = name2term(bound.strip())
        if t is None:
            return None
        return Lin({t: 1}, k)

    def check_access(b, st, nid, base_nid, idx_lin, what):
        pf = z.ptr_form(st, base_nid)
        if pf is None:
            return None
        buf, off = pf
        if buf not in buf_bounds:
            if Zone.pretty_term(buf) in contract.foreign or buf[2:] in contract.foreign:
                return ("foreign", buf)
            # an array variable of constant extent (a local / static lookup table) carries its own bound
            import re as _re
            bt_ = (fn.nodes[fn.strip_casts(base_nid)].get("t") or "")
            mm_ = _re.search(r"\[(\d+)\]$", bt_.strip())
            if mm_ and fn.nodes[fn.strip_casts(base_nid)]["k"] == "DeclRefExpr":
                B = Lin({}, int(mm_.group(1)))
                total = (off + idx_lin) if idx_lin is not None else None
                if total is None:
                    return (False, "index into the %s-element table is not a linear form of tracked terms" % mm_.group(1), buf, B)
                ok = st.lin_le0((total - B).shift(1)) and st.lin_le0(Lin({}, 0) - total)
                return (ok, "need 0 <= %s < %s (extent of the table)" % (plin(total), mm_.group(1)), buf, B, False)
            return ("unclassified", buf)
        B = bound_lin(st, buf_bounds[buf])
        if B is None:
            return ("unclassified", buf)
        total = (off + idx_lin) if idx_lin is not None else None
        onepast = buf in {name2term(x) or x for x in contract.onepast} or buf in z.literal_bounds
        if total is None:
            return (False, "index is not a linear form of tracked terms", buf, B)
        need = total - B if onepast else (total - B).shift(1)
        ok = st.lin_le0(need)
        # definitely outside: the state proves index >= bound (resp. > bound) on this path
        past = (not ok) and st.lin_le0((B - total).shift(1) if onepast else (B - total))
        lbn = contract.lower_bounds.get(buf) or contract.lower_bounds.get(Zone.pretty_term(buf))
        if lbn:
            LB = bound_lin(st, lbn)
            if LB is not None and st.lin_le0((total - LB).shift(1)):
                # index <= lower - 1: definitely in front of the part this function owns
                return (False, "index %s is proven < %s on this path" % (plin(total), lbn), buf, B, "below")
        return (ok, "need %s %s %s" % (plin(total), "<=" if onepast else "<", plin(B)) + (" -- and the path proves the opposite" if past else ""), buf, B, past)

    def visit(b, i, e, st):
        if e is None or "n" not in e or e.get("k"):
            return
        nid = e["n"]
        if nid < 0 or nid in seen:
            return
        n = fn.nodes[nid]
        k = n["k"]
        if st.bottom:
            return
        if k == "ReturnStmt" and contract.ret and n.get("val", -1) is not None and n.get("val", -1) >= 0:
            # facts about the returned value that callers assume (ret=[('le', param)]): proven at every return
            seen.add(nid)
            rv = z.lin(st, n["val"])
            for rr in contract.ret:
                if rr[0] == "le":
                    B = bound_lin(st, rr[1])
                    ok = rv is not None and B is not None and st.lin_le0(rv - B)
                    obs.append(Ob("ZB-ens", fn, nid, "return %s" % fn.text(n["val"])[:40], ok, "the returned value must be <= %s (callers index with it)" % rr[1],
                                  {"facts": fmt_state(st, (rv.terms() if rv is not None else set()) | (B.terms() if B is not None else set()))[:12], "block": b["id"]}))
            return
        if k == "ArraySubscriptExpr":
            seen.add(nid)
            base, idx = n["ch"]
            il = z.lin(st, idx)
            r = check_access(b, st, nid, base, il, "subscript")
            if r is None:
                return
            stats["subscripts"] += 1
            if r[0] == "foreign":
                stats["foreign"] = stats.get("foreign", 0) + 1
                return
            if r[0] == "unclassified":
                stats["unclassified"].append((fn.text(nid), fn.loc(nid)))
                return
            ok, why, buf, B = r[:4]
            terms = set()
            if il is not None:
                terms |= st.expand(il).terms()
            terms |= B.terms()
            obs.append(Ob("ZB-read", fn, nid, fn.text(nid), ok, why,
                          {"facts": fmt_state(st, terms)[:12], "block": b["id"], "past": bool(len(r) > 4 and r[4] is True), "below": bool(len(r) > 4 and r[4] == "below")}))
        elif k == "UnaryOperator" and n["op"] == "*":
            sub = n["ch"][0]
            pf = z.ptr_form(st, sub)
            if pf is None or pf[0] not in buf_bounds:
                return
            seen.add(nid)
            stats["subscripts"] += 1
            r = check_access(b, st, nid, sub, Lin(), "deref")
            ok, why, buf, B = r[:4]
            obs.append(Ob("ZB-read", fn, nid, fn.text(nid), ok, why,
                          {"facts": fmt_state(st, st.expand(pf[1]).terms() | B.terms())[:12], "block": b["id"], "past": bool(len(r) > 4 and r[4] is True), "below": bool(len(r) > 4 and r[4] == "below")}))
        elif k in ("CallExpr", "CXXMemberCallExpr"):
            seen.add(nid)
            nm, _ = fn.callee_name(nid)
            if not nm:
                return
            args = fn.call_args(nid)
            for (ai, bname) in contract.call_requires.get(nm.split("::")[-1], []):
                if ai < len(args):
                    la = z.lin(st, args[ai])
                    B = bound_lin(st, bname)
                    ok = la is not None and B is not None and st.lin_le0(la - B)
                    obs.append(Ob("ZB-req", fn, nid, fn.text(nid), ok,
                                  "argument %d of %s must be <= %s" % (ai, nm.split("::")[-1], bname),
                                  {"facts": fmt_state(st, (la.terms() if la is not None else set()) | (B.terms() if B else set()))[:12], "block": b["id"]}))
            cc = contracts.get(nm, len(args))
            if cc is None and "fq" not in n:
                cc = contracts.by_simple(nm.split("::")[-1], len(args))
            if cc is None:
                return
            params = z.lookup_callee_params(nid)
            if params is None:
                return
            pn = [p.get("n") for p in params]
            stats["calls"] += 1
            # (pointer, length) arguments
            for bname, bound in cc.buffers.items():
                if bname not in pn or bname.startswith("f:"):
                    continue
                bexpr = bound.replace("@entry", "")
                kk = 0
                if "+" in bexpr:
                    bexpr, ks = bexpr.split("+")
                    kk = int(ks)
                bexpr = bexpr.strip()
                if bexpr not in pn:
                    continue
                ai, li = pn.index(bname), pn.index(bexpr)
                if ai >= len(args) or li >= len(args):
                    continue
                pf = z.ptr_form(st, args[ai])
                if pf is None:
                    continue
                buf, off = pf
                if buf not in buf_bounds:
                    # string literals / foreign buffers: not ours to bound
                    continue
                B = bound_lin(st, buf_bounds[buf])
                ln = z.lin(st, args[li])
                construct = fn.text(nid)
                if ln is None or B is None:
                    wrap = [x for x in st.notes if x.startswith("wrap?:") and x[6:] in fn.text(args[li])]
                    obs.append(Ob("ZB-call", fn, nid, construct, False,
                                  ("length argument %s may wrap: the unsigned subtraction is not proven safe" if wrap else
                                   "length argument %s is not a linear form of tracked terms") % fn.text(args[li]),
                                  {"block": b["id"], "facts": fmt_state(st, set(t for t in st.terms() if t.startswith("v:")))[:14]}))
                    continue
                total = st.expand(off + ln).shift(kk)
                callee_onepast = bname in cc.onepast
                if callee_onepast:
                    total = total.shift(1)
                onepast = buf in {name2term(x) or x for x in contract.onepast}
                need = total - B if not onepast else (total - B).shift(-1)
                ok = st.lin_le0(st.expand(need))
                obs.append(Ob("ZB-call", fn, nid, construct, ok,
                              "need %s + %s <= %s (callee %s reads [%s, %s+%s))" % (plin(off), plin(ln), plin(B), nm.split("::")[-1], bname, bname, bound),
                              {"facts": fmt_state(st, st.expand(off + ln).terms() | B.terms())[:12], "block": b["id"]}))
            # entry requirements
            for (a, bb, c) in cc.requires:
                if a not in pn or (bb not in pn and bb != "0"):
                    continue
                la = z.lin(st, args[pn.index(a)])
                lb = z.lin(st, args[pn.index(bb)]) if bb != "0" else Lin()
                construct = fn.text(nid)
                if la is None or lb is None:
                    obs.append(Ob("ZB-req", fn, nid, construct, False, "arguments not linear", {"block": b["id"]}))
                    continue
                need = (la - lb).shift(-c)
                ok = st.lin_le0(st.expand(need))
                obs.append(Ob("ZB-req", fn, nid, construct, ok,
                              "callee %s requires %s - %s <= %d" % (nm.split("::")[-1], a, bb, c),
                              {"facts": fmt_state(st, st.expand(la).terms() | st.expand(lb).terms())[:12], "block": b["id"]}))

    dataflow.replay(fn, z, states, visit)

    # one step of path sensitivity for the *definite* verdict: an access that is not proven is re-examined under the state of
    # every single edge into its block (a join of `p > last` with `p <= last && *p == c` forgets which disjunct was taken)
    open_obs = [o for o in obs if o.rule == "ZB-read" and not o.ok and not o.detail.get("past")]
    if open_obs:
        by_block = {}
        for o in open_obs:
            by_block.setdefault(o.detail.get("block"), []).append(o)
        blocks = fn.blocks()
        for (pb, s_id, kind, payload, est) in dataflow.edge_states(fn, z, states):
            if s_id not in by_block or est.bottom:
                continue
            b = blocks[s_id]
            st = z.copy(est)
            want = {o.nid: o for o in by_block[s_id]}
            for e in b["el"]:
                nid = e.get("n") if isinstance(e.get("n"), int) and not e.get("k") else None
                if nid in want and not st.bottom:
                    o = want[nid]
                    n = fn.nodes[nid]
                    if n["k"] == "ArraySubscriptExpr":
                        r = check_access(b, st, nid, n["ch"][0], z.lin(st, n["ch"][1]), "subscript")
                    else:
                        r = check_access(b, st, nid, n["ch"][0], Lin(), "deref")
                    if r is not None and len(r) > 4 and r[4] == "below":
                        o.detail["below"] = True
                        o.why = r[1]
                    elif r is not None and len(r) > 4 and r[4]:
                        o.detail["past"] = True
                        o.why += " -- and on the path entering from block %s the opposite is proven: %s" % (pb["id"], "; ".join(fmt_state(st, st.expand(z.lin(st, n["ch"][1]) if n["k"] == "ArraySubscriptExpr" else Lin()).terms() | r[3].terms())[:6]))
                z.transfer(fn, st, e, b)

    # class invariants over fields: proven on every exit
    exit_id = fn.cfg["exit"] if fn.cfg else None
    if contract.invariants and exit_id is not None:
        preds = [b for b in fn.cfg["blocks"] if exit_id in [s for s in b.get("succ", []) if s is not None]]
        for (a, bb, c) in contract.invariants:
            ta, tb = name2term(a), name2term(bb)
            okall, bad = True, None
            for b in preds:
                if b["id"] not in states:
                    continue
                st = states[b["id"]].copy()
                for e in b["el"]:
                    z.transfer(fn, st, e, b)
                if st.bottom:
                    continue
                if not st.le(ta, tb, c):
                    okall, bad = False, b["id"]
            obs.append(Ob("ZB-inv", fn, fn.body, "invariant %s - %s <= %d on exit" % (Zone.pretty_term(ta), Zone.pretty_term(tb), c), okall,
                          "exit block %s lacks the fact" % bad if not okall else "assumed at entry, proven on every exit"))
    # ensures of this function (checked on every exit)
    if contract.ensures and exit_id is not None:
        blocks = fn.blocks()
        preds = [b for b in fn.cfg["blocks"] if exit_id in [s for s in b.get("succ", []) if s is not None]]
        for pname, ens in contract.ensures.items():
            if pname not in z.pinfo:
                from .model import AnalysisBroken
                raise AnalysisBroken("contract of %s: ensures names unknown parameter %s" % (fn.q, pname))
            p = z.pinfo[pname]
            v = "v:%s#%d" % (p["n"], p["d"])
            en = "e:%s#%d" % (p["n"], p["d"])
            for x in ens:
                if x[0] == "inc":
                    okall = True
                    bad = None
                    for b in preds:
                        if b["id"] not in states:
                            continue
                        st = states[b["id"]].copy()
                        for e in b["el"]:
                            z.transfer(fn, st, e, b)
                        if st.bottom:
                            continue
                        if not st.le(en, v, 0):
                            okall = False
                            bad = b["id"]
                    obs.append(Ob("ZB-ens", fn, fn.body, "ensures %s >= %s@entry" % (pname, pname), okall,
                                  "exit block %s lacks the fact" % bad if not okall else ""))
                elif x[0] == "dec":
                    okall, bad = True, None
                    for b in preds:
                        if b["id"] not in states:
                            continue
                        st = states[b["id"]].copy()
                        for e in b["el"]:
                            z.transfer(fn, st, e, b)
                        if st.bottom:
                            continue
                        if not st.le(v, en, 0):
                            okall, bad = False, b["id"]
                    obs.append(Ob("ZB-ens", fn, fn.body, "ensures %s <= %s@entry" % (pname, pname), okall,
                                  "exit block %s lacks the fact" % bad if not okall else ""))
                elif x[0] == "le":
                    # re-analyse under the entry assumption  p <= bound
                    z2 = Zone(model, fn, contracts, fields_written_by=fields_written_by,
                              assume_entry=[(pname, x[1], 0)])
                    st2 = dataflow.run(fn, z2)
                    bt = z2.name_terms()(x[1])
                    okall = True
                    bad = None
                    for b in preds:
                        if b["id"] not in st2:
                            continue
                        st = st2[b["id"]].copy()
                        for e in b["el"]:
                            z2.transfer(fn, st, e, b)
                        if st.bottom:
                            continue
                        if not st.le(v, bt, 0):
                            okall = False
                            bad = b["id"]
                    obs.append(Ob("ZB-ens", fn, fn.body, "ensures %s <= %s if so at entry" % (pname, x[1]), okall,
                                  "exit block %s lacks the fact" % bad if not okall else ""))
    return obs, stats, (z, states)
