"""Rule results, obligation records and the per-run context shared by rules."""
import os
import time

from . import model as qmodel
from .model import AnalysisBroken, Model


class Ob:
    """one rule instance (obligation)"""

    def __init__(self, rule, fn_q, construct, ok, why="", loc="", detail=None, status=None, nontrivial=True, ordinal=0):
        self.rule = rule
        self.fn_q = fn_q
        self.construct = construct
        self.ok = bool(ok)
        self.why = why
        self.loc = loc
        self.detail = detail or {}
        self.status = status or ("discharged" if ok else "open")
        self.nontrivial = nontrivial
        self.ordinal = ordinal

    def to_json(self, pid):
        return {"property": pid, "rule": self.rule, "function": self.fn_q, "construct": self.construct,
                "ordinal": self.ordinal, "at": self.loc, "status": self.status, "why": self.why, "detail": self.detail}


class Rule:
    def __init__(self, rid, text, floor=None):
        self.rid = rid
        self.text = text
        self.floor = floor
        self.obs = []
        self.broken = []
        self.suppressions = []
        self.notes = []

    def ob(self, fn_q, construct, ok, why="", loc="", detail=None, nontrivial=True):
        o = Ob(self.rid, fn_q, construct, ok, why, loc, detail, nontrivial=nontrivial)
        self.obs.append(o)
        return o

    def add_zone(self, zob):
        """adopt an obligation produced by qlib.zonecheck"""
        o = Ob(zob.rule if zob.rule.startswith(self.rid.split("/")[0]) else zob.rule, zob.fn.q, zob.construct, zob.ok,
               zob.why, zob.loc, zob.detail)
        o.rule = self.rid
        o.detail = dict(zob.detail, engine_rule=zob.rule)
        self.obs.append(o)
        return o

    def suppress(self, fn_q, construct, reason, ordinal=None):
        """mark matching open obligations as suppressed (one named construct, with a reason)"""
        hit = 0
        for o in self.obs:
            if not o.ok and o.fn_q == fn_q and o.construct == construct and (ordinal is None or o.ordinal == ordinal):
                o.status = "suppressed"
                o.why += " [suppressed: %s]" % reason
                hit += 1
        self.suppressions.append({"rule": self.rid, "function": fn_q, "construct": construct, "reason": reason, "matched": hit})
        return hit

    def broke(self, msg):
        self.broken.append(msg)

    def finish(self):
        # ordinals: position among obligations with the same (function, construct)
        seen = {}
        for o in self.obs:
            k = (o.fn_q, o.construct)
            o.ordinal = seen.get(k, 0)
            seen[k] = o.ordinal + 1

    def summary(self):
        return {"rule": self.rid, "text": self.text, "instances": len(self.obs),
                "discharged": sum(1 for o in self.obs if o.ok), "suppressed": sum(1 for o in self.obs if o.status == "suppressed"),
                "open": sum(1 for o in self.obs if not o.ok and o.status != "suppressed"), "floor": self.floor,
                "notes": self.notes}


class Ctx:
    def __init__(self, pid, tier, rundir, seed=0):
        self.pid = pid
        self.tier = tier
        self.rundir = rundir
        self.seed = seed
        self._models = {}
        self.units_log = []
        self.selftest_log = []
        self._fn_seen = set()
        self.pattern_default = "sse2"
        self.inst_default = "sse2"

    @property
    def thorough(self):
        return self.tier == "thorough"

    def unit(self, source, config="sse2", inst=False, pattern=True, roots=None, extra=None):
        key = (source, config, inst, pattern, tuple(roots or ()), tuple(extra or ()))
        if key in self._models:
            return self._models[key]
        src = source if os.path.isabs(source) else os.path.join(qmodel.VERIF, source)
        out = os.path.join(self.rundir, "%s-%s-%d%d.json" % (os.path.basename(source), config, inst, pattern))
        t0 = time.time()
        qmodel.export_unit(src, out, config=config, inst=inst, pattern=pattern, roots=roots, extra=extra)
        m = Model(out, "%s[%s]" % (os.path.basename(source), config))
        try:
            os.unlink(out)
        except OSError:
            pass
        self._models[key] = m
        self.units_log.append({"unit": os.path.relpath(src, qmodel.VERIF) if src.startswith(qmodel.VERIF) else src,
                               "config": config, "view": ("pattern" if pattern else "") + ("+inst" if inst else ""),
                               "functions": len(m.functions), "records": len(m.records), "vars": len(m.vars),
                               "export_s": round(time.time() - t0, 2)})
        return m

    def pattern(self, config=None):
        """all library headers, uninstantiated definitions only"""
        config = config or self.pattern_default
        return self.unit("drivers/all_headers.cpp", config=config, inst=False, pattern=True)

    def inst(self, config=None, driver="drivers/inst.cpp"):
        """instantiation view: the API-use driver for one character width / SIMD configuration"""
        config = config or self.inst_default
        return self.unit(driver, config=config, inst=True, pattern=False)

    def note_fn(self, fn):
        self._fn_seen.add(fn.sig)

    def functions_analysed(self):
        return sorted(self._fn_seen)
