"""Loader and helpers for the resolved-program model exported by tool/qcheck.

A Model wraps one exported translation unit.  Functions expose their AST nodes
(dicts, children by id) and their CFG.  Nothing here forms a verdict.
"""
import json
import os
import subprocess
import sys

REPO = os.environ.get("QENTEM_REPO", "/repo")
INCLUDE = os.path.join(REPO, "Include")
VERIF = os.path.dirname(os.path.dirname(os.path.abspath(__file__)))
QCHECK = os.path.join(VERIF, "tool", "qcheck")

_resource_dir = None


def resource_dir():
    global _resource_dir
    if _resource_dir is None:
        _resource_dir = subprocess.check_output(["clang++", "-print-resource-dir"], text=True).strip()
    return _resource_dir


CONFIGS = {
    # name -> extra flags.  sse2 is the configuration of the real build.
    "sse2": ["-DQENTEM_SSE2=1", "-msse2"],
    "scalar": [],
    "avx2": ["-DQENTEM_AVX2=1", "-mavx2"],
    "sse2-noescape": ["-DQENTEM_SSE2=1", "-msse2", "-DQENTEM_AUTO_ESCAPE_HTML=0"],
    # character widths of the instantiation driver (drivers/inst.cpp)
    "char16": ["-DQENTEM_SSE2=1", "-msse2", "-DQCHAR=char16_t", "-DQWIDE"],
    "char32": ["-DQENTEM_SSE2=1", "-msse2", "-DQCHAR=char32_t", "-DQWIDE"],
    "wchar": ["-DQENTEM_SSE2=1", "-msse2", "-DQCHAR=wchar_t", "-DQWIDE"],
    "char16-avx2": ["-DQENTEM_AVX2=1", "-mavx2", "-DQCHAR=char16_t", "-DQWIDE"],
    "char32-scalar": ["-DQCHAR=char32_t", "-DQWIDE"],
}


def base_flags(config="sse2"):
    return ["-std=gnu++17", "-I" + INCLUDE, "-fno-exceptions", "-UNDEBUG", "-Wno-everything",
            "-resource-dir", resource_dir()] + CONFIGS[config]


class AnalysisBroken(Exception):
    """An anchor vanished, a unit failed to parse, a shape is not recognised."""


def export_unit(source, out, config="sse2", inst=True, pattern=True, roots=None, extra=None):
    roots = roots or [INCLUDE]
    cmd = [QCHECK, "--out", out]
    for r in roots:
        cmd += ["--root", r]
    if not inst:
        cmd.append("--no-inst")
    if not pattern:
        cmd.append("--no-pattern")
    cmd += [source, "--"] + base_flags(config) + (extra or [])
    p = subprocess.run(cmd, stdout=subprocess.PIPE, stderr=subprocess.PIPE, text=True)
    if p.returncode != 0 or not os.path.exists(out):
        raise AnalysisBroken("unit %s (%s) failed to parse: %s" % (source, config, p.stderr.strip()[-2000:]))
    return out


class Fn:
    def __init__(self, model, d):
        self.model = model
        self.d = d
        self.id = d["id"]
        self.q = d["q"]
        self.qf = d["qf"]
        self.name = d["name"]
        self.file = d["file"]
        self.line = d["line"]
        self.nodes = d["nodes"]
        self.cfg = d["cfg"]
        self.params = d["params"]
        self.kind = d.get("kind", "function")
        self.cls = d.get("cls")
        self.is_const = d.get("const", False)
        self.is_static = d.get("static", False)
        self.dependent = d["dependent"]
        self.inst = d["inst"]
        self.body = d["body"]
        self._parent = None
        self._blocks = None

    # ---- identity
    @property
    def sig(self):
        return "%s(%s)%s" % (self.q, ", ".join(p["t"] for p in self.params), " const" if self.is_const else "")

    @property
    def short(self):
        f = os.path.basename(self.file)
        return "%s:%d %s" % (f, self.line, self.sig)

    def loc(self, nid):
        n = self.nodes[nid]
        return "%s:%d:%d" % (os.path.relpath(self.file, REPO), n.get("l", 0), n.get("c", 0))

    # ---- tree helpers
    def node(self, nid):
        return self.nodes[nid] if nid is not None and nid >= 0 else None

    def kids(self, nid):
        n = self.nodes[nid]
        out = list(n.get("ch", []))
        for key in ("init", "cond", "inc", "then", "else", "body", "lhs", "rhs", "sub", "val"):
            v = n.get(key)
            if isinstance(v, int) and v >= 0 and key in _STRUCT_KEYS.get(n["k"], ()):
                out.append(v)
        if n["k"] == "DeclStmt":
            for d in n["decls"]:
                if d.get("init", -1) >= 0:
                    out.append(d["init"])
        return [k for k in out if k >= 0]

    def walk(self, nid=None):
        """pre-order ids of the subtree"""
        if nid is None:
            nid = self.body
        stack = [nid]
        while stack:
            x = stack.pop()
            if x is None or x < 0:
                continue
            yield x
            ks = self.kids(x)
            stack.extend(reversed(ks))

    def parents(self):
        if self._parent is None:
            par = {}
            roots = [self.body] + [i["n"] for i in self.d.get("inits", []) if i.get("n", -1) >= 0]
            for r in roots:
                for x in self.walk(r):
                    for k in self.kids(x):
                        par.setdefault(k, x)
            self._parent = par
        return self._parent

    def strip(self, nid):
        """skip parens, implicit casts, temporaries, cleanups"""
        while nid is not None and nid >= 0:
            n = self.nodes[nid]
            k = n["k"]
            if k in ("ParenExpr", "ImplicitCastExpr", "ExprWithCleanups", "MaterializeTemporaryExpr",
                     "CXXBindTemporaryExpr", "ConstantExpr", "SubstNonTypeTemplateParmExpr",
                     "CXXDefaultArgExpr", "CXXDefaultInitExpr"):
                ch = n.get("ch", [])
                if not ch:
                    return nid
                nid = ch[0]
                continue
            return nid
        return nid

    def strip_casts(self, nid):
        """like strip but also through explicit value casts (static_cast, functional, C-style)"""
        while True:
            nid = self.strip(nid)
            if nid is None or nid < 0:
                return nid
            n = self.nodes[nid]
            if n["k"] in ("CXXStaticCastExpr", "CXXFunctionalCastExpr", "CStyleCastExpr") and n.get("ch"):
                nid = n["ch"][0]
                continue
            if n["k"] in ("InitListExpr", "CXXUnresolvedConstructExpr") and len(n.get("ch", [])) == 1 and \
                    n.get("tk") not in ("rec",):
                # SizeT{3}, Char_T{0}
                nid = n["ch"][0]
                continue
            return nid

    def const_value(self, nid):
        nid = self.strip_casts(nid)
        if nid is None or nid < 0:
            return None
        n = self.nodes[nid]
        if "cv" in n:
            return n["cv"]
        return None

    # ---- calls
    def callee_name(self, nid):
        """(qualified-or-simple name, resolved?) of a call-like node"""
        n = self.nodes[nid]
        if "fq" in n:
            return n["fq"], True
        k = n["k"]
        if k in ("CallExpr", "CXXMemberCallExpr", "CXXOperatorCallExpr"):
            ch = n.get("ch", [])
            if not ch:
                return None, False
            c = self.nodes[self.strip(ch[0])]
            if c["k"] == "UnresolvedLookupExpr":
                cands = c.get("cands", [])
                if len(set(cands)) == 1:
                    return cands[0], True
                return c["n"], False
            if c["k"] in ("CXXDependentScopeMemberExpr", "UnresolvedMemberExpr"):
                cands = c.get("cands", [])
                if cands and len(set(cands)) == 1:
                    return cands[0], True
                return c["n"], False
            if c["k"] == "DependentScopeDeclRefExpr":
                return c["text"], False
            if c["k"] == "CXXDependentScopeMemberExpr" and c.get("qual"):
                return c["qual"] + c["n"], False
            if c["k"] in ("DeclRefExpr", "MemberExpr"):
                return c.get("q", c["n"]), "q" in c
        if k == "CXXUnresolvedConstructExpr":
            return n.get("ty"), False
        return None, False

    def call_simple_name(self, nid):
        nm, _ = self.callee_name(nid)
        if nm is None:
            return None
        return nm.split("::")[-1]

    def call_args(self, nid):
        n = self.nodes[nid]
        k = n["k"]
        ch = n.get("ch", [])
        if k in ("CXXConstructExpr", "CXXTemporaryObjectExpr", "CXXUnresolvedConstructExpr", "InitListExpr"):
            return list(ch)
        if k == "CXXOperatorCallExpr":
            return list(ch[1:])
        if k == "CXXMemberCallExpr":
            return list(ch[1:])
        return list(ch[1:])

    def call_receiver(self, nid):
        """node id of the object expression of a member call (None for implicit this / free calls)"""
        n = self.nodes[nid]
        ch = n.get("ch", [])
        if not ch:
            return None
        c = self.strip(ch[0])
        cn = self.nodes[c]
        if cn["k"] in ("MemberExpr", "CXXDependentScopeMemberExpr", "UnresolvedMemberExpr"):
            cch = cn.get("ch", [])
            if cch:
                return cch[0]
        return None

    # ---- cfg
    def blocks(self):
        if self._blocks is None:
            self._blocks = {b["id"]: b for b in self.cfg["blocks"]} if self.cfg else {}
        return self._blocks

    # ---- text
    def text(self, nid):
        from .pretty import expr_text
        return expr_text(self, nid)


_STRUCT_KEYS = {
    "IfStmt": ("cond", "then", "else"),
    "WhileStmt": ("cond", "body"),
    "DoStmt": ("body", "cond"),
    "ForStmt": ("init", "cond", "inc", "body"),
    "SwitchStmt": ("cond", "body"),
    "CaseStmt": ("lhs", "rhs", "sub"),
    "DefaultStmt": ("sub",),
    "ReturnStmt": ("val",),
}


class Model:
    def __init__(self, path, label=""):
        with open(path) as f:
            self.d = json.load(f)
        self.label = label
        self.functions = [Fn(self, x) for x in self.d["functions"]]
        self.records = self.d["records"]
        self.enums = self.d["enums"]
        self.vars = self.d["vars"]
        self.by_id = {f.id: f for f in self.functions}
        self._by_q = {}
        for f in self.functions:
            self._by_q.setdefault(f.q, []).append(f)

    def fns(self, q, pattern=None, required=True):
        """all functions with qualified name q (no template args).  pattern=True: only
        uninstantiated definitions; pattern=False: only instantiations."""
        r = self._by_q.get(q, [])
        if pattern is True:
            r = [f for f in r if not f.inst]
        elif pattern is False:
            r = [f for f in r if f.inst or not f.dependent]
        if required and not r:
            raise AnalysisBroken("anchor function %s not found in unit %s" % (q, self.label))
        return r

    def fn(self, q, nparams=None, pattern=True, const=None, param_types=None):
        r = self.fns(q, pattern=pattern)
        if nparams is not None:
            r = [f for f in r if len(f.params) == nparams]
        if const is not None:
            r = [f for f in r if f.is_const == const]
        if param_types is not None:
            r = [f for f in r if [p["t"] for p in f.params] == list(param_types)]
        if len(r) != 1:
            raise AnalysisBroken("anchor function %s: expected exactly one match, found %d (%s)" %
                                 (q, len(r), "; ".join(f.sig for f in r)))
        return r[0]

    # ---- constants
    def eval_nodes(self, nodes, nid, depth=0):
        """integer value of an initialiser tree (literals, sibling constants, + - * << sizeof) or None"""
        if nid is None or nid < 0 or depth > 12:
            return None
        n = nodes[nid]
        if "cv" in n:
            return n["cv"]
        k = n["k"]
        ch = n.get("ch", [])
        if k in ("ParenExpr", "ImplicitCastExpr", "ConstantExpr", "ExprWithCleanups", "CXXFunctionalCastExpr",
                 "CXXStaticCastExpr", "CStyleCastExpr", "SubstNonTypeTemplateParmExpr") and ch:
            return self.eval_nodes(nodes, ch[0], depth + 1)
        if k in ("InitListExpr", "CXXUnresolvedConstructExpr") and len(ch) == 1:
            return self.eval_nodes(nodes, ch[0], depth + 1)
        if k == "BinaryOperator" and len(ch) == 2:
            a, b = self.eval_nodes(nodes, ch[0], depth + 1), self.eval_nodes(nodes, ch[1], depth + 1)
            if a is None or b is None:
                return None
            op = n["op"]
            try:
                return {"+": a + b, "-": a - b, "*": a * b, "<<": a << b, ">>": a >> b, "|": a | b, "&": a & b,
                        "/": a // b if b else None, "%": a % b if b else None}.get(op)
            except Exception:
                return None
        if k in ("DeclRefExpr", "MemberExpr") and n.get("static"):
            return self.const_of_var_id(n.get("d"), depth + 1)
        if k == "DependentScopeDeclRefExpr":
            return self.resolve_dep_const(n["text"], depth + 1)
        if k == "CXXDependentScopeMemberExpr" and n.get("qual"):
            return self.resolve_dep_const(n["qual"] + n["n"], depth + 1)
        return None

    def const_of_var_id(self, did, depth=0):
        if not hasattr(self, "_var_by_id"):
            self._var_by_id = {v["id"]: v for v in self.vars}
        v = self._var_by_id.get(did)
        if v is None:
            return None
        return self.const_of_var(v, depth)

    def const_of_var(self, v, depth=0):
        if isinstance(v.get("val"), int):
            return v["val"]
        if "_cval" in v:
            return v["_cval"]
        v["_cval"] = None
        if v.get("init", -1) >= 0 and (v.get("constq") or v.get("constexpr")):
            v["_cval"] = self.eval_nodes(v["nodes"], v["init"], depth + 1)
        return v["_cval"]

    def resolve_dep_const(self, text, depth=0):
        """value of a dependent-scope constant such as `TagPatterns::TrueLength`: every static constant
        of that name under a record whose name starts with the qualifier must agree"""
        if not hasattr(self, "_depc"):
            self._depc = {}
        if text in self._depc:
            return self._depc[text]
        self._depc[text] = None
        parts = text.split("::")
        if len(parts) < 2:
            return None
        member, qual = parts[-1], parts[-2].split("<")[0]
        vals = set()
        for v in self.vars:
            qp = v["q"].split("::")
            if qp[-1] != member or len(qp) < 2:
                continue
            rec = qp[-2]
            if not (rec == qual or rec.startswith(qual) or qual.startswith(rec.replace("_T", ""))):
                continue
            vals.add(self.const_of_var(v, depth + 1))
        r = None
        if len(vals) == 1 and None not in vals:
            r = vals.pop()
        self._depc[text] = r
        return r

    def enum(self, q):
        r = [e for e in self.enums if e["q"] == q]
        if not r:
            raise AnalysisBroken("anchor enum %s not found" % q)
        return r[0]

    def record(self, q, **kw):
        r = [x for x in self.records if x["q"] == q and all(x.get(k) == v for k, v in kw.items())]
        return r

    def var(self, q, **kw):
        return [x for x in self.vars if x["q"] == q and all(x.get(k) == v for k, v in kw.items())]
