// qcheck: resolved-program exporter for the Qentem-Engine static checks.
//
// Parses one translation unit with the given compile flags and writes one JSON
// document holding, for every declaration whose source lies under one of the
// --root prefixes:
//   * functions (template patterns AND instantiations): flags, parameters,
//     constructor initialisers, the body AST (nodes with ids, resolved callees,
//     resolved declarations, evaluated constants) and the clang CFG of the body
//     (blocks, elements in evaluation order referencing AST node ids, implicit
//     destructor elements, terminator + last condition, successors, case labels);
//   * records with their fields and, when complete, the record layout;
//   * enums with enumerator values;
//   * variables with static storage (incl. static data members and function-local
//     statics): type, constness, initialiser AST and its evaluated value.
//
// It forms no verdicts. All rules live in /verif/check.py and /verif/rules.
//
// usage: qcheck --out FILE --root PREFIX [--root PREFIX..] [--no-inst] [--no-pattern] SOURCE -- FLAGS..

#include "clang/AST/ASTConsumer.h"
#include "clang/AST/ASTContext.h"
#include "clang/AST/DeclCXX.h"
#include "clang/AST/DeclTemplate.h"
#include "clang/AST/ExprCXX.h"
#include "clang/AST/RecordLayout.h"
#include "clang/AST/RecursiveASTVisitor.h"
#include "clang/AST/StmtCXX.h"
#include "clang/Analysis/CFG.h"
#include "clang/Frontend/CompilerInstance.h"
#include "clang/Frontend/FrontendAction.h"
#include "clang/Tooling/CompilationDatabase.h"
#include "clang/Tooling/Tooling.h"
#include "llvm/Support/raw_ostream.h"

#include <map>
#include <set>
#include <string>
#include <vector>

using namespace clang;

namespace {

std::vector<std::string> g_roots;
std::string              g_out;
bool                     g_inst    = true;
bool                     g_pattern = true;

std::string jesc(llvm::StringRef s) {
    std::string o;
    o.reserve(s.size() + 2);
    for (unsigned char c : s) {
        switch (c) {
        case '"': o += "\\\""; break;
        case '\\': o += "\\\\"; break;
        case '\n': o += "\\n"; break;
        case '\r': o += "\\r"; break;
        case '\t': o += "\\t"; break;
        default:
            if (c < 0x20 || c >= 0x7f) {
                char b[8];
                snprintf(b, sizeof b, "\\u%04x", c);
                o += b;
            } else
                o += (char)c;
        }
    }
    return o;
}

struct J {
    // tiny JSON object builder
    std::string s;
    bool        first = true;
    void        key(const char *k) {
        s += first ? "{" : ",";
        first = false;
        s += '"';
        s += k;
        s += "\":";
    }
    void str(const char *k, llvm::StringRef v) {
        key(k);
        s += '"';
        s += jesc(v);
        s += '"';
    }
    void num(const char *k, long long v) {
        key(k);
        s += std::to_string(v);
    }
    void unum(const char *k, unsigned long long v) {
        key(k);
        s += std::to_string(v);
    }
    void boolean(const char *k, bool v) {
        key(k);
        s += v ? "true" : "false";
    }
    void raw(const char *k, const std::string &v) {
        key(k);
        s += v;
    }
    std::string done() {
        if (first)
            return "{}";
        return s + "}";
    }
};

std::string jlist(const std::vector<std::string> &v) {
    std::string s = "[";
    for (size_t i = 0; i < v.size(); ++i) {
        if (i)
            s += ",";
        s += v[i];
    }
    return s + "]";
}
std::string jints(const std::vector<long long> &v) {
    std::string s = "[";
    for (size_t i = 0; i < v.size(); ++i) {
        if (i)
            s += ",";
        s += std::to_string(v[i]);
    }
    return s + "]";
}

class Exporter {
  public:
    ASTContext      &Ctx;
    SourceManager   &SM;
    PrintingPolicy   PP;
    llvm::raw_ostream &OS;

    std::map<const Decl *, int> declIds;
    std::vector<std::string>    functions, records, enums, vars;
    std::set<const Decl *>      seenFn, seenRec, seenEnum, seenVar;

    Exporter(ASTContext &C, llvm::raw_ostream &os) : Ctx(C), SM(C.getSourceManager()), PP(C.getLangOpts()), OS(os) {
        PP.SuppressTagKeyword = true;
        PP.Bool               = true;
    }

    int declId(const Decl *D) {
        if (!D)
            return -1;
        D       = D->getCanonicalDecl();
        auto it = declIds.find(D);
        if (it != declIds.end())
            return it->second;
        int id     = (int)declIds.size() + 1;
        declIds[D] = id;
        return id;
    }

    std::string fileOf(SourceLocation L) {
        if (L.isInvalid())
            return "";
        L = SM.getExpansionLoc(L);
        return SM.getFilename(L).str();
    }
    bool underRoot(SourceLocation L) {
        std::string f = fileOf(L);
        if (f.empty())
            return false;
        for (auto &r : g_roots)
            if (f.compare(0, r.size(), r) == 0)
                return true;
        return false;
    }
    unsigned lineOf(SourceLocation L) { return L.isInvalid() ? 0 : SM.getExpansionLineNumber(L); }
    unsigned colOf(SourceLocation L) { return L.isInvalid() ? 0 : SM.getExpansionColumnNumber(L); }

    // qualified name without template arguments
    std::string qname(const NamedDecl *D) {
        std::vector<std::string> parts;
        std::string              n = D->getDeclName().getAsString();
        if (n.empty())
            n = "(anon)";
        parts.push_back(n);
        const DeclContext *DC = D->getDeclContext();
        while (DC && !DC->isTranslationUnit()) {
            if (auto *ND = dyn_cast<NamespaceDecl>(DC)) {
                if (!ND->isAnonymousNamespace() && !ND->isInline())
                    parts.push_back(ND->getNameAsString());
            } else if (auto *RD = dyn_cast<RecordDecl>(DC)) {
                std::string rn = RD->getNameAsString();
                if (!rn.empty())
                    parts.push_back(rn);
                else if (!RD->isAnonymousStructOrUnion())
                    parts.push_back("(anon)");
            } else if (auto *FD = dyn_cast<FunctionDecl>(DC)) {
                parts.push_back(FD->getNameAsString());
            } else if (auto *ED = dyn_cast<EnumDecl>(DC)) {
                if (ED->isScoped())
                    parts.push_back(ED->getNameAsString());
            }
            DC = DC->getParent();
        }
        std::string r;
        for (size_t i = parts.size(); i-- > 0;) {
            r += parts[i];
            if (i)
                r += "::";
        }
        return r;
    }
    std::string qnameFull(const NamedDecl *D) {
        std::string              s;
        llvm::raw_string_ostream os(s);
        D->printQualifiedName(os, PP);
        return os.str();
    }
    std::string typeStr(QualType T) { return T.isNull() ? "" : T.getAsString(PP); }

    // explicit template arguments of an overloaded name: doOperation<BigIntOperation::And>(x)
    template <typename JW>
    void explicitTemplateArgs(JW &j, const OverloadExpr *OE) {
        if (!OE->hasExplicitTemplateArgs())
            return;
        std::vector<std::string> a;
        for (const TemplateArgumentLoc &L : OE->template_arguments()) {
            std::string              s;
            llvm::raw_string_ostream os(s);
            L.getArgument().print(PP, os, true);
            a.push_back("\"" + jesc(os.str()) + "\"");
        }
        j.raw("targs", jlist(a));
    }

    const char *typeKind(QualType T) {
        if (T.isNull())
            return "none";
        if (T.getNonReferenceType()->isPointerType())
            return "ptr";
        if (T->isDependentType())
            return "dep";
        T = T.getCanonicalType().getNonReferenceType();
        if (T->isBooleanType())
            return "bool";
        if (T->isEnumeralType())
            return "enum";
        if (T->isPointerType() || T->isNullPtrType())
            return "ptr";
        if (T->isUnsignedIntegerType())
            return "uint";
        if (T->isSignedIntegerType())
            return "sint";
        if (T->isFloatingType())
            return "float";
        if (T->isRecordType())
            return "rec";
        if (T->isArrayType())
            return "arr";
        if (T->isVoidType())
            return "void";
        return "other";
    }

    // ---------------------------------------------------------------- AST nodes
    struct FnCtx {
        std::vector<std::string>     nodes;
        std::map<const Stmt *, int>  ids;
    };

    std::string apvalue(const APValue &V, QualType T, int depth = 0) {
        if (depth > 6)
            return "null";
        switch (V.getKind()) {
        case APValue::Int: {
            const llvm::APSInt &I = V.getInt();
            if (I.getBitWidth() <= 64)
                return I.isSigned() ? std::to_string(I.getSExtValue()) : std::to_string(I.getZExtValue());
            return "\"" + llvm::toString(I, 10) + "\"";
        }
        case APValue::Float: {
            llvm::SmallString<32> s;
            V.getFloat().toString(s);
            return "\"" + std::string(s.str()) + "\"";
        }
        case APValue::Array: {
            std::vector<std::string> v;
            unsigned                 n  = V.getArraySize();
            unsigned                 ni = V.getArrayInitializedElts();
            QualType                 ET;
            if (auto *AT = Ctx.getAsArrayType(T))
                ET = AT->getElementType();
            if (n > 4096)
                return "null";
            for (unsigned i = 0; i < n; ++i) {
                const APValue &E = i < ni ? V.getArrayInitializedElt(i) : (V.hasArrayFiller() ? V.getArrayFiller() : V);
                if (i >= ni && !V.hasArrayFiller()) {
                    v.push_back("null");
                    continue;
                }
                v.push_back(apvalue(E, ET, depth + 1));
            }
            return jlist(v);
        }
        case APValue::Struct: {
            std::vector<std::string> v;
            for (unsigned i = 0; i < V.getStructNumFields(); ++i)
                v.push_back(apvalue(V.getStructField(i), QualType(), depth + 1));
            return jlist(v);
        }
        case APValue::LValue: {
            auto B = V.getLValueBase();
            if (B.isNull())
                return "{\"null\":true}";
            if (const Expr *E = B.dyn_cast<const Expr *>()) {
                if (auto *SL = dyn_cast<StringLiteral>(E->IgnoreParenImpCasts())) {
                    J j;
                    j.raw("str", strUnits(SL));
                    j.num("cw", SL->getCharByteWidth());
                    j.num("off", V.getLValueOffset().getQuantity());
                    return j.done();
                }
            }
            if (const ValueDecl *VD = B.dyn_cast<const ValueDecl *>()) {
                J j;
                j.str("ref", qname(VD));
                j.num("d", declId(VD));
                return j.done();
            }
            return "null";
        }
        default:
            return "null";
        }
    }

    std::string strUnits(const StringLiteral *SL) {
        std::vector<long long> u;
        for (unsigned i = 0; i < SL->getLength(); ++i)
            u.push_back(SL->getCodeUnit(i));
        return jints(u);
    }

    const char *declKind(const Decl *D) {
        if (isa<ParmVarDecl>(D))
            return "param";
        if (isa<VarDecl>(D))
            return "var";
        if (isa<FieldDecl>(D))
            return "field";
        if (isa<IndirectFieldDecl>(D))
            return "ifield";
        if (isa<EnumConstantDecl>(D))
            return "enumc";
        if (isa<CXXMethodDecl>(D))
            return "method";
        if (isa<FunctionDecl>(D))
            return "func";
        if (isa<NonTypeTemplateParmDecl>(D))
            return "nttp";
        if (isa<BindingDecl>(D))
            return "binding";
        return "other";
    }

    void funcRef(J &j, const FunctionDecl *FD) {
        j.num("fd", declId(FD));
        j.str("fq", qname(FD));
        if (auto *P = FD->getTemplateInstantiationPattern())
            j.num("fpat", declId(P));
        if (auto *MD = dyn_cast<CXXMethodDecl>(FD)) {
            j.boolean("fconst", MD->isConst());
            j.boolean("fstatic", MD->isStatic());
        }
        j.num("fnp", FD->getNumParams());
    }

    int emit(FnCtx &F, const Stmt *S) {
        if (!S)
            return -1;
        auto it = F.ids.find(S);
        if (it != F.ids.end())
            return it->second;
        int id = (int)F.nodes.size();
        F.nodes.emplace_back();
        F.ids[S] = id;

        J j;
        j.str("k", S->getStmtClassName());
        SourceLocation L = S->getBeginLoc();
        j.num("l", lineOf(L));
        j.num("c", colOf(L));
        std::vector<const Stmt *> kids;
        bool                      defaultKids = true;

        if (auto *E = dyn_cast<Expr>(S)) {
            QualType T = E->getType();
            j.str("t", typeStr(T));
            j.str("tk", typeKind(T));
            if (!T.isNull() && !T->isDependentType() && (T->isIntegralOrEnumerationType()) && !T->isIncompleteType())
                j.num("tw", (long long)Ctx.getTypeSize(T));
            if (E->isLValue())
                j.boolean("lv", true);
            if (!E->isValueDependent() && !E->isTypeDependent() && !E->containsErrors() && !T.isNull() &&
                T->isIntegralOrEnumerationType()) {
                Expr::EvalResult R;
                if (E->EvaluateAsInt(R, Ctx, Expr::SE_NoSideEffects)) {
                    const llvm::APSInt &I = R.Val.getInt();
                    if (I.getBitWidth() <= 64) {
                        if (I.isSigned())
                            j.num("cv", I.getSExtValue());
                        else
                            j.unum("cv", I.getZExtValue());
                    }
                }
            }
        }

        if (auto *DRE = dyn_cast<DeclRefExpr>(S)) {
            const ValueDecl *D = DRE->getDecl();
            j.num("d", declId(D));
            j.str("n", D->getNameAsString());
            j.str("dk", declKind(D));
            if (auto *VD = dyn_cast<VarDecl>(D)) {
                if (VD->hasGlobalStorage()) {
                    j.boolean("static", true);
                    j.str("q", qname(VD));
                }
            } else if (isa<EnumConstantDecl>(D) || isa<FunctionDecl>(D)) {
                j.str("q", qname(D));
                if (auto *FD = dyn_cast<FunctionDecl>(D))
                    funcRef(j, FD);
            }
        } else if (auto *ME = dyn_cast<MemberExpr>(S)) {
            const ValueDecl *D = ME->getMemberDecl();
            j.num("d", declId(D));
            j.str("n", D->getNameAsString());
            j.str("dk", declKind(D));
            j.boolean("arrow", ME->isArrow());
            if (auto *FD = dyn_cast<FieldDecl>(D)) {
                if (FD->isAnonymousStructOrUnion())
                    j.boolean("anon", true);
                j.str("rec", qname(FD->getParent()));
            } else if (auto *MD = dyn_cast<CXXMethodDecl>(D)) {
                j.str("q", qname(MD));
            } else if (auto *VD = dyn_cast<VarDecl>(D)) {
                j.boolean("static", true);
                j.str("q", qname(VD));
            }
        } else if (auto *DM = dyn_cast<CXXDependentScopeMemberExpr>(S)) {
            j.str("n", DM->getMember().getAsString());
            if (NestedNameSpecifier *Q = DM->getQualifier()) {
                std::string              qs;
                llvm::raw_string_ostream qos(qs);
                Q->print(qos, PP);
                j.str("qual", qos.str());
            }
            j.boolean("arrow", DM->isArrow());
            j.boolean("implicit", DM->isImplicitAccess());
            defaultKids = false;
            if (!DM->isImplicitAccess())
                kids.push_back(DM->getBase());
        } else if (auto *UL = dyn_cast<UnresolvedLookupExpr>(S)) {
            j.str("n", UL->getName().getAsString());
            std::vector<std::string> c;
            for (auto *D : UL->decls())
                c.push_back("\"" + jesc(qname(D)) + "\"");
            j.raw("cands", jlist(c));
            explicitTemplateArgs(j, UL);
        } else if (auto *UM = dyn_cast<UnresolvedMemberExpr>(S)) {
            j.str("n", UM->getMemberName().getAsString());
            if (NestedNameSpecifier *Q = UM->getQualifier()) {
                std::string              qs;
                llvm::raw_string_ostream qos(qs);
                Q->print(qos, PP);
                j.str("qual", qos.str());
            }
            j.boolean("arrow", UM->isArrow());
            j.boolean("implicit", UM->isImplicitAccess());
            std::vector<std::string> c;
            for (auto *D : UM->decls())
                c.push_back("\"" + jesc(qname(D)) + "\"");
            j.raw("cands", jlist(c));
            explicitTemplateArgs(j, UM);
            defaultKids = false;
            if (!UM->isImplicitAccess())
                kids.push_back(UM->getBase());
        } else if (auto *DS = dyn_cast<DependentScopeDeclRefExpr>(S)) {
            std::string              s;
            llvm::raw_string_ostream os(s);
            DS->printPretty(os, nullptr, PP);
            j.str("n", DS->getDeclName().getAsString());
            j.str("text", os.str());
        } else if (auto *CE = dyn_cast<CallExpr>(S)) {
            if (const FunctionDecl *FD = CE->getDirectCallee())
                funcRef(j, FD);
            if (auto *OC = dyn_cast<CXXOperatorCallExpr>(CE))
                j.str("op", getOperatorSpelling(OC->getOperator()));
            if (isa<CXXMemberCallExpr>(CE))
                j.boolean("mcall", true);
            j.num("na", CE->getNumArgs());
        } else if (auto *CC = dyn_cast<CXXConstructExpr>(S)) {
            const CXXConstructorDecl *CD = CC->getConstructor();
            funcRef(j, CD);
            j.boolean("copy", CD->isCopyConstructor());
            j.boolean("move", CD->isMoveConstructor());
            j.boolean("elidable", CC->isElidable());
            j.boolean("listinit", CC->isListInitialization());
            j.num("na", CC->getNumArgs());
        } else if (auto *UC = dyn_cast<CXXUnresolvedConstructExpr>(S)) {
            j.str("ty", typeStr(UC->getTypeAsWritten()));
        } else if (auto *BO = dyn_cast<BinaryOperator>(S)) {
            j.str("op", BO->getOpcodeStr());
        } else if (auto *UO = dyn_cast<UnaryOperator>(S)) {
            j.str("op", UnaryOperator::getOpcodeStr(UO->getOpcode()));
            j.boolean("postfix", UO->isPostfix());
        } else if (auto *IL = dyn_cast<IntegerLiteral>(S)) {
            (void)IL;
        } else if (auto *CL = dyn_cast<CharacterLiteral>(S)) {
            j.unum("cv", CL->getValue());
        } else if (auto *BL = dyn_cast<CXXBoolLiteralExpr>(S)) {
            j.num("cv", BL->getValue() ? 1 : 0);
        } else if (auto *FL = dyn_cast<FloatingLiteral>(S)) {
            llvm::SmallString<32> s;
            FL->getValue().toString(s);
            j.str("fv", s.str());
        } else if (auto *SL = dyn_cast<StringLiteral>(S)) {
            j.raw("str", strUnits(SL));
            j.num("cw", SL->getCharByteWidth());
        } else if (auto *CA = dyn_cast<CastExpr>(S)) {
            j.str("ck", CA->getCastKindName());
            if (auto *EC = dyn_cast<ExplicitCastExpr>(S))
                j.str("ty", typeStr(EC->getTypeAsWritten()));
        } else if (auto *UE = dyn_cast<UnaryExprOrTypeTraitExpr>(S)) {
            j.str("trait", UE->getKind() == UETT_SizeOf ? "sizeof" : "other");
            if (UE->isArgumentType())
                j.str("ty", typeStr(UE->getArgumentType()));
        } else if (auto *NE = dyn_cast<CXXNewExpr>(S)) {
            j.str("ty", typeStr(NE->getAllocatedType()));
            j.boolean("array", NE->isArray());
            j.num("nplace", NE->getNumPlacementArgs());
            if (auto *OD = NE->getOperatorNew())
                j.str("opnew", qname(OD));
        } else if (auto *DE = dyn_cast<CXXDeleteExpr>(S)) {
            j.boolean("array", DE->isArrayForm());
        } else if (auto *PD = dyn_cast<CXXPseudoDestructorExpr>(S)) {
            j.str("ty", typeStr(PD->getDestroyedType()));
        } else if (auto *IS = dyn_cast<IfStmt>(S)) {
            j.boolean("constexpr", IS->isConstexpr());
            defaultKids = false;
            J r;
            if (IS->getInit())
                kids.push_back(IS->getInit());
            if (IS->getConditionVariableDeclStmt())
                kids.push_back(IS->getConditionVariableDeclStmt());
            j.num("cond", emit(F, IS->getCond()));
            j.num("then", emit(F, IS->getThen()));
            j.num("else", emit(F, IS->getElse()));
        } else if (auto *WS = dyn_cast<WhileStmt>(S)) {
            defaultKids = false;
            j.num("cond", emit(F, WS->getCond()));
            j.num("body", emit(F, WS->getBody()));
        } else if (auto *DoS = dyn_cast<DoStmt>(S)) {
            defaultKids = false;
            j.num("body", emit(F, DoS->getBody()));
            j.num("cond", emit(F, DoS->getCond()));
        } else if (auto *FS = dyn_cast<ForStmt>(S)) {
            defaultKids = false;
            j.num("init", emit(F, FS->getInit()));
            j.num("cond", emit(F, FS->getCond()));
            j.num("inc", emit(F, FS->getInc()));
            j.num("body", emit(F, FS->getBody()));
        } else if (auto *SS = dyn_cast<SwitchStmt>(S)) {
            defaultKids = false;
            j.num("cond", emit(F, SS->getCond()));
            j.num("body", emit(F, SS->getBody()));
        } else if (auto *CS = dyn_cast<CaseStmt>(S)) {
            defaultKids = false;
            j.num("lhs", emit(F, CS->getLHS()));
            if (CS->getRHS())
                j.num("rhs", emit(F, CS->getRHS()));
            j.num("sub", emit(F, CS->getSubStmt()));
        } else if (auto *DfS = dyn_cast<DefaultStmt>(S)) {
            defaultKids = false;
            j.num("sub", emit(F, DfS->getSubStmt()));
        } else if (auto *RS = dyn_cast<ReturnStmt>(S)) {
            defaultKids = false;
            j.num("val", emit(F, RS->getRetValue()));
        } else if (auto *DSt = dyn_cast<DeclStmt>(S)) {
            defaultKids = false;
            std::vector<std::string> ds;
            for (auto *D : DSt->decls()) {
                J d;
                if (auto *VD = dyn_cast<VarDecl>(D)) {
                    d.num("d", declId(VD));
                    d.str("n", VD->getNameAsString());
                    d.str("t", typeStr(VD->getType()));
                    d.str("tk", typeKind(VD->getType()));
                    d.boolean("static", VD->isStaticLocal());
                    d.boolean("constq", VD->getType().isConstQualified());
                    d.boolean("ref", VD->getType()->isReferenceType());
                    d.num("init", emit(F, VD->getInit()));
                    if (VD->isStaticLocal())
                        exportVar(VD);
                } else {
                    d.str("other", D->getDeclKindName());
                }
                ds.push_back(d.done());
            }
            j.raw("decls", jlist(ds));
        } else if (auto *LE = dyn_cast<LambdaExpr>(S)) {
            (void)LE;
            defaultKids = false;
        } else if (auto *SN = dyn_cast<SubstNonTypeTemplateParmExpr>(S)) {
            j.str("n", SN->getParameter()->getNameAsString());
        } else if (auto *DI = dyn_cast<CXXDefaultInitExpr>(S)) {
            defaultKids = false;
            kids.push_back(DI->getExpr());
        } else if (auto *DA = dyn_cast<CXXDefaultArgExpr>(S)) {
            defaultKids = false;
            kids.push_back(DA->getExpr());
        }

        if (defaultKids)
            for (const Stmt *C : S->children())
                kids.push_back(C);
        std::vector<long long> ch;
        for (const Stmt *C : kids)
            ch.push_back(emit(F, C));
        if (!ch.empty())
            j.raw("ch", jints(ch));
        F.nodes[id] = j.done();
        return id;
    }

    // ---------------------------------------------------------------- CFG
    std::string exportCFG(FnCtx &F, const FunctionDecl *FD) {
        CFG::BuildOptions BO;
        BO.setAllAlwaysAdd();
        BO.AddImplicitDtors           = true;
        BO.AddInitializers            = true;
        BO.AddTemporaryDtors          = true;
        BO.AddEHEdges                 = false;
        BO.AddCXXDefaultInitExprInCtors = true;
        BO.PruneTriviallyFalseEdges   = true;
        std::unique_ptr<CFG> cfg      = CFG::buildCFG(FD, FD->getBody(), &Ctx, BO);
        if (!cfg)
            return "null";
        std::vector<std::string> blocks;
        for (const CFGBlock *B : *cfg) {
            J b;
            b.num("id", B->getBlockID());
            std::vector<std::string> els;
            for (const CFGElement &E : *B) {
                J e;
                switch (E.getKind()) {
                case CFGElement::Statement:
                case CFGElement::Constructor:
                case CFGElement::CXXRecordTypedCall: {
                    const Stmt *S = E.castAs<CFGStmt>().getStmt();
                    e.num("n", emit(F, S));
                    break;
                }
                case CFGElement::Initializer: {
                    const CXXCtorInitializer *I = E.castAs<CFGInitializer>().getInitializer();
                    e.str("k", "init");
                    if (I->isAnyMemberInitializer()) {
                        e.str("field", I->getAnyMember()->getNameAsString());
                        e.num("d", declId(I->getAnyMember()));
                    } else if (I->isBaseInitializer() || I->isDelegatingInitializer()) {
                        e.str("base", typeStr(I->getTypeSourceInfo()->getType()));
                    }
                    e.num("n", emit(F, I->getInit()));
                    break;
                }
                case CFGElement::AutomaticObjectDtor: {
                    auto             D  = E.castAs<CFGAutomaticObjDtor>();
                    const VarDecl   *VD = D.getVarDecl();
                    e.str("k", "autodtor");
                    e.num("d", declId(VD));
                    e.str("n", VD->getNameAsString());
                    e.str("t", typeStr(VD->getType()));
                    if (const CXXDestructorDecl *DD = D.getDestructorDecl(Ctx))
                        funcRef(e, DD);
                    break;
                }
                case CFGElement::TemporaryDtor: {
                    auto D = E.castAs<CFGTemporaryDtor>();
                    e.str("k", "tmpdtor");
                    e.num("n", emit(F, D.getBindTemporaryExpr()));
                    e.str("t", typeStr(D.getBindTemporaryExpr()->getType()));
                    if (const CXXDestructorDecl *DD = D.getDestructorDecl(Ctx))
                        funcRef(e, DD);
                    break;
                }
                case CFGElement::MemberDtor: {
                    auto D = E.castAs<CFGMemberDtor>();
                    e.str("k", "memberdtor");
                    e.str("field", D.getFieldDecl()->getNameAsString());
                    e.str("t", typeStr(D.getFieldDecl()->getType()));
                    if (const CXXDestructorDecl *DD = D.getDestructorDecl(Ctx))
                        funcRef(e, DD);
                    break;
                }
                case CFGElement::BaseDtor: {
                    e.str("k", "basedtor");
                    break;
                }
                case CFGElement::DeleteDtor: {
                    auto D = E.castAs<CFGDeleteDtor>();
                    e.str("k", "deletedtor");
                    e.num("n", emit(F, D.getDeleteExpr()));
                    break;
                }
                default:
                    e.str("k", "other");
                    break;
                }
                els.push_back(e.done());
            }
            b.raw("el", jlist(els));
            if (const Stmt *T = B->getTerminatorStmt()) {
                b.num("term", emit(F, T));
                b.str("termk", T->getStmtClassName());
                if (B->getTerminator().isTemporaryDtorsBranch())
                    b.boolean("tmpdtorbranch", true);
            }
            if (const Stmt *C = B->getLastCondition())
                b.num("cond", emit(F, C));
            std::vector<std::string> su;
            for (auto I = B->succ_begin(); I != B->succ_end(); ++I) {
                const CFGBlock *R = I->getReachableBlock();
                su.push_back(R ? std::to_string(R->getBlockID()) : "null");
            }
            b.raw("succ", jlist(su));
            if (const Stmt *Lb = B->getLabel()) {
                if (auto *CS = dyn_cast<CaseStmt>(Lb)) {
                    J lab;
                    Expr::EvalResult R;
                    if (CS->getLHS() && !CS->getLHS()->isValueDependent() && CS->getLHS()->EvaluateAsInt(R, Ctx))
                        lab.num("case", R.Val.getInt().getExtValue());
                    if (auto *DRE = dyn_cast<DeclRefExpr>(CS->getLHS()->IgnoreParenImpCasts()))
                        lab.str("name", DRE->getDecl()->getNameAsString());
                    else if (auto *DSR = dyn_cast<DependentScopeDeclRefExpr>(CS->getLHS()->IgnoreParenImpCasts())) {
                        std::string              s;
                        llvm::raw_string_ostream os(s);
                        DSR->printPretty(os, nullptr, PP);
                        lab.str("name", os.str());
                    }
                    if (CS->getRHS()) {
                        Expr::EvalResult R2;
                        if (!CS->getRHS()->isValueDependent() && CS->getRHS()->EvaluateAsInt(R2, Ctx))
                            lab.num("caseEnd", R2.Val.getInt().getExtValue());
                    }
                    lab.num("n", emit(F, CS));
                    b.raw("label", lab.done());
                } else if (isa<DefaultStmt>(Lb)) {
                    b.raw("label", "{\"default\":true}");
                }
            }
            if (const Stmt *LT = B->getLoopTarget())
                b.num("looptarget", emit(F, LT));
            blocks.push_back(b.done());
        }
        J c;
        c.num("entry", cfg->getEntry().getBlockID());
        c.num("exit", cfg->getExit().getBlockID());
        c.raw("blocks", jlist(blocks));
        return c.done();
    }

    // ---------------------------------------------------------------- functions
    void exportFunction(const FunctionDecl *FD) {
        if (!FD->doesThisDeclarationHaveABody() || !FD->getBody())
            return;
        if (!underRoot(FD->getLocation()))
            return;
        if (!seenFn.insert(FD).second)
            return;
        bool dependent = FD->isDependentContext();
        bool inst      = FD->isTemplateInstantiation() ||
                    (isa<CXXMethodDecl>(FD) && isa<ClassTemplateSpecializationDecl>(cast<CXXMethodDecl>(FD)->getParent()) &&
                     !dependent);
        // walk up: nested class of a specialization
        if (!inst && !dependent) {
            const DeclContext *DC = FD->getDeclContext();
            while (DC && !DC->isTranslationUnit()) {
                if (isa<ClassTemplateSpecializationDecl>(DC)) {
                    inst = true;
                    break;
                }
                DC = DC->getParent();
            }
        }
        if (inst && !g_inst)
            return;
        if (!inst && !g_pattern && dependent)
            return;   // --no-pattern drops uninstantiated templates only; ordinary functions belong to both views

        FnCtx F;
        J     j;
        j.num("id", declId(FD));
        j.str("q", qname(FD));
        j.str("qf", qnameFull(FD));
        j.str("name", FD->getNameAsString());
        j.str("file", fileOf(FD->getLocation()));
        j.num("line", lineOf(FD->getLocation()));
        j.num("endline", lineOf(FD->getEndLoc()));
        j.boolean("dependent", dependent);
        j.boolean("inst", inst);
        if (auto *P = FD->getTemplateInstantiationPattern())
            j.num("pat", declId(P));
        j.str("ret", typeStr(FD->getReturnType()));
        j.str("type", typeStr(FD->getType()));
        if (FD->isOverloadedOperator())
            j.str("op", getOperatorSpelling(FD->getOverloadedOperator()));
        if (auto *MD = dyn_cast<CXXMethodDecl>(FD)) {
            j.str("cls", qname(MD->getParent()));
            j.str("clsf", qnameFull(MD->getParent()));
            if (auto *SD = dyn_cast<ClassTemplateSpecializationDecl>(MD->getParent())) {
                std::string              ts;
                llvm::raw_string_ostream tos(ts);
                printTemplateArgumentList(tos, SD->getTemplateArgs().asArray(), PP);
                j.str("clstargs", tos.str());
            }
            j.boolean("const", MD->isConst());
            j.boolean("static", MD->isStatic());
            j.str("access", MD->getAccess() == AS_public ? "public" : MD->getAccess() == AS_private ? "private" : "protected");
            if (auto *CD = dyn_cast<CXXConstructorDecl>(MD)) {
                j.str("kind", CD->isCopyConstructor() ? "copyctor" : CD->isMoveConstructor() ? "movector" : "ctor");
                std::vector<std::string> inits;
                for (const CXXCtorInitializer *I : CD->inits()) {
                    J i;
                    if (I->isAnyMemberInitializer()) {
                        i.str("field", I->getAnyMember()->getNameAsString());
                        i.num("d", declId(I->getAnyMember()));
                    } else if (I->getTypeSourceInfo()) {
                        i.str("base", typeStr(I->getTypeSourceInfo()->getType()));
                    }
                    i.boolean("written", I->isWritten());
                    i.num("n", emit(F, I->getInit()));
                    inits.push_back(i.done());
                }
                j.raw("inits", jlist(inits));
            } else if (isa<CXXDestructorDecl>(MD)) {
                j.str("kind", "dtor");
            } else if (MD->isCopyAssignmentOperator()) {
                j.str("kind", "copyassign");
            } else if (MD->isMoveAssignmentOperator()) {
                j.str("kind", "moveassign");
            } else {
                j.str("kind", "method");
            }
        } else {
            j.str("kind", "function");
        }
        std::vector<std::string> ps;
        for (const ParmVarDecl *P : FD->parameters()) {
            J        p;
            QualType T = P->getType();
            p.num("d", declId(P));
            p.str("n", P->getNameAsString());
            p.str("t", typeStr(T));
            p.str("tk", typeKind(T));
            p.boolean("ref", T->isReferenceType());
            p.boolean("rref", T->isRValueReferenceType());
            p.boolean("ptr", T->isPointerType());
            if (T->isReferenceType() || T->isPointerType())
                p.boolean("pconst", T->getPointeeType().isConstQualified());
            ps.push_back(p.done());
        }
        j.raw("params", jlist(ps));
        int body = emit(F, FD->getBody());
        j.num("body", body);
        std::string cfg = exportCFG(F, FD);
        j.raw("cfg", cfg);
        j.raw("nodes", jlist(F.nodes));
        functions.push_back(j.done());
    }

    // ---------------------------------------------------------------- records / enums / vars
    void exportRecord(const CXXRecordDecl *RD) {
        if (!RD->isCompleteDefinition() || !underRoot(RD->getLocation()))
            return;
        if (!seenRec.insert(RD).second)
            return;
        J j;
        j.num("id", declId(RD));
        j.str("q", qname(RD));
        j.str("qf", qnameFull(RD));
        j.str("file", fileOf(RD->getLocation()));
        j.num("line", lineOf(RD->getLocation()));
        j.boolean("union", RD->isUnion());
        j.boolean("anon", RD->isAnonymousStructOrUnion());
        bool dep = RD->isDependentContext();
        j.boolean("dependent", dep);
        j.boolean("spec", isa<ClassTemplateSpecializationDecl>(RD));
        j.boolean("partial", isa<ClassTemplatePartialSpecializationDecl>(RD));
        if (auto *SD = dyn_cast<ClassTemplateSpecializationDecl>(RD)) {
            std::string              s;
            llvm::raw_string_ostream os(s);
            printTemplateArgumentList(os, SD->getTemplateArgs().asArray(), PP);
            j.str("targs", os.str());
        }
        const ASTRecordLayout *Lay = nullptr;
        if (!dep && !RD->isInvalidDecl()) {
            bool ok = true;
            for (const FieldDecl *FD : RD->fields())
                if (FD->getType()->isIncompleteType() || FD->getType()->isDependentType())
                    ok = false;
            if (ok) {
                Lay = &Ctx.getASTRecordLayout(RD);
                j.num("size", Lay->getSize().getQuantity());
                j.num("align", Lay->getAlignment().getQuantity());
            }
        }
        std::vector<std::string> fs;
        unsigned                 idx = 0;
        for (const FieldDecl *FD : RD->fields()) {
            J f;
            f.num("d", declId(FD));
            f.str("n", FD->getNameAsString());
            f.str("t", typeStr(FD->getType()));
            f.str("tk", typeKind(FD->getType()));
            f.boolean("anon", FD->isAnonymousStructOrUnion());
            if (FD->isBitField())
                f.boolean("bitfield", true);
            if (Lay) {
                f.num("off", (long long)Lay->getFieldOffset(idx) / 8);
                if (!FD->isBitField())
                    f.num("size", Ctx.getTypeSizeInChars(FD->getType()).getQuantity());
            }
            if (const RecordType *RT = FD->getType()->getAs<RecordType>())
                f.num("recid", declId(RT->getDecl()));
            if (FD->hasInClassInitializer() && FD->getInClassInitializer()) {
                FnCtx F;
                int   n = emit(F, FD->getInClassInitializer());
                f.num("init", n);
                f.raw("nodes", jlist(F.nodes));
            }
            fs.push_back(f.done());
            ++idx;
        }
        j.raw("fields", jlist(fs));
        std::vector<std::string> bs;
        if (!dep)
            for (const CXXBaseSpecifier &B : RD->bases()) {
                J b;
                b.str("t", typeStr(B.getType()));
                if (const CXXRecordDecl *BD = B.getType()->getAsCXXRecordDecl())
                    b.num("recid", declId(BD));
                bs.push_back(b.done());
            }
        j.raw("bases", jlist(bs));
        if (!dep) {
            j.boolean("trivdtor", RD->hasTrivialDestructor());
            j.boolean("trivcopy", RD->isTriviallyCopyable());
        }
        records.push_back(j.done());
    }

    void exportEnum(const EnumDecl *ED) {
        if (!ED->isCompleteDefinition() || !underRoot(ED->getLocation()))
            return;
        if (!seenEnum.insert(ED).second)
            return;
        J j;
        j.num("id", declId(ED));
        j.str("q", qname(ED));
        j.str("file", fileOf(ED->getLocation()));
        j.num("line", lineOf(ED->getLocation()));
        j.boolean("scoped", ED->isScoped());
        j.str("underlying", typeStr(ED->getIntegerType()));
        bool instMember = false;
        for (const DeclContext *DC = ED->getDeclContext(); DC && !DC->isTranslationUnit(); DC = DC->getParent())
            if (isa<ClassTemplateSpecializationDecl>(DC) && !isa<ClassTemplatePartialSpecializationDecl>(DC))
                instMember = true;
        j.boolean("inst", instMember);
        std::vector<std::string> es;
        for (const EnumConstantDecl *EC : ED->enumerators()) {
            J e;
            e.str("n", EC->getNameAsString());
            if (EC->getInitVal().getBitWidth() <= 64)
                e.num("v", EC->getInitVal().getExtValue());
            e.num("line", lineOf(EC->getLocation()));
            es.push_back(e.done());
        }
        j.raw("enumerators", jlist(es));
        enums.push_back(j.done());
    }

    void exportVar(const VarDecl *VD) {
        if (!VD->hasGlobalStorage() || !underRoot(VD->getLocation()))
            return;
        if (isa<ParmVarDecl>(VD))
            return;
        const VarDecl *Def = VD->getDefinition();
        if (!Def)
            Def = VD;
        if (!seenVar.insert(Def).second)
            return;
        VD = Def;
        J j;
        j.num("id", declId(VD));
        j.str("q", qname(VD));
        j.str("qf", qnameFull(VD));
        j.str("file", fileOf(VD->getLocation()));
        j.num("line", lineOf(VD->getLocation()));
        j.str("t", typeStr(VD->getType()));
        j.str("tk", typeKind(VD->getType()));
        j.boolean("constexpr", VD->isConstexpr());
        j.boolean("constq", VD->getType().isConstQualified());
        j.boolean("staticlocal", VD->isStaticLocal());
        j.boolean("member", VD->isStaticDataMember());
        bool dep = VD->getDeclContext()->isDependentContext() || VD->getType()->isDependentType();
        j.boolean("dependent", dep);
        bool instMember = false;
        for (const DeclContext *DC = VD->getDeclContext(); DC && !DC->isTranslationUnit(); DC = DC->getParent()) {
            if (isa<ClassTemplateSpecializationDecl>(DC) && !isa<ClassTemplatePartialSpecializationDecl>(DC))
                instMember = true;
            if (auto *FD = dyn_cast<FunctionDecl>(DC))
                if (FD->isTemplateInstantiation())
                    instMember = true;
            if (auto *SD = dyn_cast<ClassTemplateSpecializationDecl>(DC)) {
                std::string              s;
                llvm::raw_string_ostream os(s);
                printTemplateArgumentList(os, SD->getTemplateArgs().asArray(), PP);
                j.str("targs", os.str());
                break;
            }
        }
        j.boolean("inst", instMember);
        if (const Expr *Init = VD->getInit()) {
            FnCtx F;
            int   n = emit(F, Init);
            j.num("init", n);
            j.raw("nodes", jlist(F.nodes));
            if (!dep && !Init->isValueDependent() && !VD->isInvalidDecl()) {
                if (const APValue *V = VD->evaluateValue())
                    j.raw("val", apvalue(*V, VD->getType()));
            }
        }
        vars.push_back(j.done());
    }

    void write() {
        OS << "{\"functions\":" << jlist(functions) << ",\n\"records\":" << jlist(records) << ",\n\"enums\":" << jlist(enums)
           << ",\n\"vars\":" << jlist(vars) << "}\n";
    }
};

class Visitor : public RecursiveASTVisitor<Visitor> {
  public:
    Exporter &X;
    explicit Visitor(Exporter &x) : X(x) {}
    bool shouldVisitTemplateInstantiations() const { return true; }
    bool shouldVisitImplicitCode() const { return true; }
    bool VisitFunctionDecl(FunctionDecl *FD) {
        X.exportFunction(FD);
        return true;
    }
    bool VisitCXXRecordDecl(CXXRecordDecl *RD) {
        X.exportRecord(RD);
        return true;
    }
    bool VisitEnumDecl(EnumDecl *ED) {
        X.exportEnum(ED);
        return true;
    }
    bool VisitVarDecl(VarDecl *VD) {
        X.exportVar(VD);
        return true;
    }
};

class Consumer : public ASTConsumer {
  public:
    void HandleTranslationUnit(ASTContext &Ctx) override {
        if (Ctx.getDiagnostics().hasErrorOccurred()) {
            llvm::errs() << "qcheck: translation unit has errors, nothing exported\n";
            return;
        }
        std::error_code      EC;
        llvm::raw_fd_ostream OS(g_out, EC);
        if (EC) {
            llvm::errs() << "qcheck: cannot open " << g_out << "\n";
            return;
        }
        Exporter X(Ctx, OS);
        Visitor  V(X);
        V.TraverseDecl(Ctx.getTranslationUnitDecl());
        X.write();
    }
};

class Action : public ASTFrontendAction {
  public:
    std::unique_ptr<ASTConsumer> CreateASTConsumer(CompilerInstance &, llvm::StringRef) override {
        return std::make_unique<Consumer>();
    }
};

} // namespace

int main(int argc, const char **argv) {
    std::vector<std::string> flags;
    std::string              source;
    int                      i = 1;
    for (; i < argc; ++i) {
        std::string a = argv[i];
        if (a == "--")
            break;
        if (a == "--out" && i + 1 < argc)
            g_out = argv[++i];
        else if (a == "--root" && i + 1 < argc)
            g_roots.push_back(argv[++i]);
        else if (a == "--no-inst")
            g_inst = false;
        else if (a == "--no-pattern")
            g_pattern = false;
        else
            source = a;
    }
    for (++i; i < argc; ++i)
        flags.push_back(argv[i]);
    if (source.empty() || g_out.empty() || g_roots.empty()) {
        llvm::errs() << "usage: qcheck --out FILE --root PREFIX [--no-inst] [--no-pattern] SOURCE -- FLAGS\n";
        return 2;
    }
    tooling::FixedCompilationDatabase DB(".", flags);
    tooling::ClangTool                Tool(DB, {source});
    int rc = Tool.run(tooling::newFrontendActionFactory<Action>().get());
    return rc;
}
