"""What each registered check claims (source of MANIFEST.json; see gen_manifest.py)."""

TRUST = ("Trusted: clang 14 parser/CFG/constant evaluator/record layout as exported by tool/qcheck; the reference "
         "tables under tables/. ")

CLAIMS = {
    "C01": dict(
        text="Static analysis, partial: E-ZONE (difference-bound abstract interpretation over clang CFGs of the "
             "uninstantiated templates) proves every raw read of the template buffer and of value strings in the tag "
             "scanner, attribute parsers, expression scanner, word finder, string utilities and number scanner in "
             "bounds on every path, (pointer,length) arguments inside the buffer, no wrapped unsigned bound, and the "
             "Finder protocol (offset_ <= length_ preserved; a reported match implies offset_ <= length_). Further "
             "structural clauses (typed tag access, division guards, loop-item index, word tables) as listed in the "
             "evidence, among them loop progress (PROG): for 55 cursor-controlled loops the measure bound - cursor is "
             "proven to drop on every edge back to the loop head (ghost copies per iteration in E-ZONE); loops outside "
             "the domain are listed as not decided. Decides necessary memory-safety/termination clauses for all inputs; not the tag-offset "
             "data-structure invariants across parse->render.",
        note=TRUST + "Buffer contracts in tables/contracts.py; tag grammar assumption for getValue's one-past read; "
             "cursor+small constant does not overflow; by-reference parameters do not alias.",
        technique="static analysis: difference-bound abstract interpretation + typestate + table checks over the "
                  "exported clang AST/CFG",
        ref="DESIGN.md section 5 C01"),
    "C02": dict(
        text="Static analysis, partial: pattern literals and all declared Prefix/Suffix/attribute lengths in the five "
             "character specialisations against the documented tag spellings; finder word list, size, group and "
             "first-character tables and pattern IDs mutually consistent; parse/render dispatch arm per pattern ID / "
             "tag kind with the record of that kind; cursor protocol of the seven renderers; verbatim echo of "
             "unresolved tags; sort option bits; enclosing-loop pointer push/pop; the finder tries every word of a "
             "group; no code unit narrowed below 32 bits (width independence). Necessary structural clauses, not the "
             "equality of the output with the documented expansion.",
        note=TRUST + "Documented spellings in rules/C02.py (from Documentation/Template.md).",
        technique="static analysis: constant-table/literal agreement, switch dispatch and protocol checks over the exported AST",
        ref="DESIGN.md section 5 C02"),
    "C03": dict(
        text="Static analysis, partial: sink accounting of every stream write in renderVariable/renderSuperVariable "
             "(literal template slice, escaper call, or CopyValueTo with the escaper as string function), "
             "renderRawVariable never references the escaper, Value::CopyValueTo applies and forwards string_function; "
             "the escaper's switch rewrites exactly & < > \" ' with the entity of that character, flush and cursor "
             "updates checked per arm; entity literals/lengths in five specialisations and the pass-through "
             "look-ahead constants (guard/index/compare/skip) tied to the literal lengths; the config switch. Decides "
             "structural clauses; not the universally quantified string claims.",
        note=TRUST + "HTML entity table in rules/C03.py.",
        technique="static analysis: effect/sink accounting per renderer, switch-arm protocol, constant agreement",
        ref="DESIGN.md section 5 C03"),
    "C04": dict(
        text="Static analysis, partial: operator ranks vs the precedence groups parsed on every run from "
             "Documentation/Template.md; anchored rank comparisons of evaluate(); symbol->operator map of getOperation "
             "and operator->arithmetic dispatch of evaluateExpression arm by arm; every integer / and % in "
             "QExpression.hpp/Template.hpp has a non-zero constant divisor or a local divisor proven != 0 and != -1 by "
             "dominating tests (must-fact dataflow over the CFG); Division/Remainder arms return 'no value' under a "
             "typed zero test; relational operators promote integers to double (never truncate the real side) and "
             "are mirror images. Necessary structural conditions only: arithmetic results and the precedence-climbing "
             "loop itself are not decided.",
        note=TRUST + "Operator tables in rules/C04.py; the documentation section is the oracle for ranks.",
        technique="static analysis: enum/dispatch table checks, CFG must-facts for division guards, sibling comparison",
        ref="DESIGN.md section 5 C04"),
    "C05": dict(
        text="Static analysis, partial: difference-bound abstract interpretation (E-ZONE) over the clang CFG of the "
             "uninstantiated JSON parser, UnEscape and number scanner proves every raw read of the input buffer in "
             "bounds on every path, every (pointer,length) argument inside the caller's buffer, keyword-literal walks "
             "stopping at the terminator, and by-reference cursor guarantees on every exit -- for all inputs and all "
             "Char_T at once; loop progress (PROG) for 25 cursor-controlled loops (bound - cursor drops on every edge "
             "back to the loop head; the member loops of parseObject/parseArray, whose progress is a callee's, are "
             "listed as not decided). It decides the read-safety clauses and part of the termination clause, not "
             "write-side container safety or stack depth.",
        note=TRUST + "The per-function buffer contracts in tables/contracts.py (requires proven at call sites, ensures "
             "proven on every exit); assumes cursor+small constant does not overflow SizeT and by-reference "
             "parameters do not alias.",
        technique="static analysis: difference-bound abstract interpretation of cursors over clang CFGs "
                  "(libTooling exporter + Python engine)",
        ref="DESIGN.md section 5 C05, section 4.3 E-ZONE"),
    "C07": dict(
        text="Static analysis, partial: must-pass-through/typestate over the clang CFG of the uninstantiated parser: "
             "the success return of Parse is reached only with the zone fact offset == length; every failing exit of "
             "parseValue/parseObject/parseArray carries the sentinel offset >= length (path-partitioned by the "
             "Reset() typestate); containers are returned un-reset only right after the closing-bracket test; UnEscape "
             "rejects by returning 0 and both callers honour it. Decides the failure protocol on all paths.",
        note=TRUST + "Contracts table; does not decide the acceptance grammar of number/hex sub-scanners.",
        technique="static analysis: CFG must-analysis + partitioned zone facts (typestate x difference bounds)",
        ref="DESIGN.md section 5 C07"),
    "C06": dict(
        text="Static analysis, partial: E-TAB against RFC 8259 on the uninstantiated sources (all five character "
             "specialisations): escape-letter map of UnEscape, whitespace set, keyword literals and their lengths, "
             "structural character constants, value-start dispatch of parseValue with the routine/kind each arm must "
             "use, closing brackets and separators of the member loops, insert-or-replace for duplicate keys, plus "
             "the surrogate predicate value-set, pairing arithmetic and UTF encoders proven in a bit-level domain "
             "(shared with C20). Decides table/dispatch clauses that are necessary for the property; not the "
             "denotation of every document nor numeric accuracy.",
        note=TRUST + "Reference tables in rules/jsontab.py (RFC 8259 sections 2 and 7).",
        technique="static analysis: constant-table and switch-dispatch checks against RFC 8259, bit-vector path summaries",
        ref="DESIGN.md section 5 C06"),
    "C08": dict(
        text="Static analysis, partial: Escape's map (case labels, replacement table, range arms) composed with "
             "UnEscape's map is the identity; the exact set of units Escape rewrites (case labels plus value-sets of "
             "range conditions) contains everything RFC 8259 requires (0x00-0x1F, quote, backslash); the \\u00XX arm "
             "is proven to emit the unit's two hex digits (bit-vector + piecewise-linear domains); stringifyValue has "
             "an arm per kind with the right writer; containers skip Undefined members and patch the trailing comma; "
             "precision is forwarded. Decides escaping/structure clauses, not round-trip equality of numbers.",
        note=TRUST + "Reference: RFC 8259 section 7. Number text is C10/C11 territory.",
        technique="static analysis: table inversion, exact value-sets of range predicates, switch exhaustiveness",
        ref="DESIGN.md section 5 C08"),
    "C09": dict(
        text="Static analysis, thin: 64-bit overflow boundary constants (floor((2^64-1)/10) and its digit), signed "
             "limit, digit window, decimal range constants; power routines reached only after the range rejection "
             "(CFG reachability with the range test removed); power-of-five/ten and reciprocal tables exact (Python "
             "integers); every round-half-up step followed by the exponent carry; no negative numeral reaches "
             "`return Real` without the sign bit (path-partitioned typestate); scanner bounds by E-ZONE; no code unit "
             "narrowed below 32 bits. Does not decide accuracy (<= 1 ulp), rounding of ties, or magnitudes between "
             "DBL_MAX and 1e310.",
        note=TRUST + "Mathematical identities computed with Python integers.",
        technique="static analysis: constant/table identities, CFG dominance, sibling idiom pairing, typestate, zone bounds",
        ref="DESIGN.md section 5 C09"),
    "C10": dict(
        text="Static analysis, thin: digit tables, interval-proven table indices and unsigned-only instantiations of "
             "IntToString (instantiation view), IEEE-754 parameter tables, integer buffer-size formula for every "
             "width, inf/nan/zeros literals and the bounded insertZeros arguments (E-ZONE), power tables, and BORROW: "
             "no storage pointer borrowed from a stream is used after a call that may reallocate it (interprocedural "
             "may-release summaries computed from the model). Does not decide digit-exact equality with printf.",
        note=TRUST + "One stated assumption: the remainder of a division by 10^k prints at most k digits.",
        technique="static analysis: table identities, interval/piecewise-linear index bounds, borrow (stale pointer) dataflow",
        ref="DESIGN.md section 5 C10"),
    "C12": dict(
        text="Static analysis, partial: typestate of the tagged union over the CFG of every uninstantiated Value "
             "member (all Char_T): every touch of a union member happens with the payload proven to be of that "
             "member's kind or (re)initialises a zero/moved payload; no exit leaves a discriminant written "
             "independently of a payload that may own memory, or an owning kind over a payload of another kind; "
             "reset() only while in sync; copyValue's zero-entry contract at its call sites; and, with the record "
             "layout of the instantiation view, reset() zeroes all 16 payload bytes in every arm. Facts are derived "
             "from switch arms, isK() predicates discovered from their bodies, discriminant copies, equality of two "
             "discriminants, setType*, reset and Memory::Move, kept as a small disjunction per receiver. Decides "
             "necessary typestate clauses; not agreement with an abstract document model.",
        note=TRUST + "Assumes public methods re-establish the invariant payload kind == discriminant for other "
             "receivers; two named fall-through suppressions (Storage()/End()).",
        technique="static analysis: tagged-union typestate (disjunctive dataflow) + record-layout coverage",
        ref="DESIGN.md section 5 C12, section 4.3 E-TAG"),
    "C13": dict(
        text="Static analysis, partial: protocol and sibling checks over the uninstantiated HashTable/HArray/HList and "
             "StringUtils::Hash: hash never 0; Hash/Next written only by the table classes; every insert() reached with "
             "room (dominating capacity step, or a merge pre-sized from the raw slot counts with one insert per source "
             "slot); link/item pointers from find() not used after a possible reallocation (BORROW dataflow); "
             "remove()'s unlink/tombstone/clear; rehash after sort/resize/copy numbering every slot; bucket formula "
             "siblings and power-of-two capacity; Rename's append-before-unlink order under its two guards; a match by "
             "stored hash is confirmed by a key comparison. Matching "
             "is by data flow and field names, not by local variable names. Not decided: map semantics over histories.",
        note=TRUST + "Memory::AlignSize is assumed to return a power of two >= its argument.",
        technique="static analysis: protocol/ordering checks on the exported AST/CFG, sibling comparison, borrow dataflow",
        ref="DESIGN.md section 5 C13"),
    "C14": dict(
        text="Static analysis, partial: append siblings write their first element at Storage() + the size before the "
             "update (destination expression and order of the size update, per member of the family); borrowed "
             "storage pointers and self-aliasing element pointers (s += s, s = s.First() + n) are not used after a "
             "call that may release the storage (interprocedural may-release summaries + dataflow); String paths "
             "store the terminator at the length they set; First()[i] on a possibly empty String proven i < Length() "
             "(E-ZONE) and nullable pointer parameters dereferenced only under their test (CFG dominance); SIMD "
             "Shift/Size/intrinsics tables, the vector+tail shape of Copy/SetToZero and no register-wide access outside "
             "the counted vector loop (three configurations in the thorough tier); AlignSize; moved-from containers "
             "nulled; element references and same-class arguments that may alias the receiver (a += a[0], h += h) not used "
             "after a reallocation; no code unit narrowed below 32 bits. Not decided: sequence-model equality.",
        note=TRUST + "Byte-wise relocation of elements is assumed valid (no self-pointers).",
        technique="static analysis: sibling destination check, borrow/alias dataflow, zone bounds, CFG dominance, constant tables",
        ref="DESIGN.md section 5 C14"),
    "C15": dict(
        text="Static analysis, partial: the prefix-exhausted tail of IsLess/IsGreater must be asymmetric in the two "
             "lengths (decided by swapping the parameters in the exported expression and comparing normal forms) and "
             "the two functions are mirror images; the relational members of String/StringView delegate with the "
             "operand order and orEqual flag of their operator; Value's comparison operators use their own operator "
             "in every same-kind arm, order kinds by rank for < <= > >= and fall back symmetrically for ==; "
             "Memory::Sort permutes only through Swap, compares in the requested direction, covers both partitions "
             "and recurses only into the partition proven smaller (logarithmic depth); sorted tables are rehashed. "
             "Not decided: order axioms for all values, permutation result for all inputs.",
        note=TRUST,
        technique="static analysis: symmetry/normal-form argument on return expressions, sibling comparison, recursion-shape check",
        ref="DESIGN.md section 5 C15"),
    "C16": dict(
        text="Static analysis, partial: ownership typestate (E-OWN) of the storage block of Array, String, StringStream "
             "and HashTable on the CFG of every member that frees or retargets it -- the block owned on entry is released, "
             "saved, handed over or known null before the field is overwritten, released in the destructor, never "
             "released twice, never lost on an exit, and a block adopted from another owner is given up by that owner "
             "on every path (move constructors/assignments); callee summaries to a fixpoint. Borrowed/aliasing "
             "pointers and element references are not used after a call that may release the storage (all headers, "
             "interprocedural may-release summaries). Raw new/delete only at the Memory seam and Allocate/Deallocate "
             "only in owning classes; destructor/move/copy/reset of the three tagged unions have an arm for every "
             "owning kind and TagBit::Clear disposes before it deallocates; containers dispose elements before the "
             "block; a member destroyed in place is not used before re-initialisation; a same-type argument (possibly "
             "an element of the object: v = v[key]) is not read after the object released its content; values are "
             "constructed in place only in slots insert() just created; Make*Tag only on fresh "
             "records; Value's discriminant is never overwritten over an owning payload. Not decided: net-zero "
             "allocation over all operation histories.",
        note=TRUST + "Elements are assumed relocatable by byte copy; by-reference parameters alias the receiver only "
             "where the alias rule says so (element pointers/references).",
        technique="static analysis: ownership typestate dataflow with callee summaries, borrow/alias dataflow, who-may-call and exhaustiveness checks",
        ref="DESIGN.md section 5 C16"),
    "C17": dict(
        text="Static analysis, partial: effect analysis (E-FX) over the functions clang instantiates for Template::Render: "
             "memory regions are tracked as symbols through pointer/reference flow (owning storage pointers stay with "
             "their holder, non-owning ones may refer to the input), the roots input / stream / per-call context are "
             "pushed from TemplateCore::Render(tags, value, stream) down every call edge (the function-pointer call "
             "resolved from its actual targets), and every store, destructor, operator delete and write through a pointer "
             "argument of a body-less function in the ~360 reachable functions is classified: none lands in the value, "
             "the tag cache, the template text, a literal, static storage or an unknown region; statics read by the "
             "renderer have no writer in the unit; the stream is changed from outside StringStream only through its "
             "appenders (plus the number formatter's edits of its own digits); the renderer object and loop-item stack "
             "are automatic objects bound to the call's arguments; Template::Render parses only on the empty-cache "
             "branch and passes the cache by const reference. This decides the 'never modifies value/template/cache, "
             "no hidden state' clauses and, from them, the absence of conflicting writes between renders that use "
             "different streams. Not decided: byte identity (determinism of reads); no schedule is explored.",
        note=TRUST + "drivers/inst.cpp is assumed to instantiate the documented entry points; destructors of local "
             "containers release only memory of the call (C16).",
        technique="static analysis: interprocedural region/effect analysis with root propagation over the instantiated call graph, who-may-call and dominance checks",
        ref="DESIGN.md section 5 C17, section 4.3 E-FX"),
    "C18": dict(
        text="Static analysis, partial: in Value::GroupBy a value that carries the group's name (the key parameters or "
             "locals computed from them alone) is compared or looked up against something that varies per element, "
             "inside the element loop (taint flow; a position found once on the first element does not count); a match "
             "by stored hash is confirmed by a key comparison; on a removed member the walk continues (CFG "
             "reachability from the 'member is Undefined' edge must not reach a return before the loop condition); "
             "GroupBy and its callees write only the result and locals (effect summary of the instantiation view: no "
             "store into the receiver or anything reached through it), the result is reset to an object first; "
             "renderLoop passes the group attribute with the base the scanner recorded and groups/sorts a by-value "
             "working copy. Necessary structural clauses; not the partition equality.",
        note=TRUST,
        technique="static analysis: taint flow of the key parameters, CFG reachability, interprocedural effect summary (physical constness)",
        ref="DESIGN.md section 5 C18"),
    "C19": dict(
        text="Static analysis, thin: E-ZONE under the class invariant index_ <= MaxIndex() (assumed on entry, proven "
             "on every exit, re-assumed after calls) proves storage_[e] in range for the BigInt members whose index "
             "arithmetic fits difference bounds (the others are named as not decided); scan loops over storage_[i] "
             "bound i in their own condition, bound first; the bit scans scan and scale the same word; DoubleSize "
             "8/16/32 siblings agree and their shift equals the word width; Add/Subtract mirror; platform builtins "
             "match operand widths. Does not decide arithmetic exactness.",
        note=TRUST + "Members not decided for storage bounds: ShiftLeft/ShiftRight block moves, Multiply, Divide, "
             "doOperation, copy, SetIndex (caller contract).",
        technique="static analysis: difference-bound abstract interpretation with a class invariant, scan-shape and sibling checks",
        ref="DESIGN.md section 5 C19"),
    "C20": dict(
        text="Static analysis, partial but exhaustive over code points: every CFG path of the three "
             "UnicodeToUTF::ToUTF specialisations is summarised in a bit-level abstract domain (interval of the code "
             "point, emitted units as vectors of symbolic input bits) and proven equal to the Unicode encoding-form "
             "reference on each region, which covers all 1,112,064 scalars without enumerating them; the value-set of "
             "the high-surrogate predicate is computed exactly ([D800,DBFF]); the surrogate recombination is proven "
             "equal to ((hi&0x3FF)<<10 | lo&0x3FF)+0x10000 in the same domain; hex digit ranges/offsets; the \\u arm "
             "writes only through ToUTF and converts exactly four digits per escape.",
        note=TRUST + "Reference forms in rules/C20.py (Unicode ch.3 encoding forms). Shapes outside the bit-vector "
             "algebra are reported as ANALYSIS-BROKEN, never as a verdict. Cursor arithmetic selecting the digits is "
             "C05's bounds analysis, not value-checked.",
        technique="static analysis: path summaries in a bit-vector abstract domain + exact predicate value-sets",
        ref="DESIGN.md section 5 C20"),
}

NA = {
    "C11": "joint numeric round-trip of two approximate conversions; no clause is visible in the shape of the code "
           "beyond the tables checked under C09/C10 (DESIGN.md section 6)",
}
