#include <new>
#include <cstdio>
#include <cstring>
#include <cstdlib>
#include "JSON.hpp"
#include "Template.hpp"
using namespace Qentem;
static char *exact(const char *s, size_t n){ char *p=(char*)malloc(n?n:1); memcpy(p,s,n); return p; }
static void js(const char*s){ size_t n=strlen(s); char*p=exact(s,n); Value<char> v=JSON::Parse(p,(SizeT)n); printf("json %-22s undef=%d %s\n",s,(int)v.IsUndefined(), v.IsUndefined()?"":v.Stringify().First()); free(p);}
static void tp(const char*s,const char*j){ size_t n=strlen(s); char*p=exact(s,n); Value<char> v=JSON::Parse(j); StringStream<char> ss; Template::Render(p,(SizeT)n,v,ss); ss.InsertNull(); printf("tmpl %-40s => %s\n",s,ss.First()); free(p);}
int main(){
  js("{\"abc"); js("{"); js("[\"a\\"); js("{\"a\""); js("{\"a\":"); js("   "); js("["); js("[{\"a\":1 x,2]"); js("[[1 x,2]"); js("{\"k\":[1 x,\"b\":2}"); js("[\"\\uD900\\uDC00\"]"); js("{\"a\":[1,{\"b\":null}],\"c\":\"x\"}");
  tp("<if case=\"1\"><if case=\"1\"><loop value=\"v\">{var:v}</loop></if></if>","[1,2,3]");
  tp("{math: 5 % 0}","[1]"); tp("{math: 5 % 0.5}","[1]"); tp("{math: -9223372036854775808 % -1}","[1]"); tp("{math: 9 % 5}","[1]");
  tp("<loop value=\"a\"><if case=\"1\"></loop>x","[1]"); tp("{math:1+<else","[1]"); tp("{var:a]}","{\"a]\":[7]}");
  { const char*s="1|"; char*p=exact(s,2); auto e=TemplateCore<char,Value<char>,StringStream<char>>::ParseExpressions(p,2); printf("exprs n=%u\n",e.Size()); free(p);}
  { Value<char> v; v="abc"; v=ValueType::Null; printf("retag null=%d\n",(int)v.IsNull()); }
  { String<char> s; printf("empty==a:%d empty==\"\":%d\n",(int)(s=="a"),(int)(s=="")); String<char> t("ab"); printf("ab==ab:%d ab==abc:%d ab==a:%d\n",(int)(t=="ab"),(int)(t=="abc"),(int)(t=="a")); }
  { Value<char> a=JSON::Parse("{\"a\":1}"), b=JSON::Parse("[1]"); printf("obj==arr:%d arr==obj:%d\n",(int)(a==b),(int)(b==a)); }
  { alignas(16) unsigned char buf[sizeof(Value<char>)]; memset(buf,0xAB,sizeof(buf)); Value<char>*v=new(buf) Value<char>(SizeT64{5}); (*v)+=1; printf("num->array size=%u\n",v->Size()); v->~Value(); }
  { StringStream<char> s; s+="abcdefgh"; for(int i=0;i<6;i++) s+=s; printf("self-append len=%u\n",s.Length()); }
  { Array<String<char>> a; a+=String<char>("x"); a+=String<char>("y"); Array<String<char>> b; b+=String<char>("p"); b+=String<char>("q"); a+=b; printf("arr+=arr: %s %s %s %s (%u)\n",a.Storage()[0].First(),a.Storage()[1].First(),a.Storage()[2].First(),a.Storage()[3].First(),a.Size()); }
  { String<char> a("a"), b("ab"); printf("a<ab:%d ab>a:%d a>ab:%d a<=ab:%d\n",(int)(a<b),(int)(b>a),(int)(a>b),(int)(a<=b)); }
  { Value<char> v=JSON::Parse("[{\"y\":1,\"m\":2},{\"m\":5,\"y\":1},{\"z\":0,\"y\":2,\"m\":9}]"); v[2].Remove("z"); Value<char> g; bool ok=v.GroupBy(g,"y"); printf("group ok=%d %s\n",(int)ok,g.Stringify().First()); }
  { using Q=QExpression; Array<Q> s1; s1+=Q{Q::ExpressionType::NaturalNumber,Q::QOperation::NoOp}; Array<Q> s2; s2+=Q{Q::ExpressionType::NaturalNumber,Q::QOperation::NoOp}; Q a{Memory::Move(s1),Q::QOperation::NoOp}; Q b{Memory::Move(s2),Q::QOperation::NoOp}; a=Memory::Move(b); printf("qexpr move ok %u\n",a.SubExpressions.Size()); }
  { Value<char> v; v+="a\x01""b"; printf("ctrl: %s\n", v.Stringify().First()); Value<char> w=JSON::Parse(v.Stringify().First()); printf("ctrl rt equal=%d\n",(int)(*(w.GetValue(0)->GetString())==*(v.GetValue(0)->GetString()))); }
  { BigInt<SizeT64,256> z; z<<=64U; printf("bigint zero shift idx=%u\n", z.Index()); BigInt<SizeT64,256> o{1ULL}; o<<=130U; printf("ffb=%u\n", o.FindFirstBit()); }
  return 0; }
