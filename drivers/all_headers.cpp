// Pattern-view unit: every library header, nothing instantiated on purpose.
#include <new>
#include "Template.hpp"
#include "JSON.hpp"
#include "Value.hpp"
#include "HList.hpp"
#include "HArray.hpp"
#include "BigInt.hpp"
#include "Digit.hpp"
#include "Unicode.hpp"
#include "StringStream.hpp"
#include "String.hpp"
#include "StringView.hpp"
#include "Array.hpp"
int main() { return 0; }
