// Instantiation-view unit: uses the public API so that clang instantiates the members the
// checks need with resolved callees, complete record layouts and evaluated constants.
// Never executed; only parsed by tool/qcheck.  -DQCHAR=<char type> selects the character width.
#include <new>

#include "Template.hpp"
#include "JSON.hpp"
#include "Value.hpp"
#include "HList.hpp"
#include "HArray.hpp"
#include "BigInt.hpp"
#include "Digit.hpp"
#include "Unicode.hpp"
#include "StringStream.hpp"
#include "String.hpp"
#include "StringView.hpp"
#include "Array.hpp"

#ifndef QCHAR
#define QCHAR char
#endif

using namespace Qentem;
using Ch  = QCHAR;
using Val = Value<Ch>;
using Str = String<Ch>;
using SS  = StringStream<Ch>;
using SV  = StringView<Ch>;

static const Ch *txt() {
    static const Ch t[] = {'a', 0};
    return t;
}

void use_json(const Ch *p, SizeT n) {
    Val v = JSON::Parse(p, n);
    Val w = JSON::Parse(p);
    SS  ss;
    v.Stringify(ss, 17U);
    Str s = v.Stringify();
    (void)w;
    (void)s;
}

void use_template(const Ch *p, SizeT n, const Val &v) {
    SS                  ss;
    Array<Tags::TagBit> cache;
    Template::Render(p, n, v, ss, cache);
    Template::Render(p, n, v, ss);
    Template::Render(p, v, ss);
    SS s2 = Template::Render<SS>(p, n, v);
    SS s3 = Template::Render<SS>(p, v);
    Array<Tags::TagBit> c2{cache};
    Array<Tags::TagBit> c3{Memory::Move(c2)};
    c3.Clear();
    TemplateCore<Ch, Val, SS> core{p, n};
    QExpression               num;
    auto                      ex = TemplateCore<Ch, Val, SS>::ParseExpressions(p, n);
    core.Evaluate(num, ex, v);
    QExpression q2{num};
    QExpression q3{Memory::Move(q2)};
    q3 = Memory::Move(num);
}

void use_value(Val &v, const Val &c, const Ch *p, SizeT n) {
    Val a;
    Val b{c};
    Val d{Memory::Move(b)};
    a = c;
    a = Memory::Move(d);
    a = ValueType::Null;
    a = 5;
    a = -5;
    a = 5U;
    a = 5.5;
    a = true;
    a = nullptr;
    a = p;
    a = Str{p};
    a = SV{p, n};
    a = Val::ObjectT{};
    a = Val::ArrayT{};
    a += c;
    a += Val{c};
    a += p;
    a += Str{p};
    a += 3;
    a += 3.5;
    a += true;
    a += nullptr;
    a += Val::ObjectT{};
    a += Val::ArrayT{};
    a[p]          = 1;
    a[Str{p}]     = 2;
    a[SV{p, n}]   = 3;
    a[SizeT{0}]   = 4;
    a[0]          = 5;
    a.Get(p, n) = 1;
    a.Merge(c);
    a.Merge(Val{c});
    a.Remove(p);
    a.Remove(Str{p});
    a.Remove(p, n);
    a.RemoveIndex(0U);
    a.Reset();
    a.Compress();
    a.Sort(true);
    a.Sort(false);
    Val g;
    c.GroupBy(g, p);
    c.GroupBy(g, p, n);
    (void)c.GetValue(0U);
    (void)c.GetValue(p);
    (void)c.GetValue(p, n);
    (void)c.GetKey(0U);
    (void)c.GetObject();
    (void)c.GetArray();
    (void)c.GetString();
    (void)c.GetStringView();
    (void)c.StringStorage();
    (void)c.Length();
    (void)c.Size();
    (void)c.GetNumber();
    (void)c.GetDouble();
    (void)c.GetInt64();
    (void)c.GetUInt64();
    (void)c.GetNumberType();
    bool bo;
    (void)c.SetBool(bo);
    QNumber64 qn;
    (void)c.SetNumber(qn);
    const Ch *kp;
    SizeT     kl;
    (void)c.SetCharAndLength(kp, kl);
    SV        key;
    const Val *out;
    c.SetValueAndKey(0U, out, key);
    c.SetValueKeyLength(0U, out, kp, kl);
    SS ss;
    (void)c.CopyValueTo(ss);
    (void)c.CopyKeyByIndexTo(ss, 0U);
    (void)(c == a);
    (void)(c < a);
    (void)(c > a);
    (void)(c <= a);
    (void)(c >= a);
    (void)c.IsObject();
    (void)c.IsArray();
    (void)c.IsString();
    (void)c.IsNumber();
    (void)c.IsTrue();
    (void)c.IsFalse();
    (void)c.IsNull();
    (void)c.IsUndefined();
    (void)c.Type();
    v.SetPointerToValue(&a);
    a.AddPointerToValue(&v);
    (void)v.First();
    (void)v.Last();
}

void use_containers(const Ch *p, SizeT n) {
    Str s1;
    Str s2{p};
    Str s3{p, n};
    Str s4{s3};
    Str s5{Memory::Move(s4)};
    Str s6{n};
    s1 = s2;
    s1 = Memory::Move(s5);
    s1 = p;
    s1 += s2;
    s1 += Str{p};
    s1 += p;
    s1.Write(p, n);
    s1.Reset();
    (void)(s1 == s2);
    (void)(s1 != s2);
    (void)(s1 < s2);
    (void)(s1 <= s2);
    (void)(s1 > s2);
    (void)(s1 >= s2);
    (void)(s1 == p);
    (void)(s1 != p);
    (void)s1.IsEqual(p, n);
    s1.Reverse();
    s1.StepBack(1U);
    s1.InsertAt(Ch{'a'}, 0U);
    (void)Str::Trim(s1);
    (void)Str::Merge(s1, s2);
    Ch *det = s1.Detach();
    Memory::Deallocate(det);
    (void)s1.First();
    (void)s1.Last();
    (void)s1.End();
    (void)s1.Storage();
    (void)s1.Length();

    SV v1;
    SV v2{p};
    SV v3{p, n};
    (void)(v1 == v2);
    (void)(v1 != v3);
    (void)(v1 < v2);
    (void)(v1 <= v2);
    (void)(v1 > v2);
    (void)(v1 >= v2);
    (void)v1.IsEqual(p, n);

    SS t1;
    SS t2{8U};
    SS t3{t2};
    SS t4{Memory::Move(t3)};
    t1 = t2;
    t1 = Memory::Move(t4);
    t1 += Ch{'x'};
    t1 += p;
    t1 += s2;
#ifndef QWIDE
    t1 += v2; // StringStream::operator+=(const StringView<char> &) is typed with char upstream
#endif
    t1 += t2;
    t1 << p << s2 << Ch{'c'} << t2;
    t1.Write(p, n);
    (void)t1.Buffer(4U);
    t1.Expect(4U);
    t1.Reserve(4U);
    t1.StepBack(1U);
    t1.Reverse();
    t1.InsertNull();
    t1.InsertAt(Ch{'a'}, 0U);
    t1.SetLength(0U);
    t1.Clear();
    t1.Reset();
    (void)(t1 == t2);
    (void)(t1 == s2);
    (void)(t1 == p);
    (void)(t1 != t2);
    (void)t1.GetString();
    (void)t1.GetStringView();
    Ch *dt = t1.Detach();
    Memory::Deallocate(dt);

    Array<Str> a1;
    Array<Str> a2{4U};
    Array<Str> a3{a2};
    Array<Str> a4{Memory::Move(a3)};
    a1 = a2;
    a1 = Memory::Move(a4);
    a1 += s2;
    a1 += Str{p};
    a1 += a2;
    a1 += Array<Str>{a2};
    (void)a1.Insert(s2);
    (void)a1.Insert(Str{p});
    a1.Reserve(4U);
    a1.ResizeAndInitialize(4U);
    a1.Resize(2U);
    a1.Expect(2U);
    a1.Compress();
    a1.Drop(1U);
    a1.Sort(true);
    a1.Swap(s1, s2);
    a1.Clear();
    a1.Reset();
    Str *da = a1.Detach();
    (void)da;
    Array<SizeT32> n1;
    n1 += 5U;
    n1.Sort(false);

    HArray<Str, Val> h1;
    HArray<Str, Val> h2{4U};
    HArray<Str, Val> h3{h2};
    HArray<Str, Val> h4{Memory::Move(h3)};
    h1 = h2;
    h1 = Memory::Move(h4);
    h1[s2]       = 1;
    h1[Str{p}]   = 2;
    h1[p]        = 3;
    h1.Get(p, n) = 4;
    h1.Insert(s2, Val{1});
    h1.Insert(Str{p}, Val{1});
    h1.Insert(p, n, Val{2});
    h1 += h2;
    h1 += HArray<Str, Val>{h2};
    (void)h1.GetValue(s2);
    (void)h1.GetValue(p, n);
    (void)h1.GetValue(0U);
    (void)h1.GetKey(0U);
    (void)h1.GetItem(s2);
    (void)h1.GetItem(0U);
    (void)h1.Has(s2);
    SizeT idx;
    (void)h1.GetKeyIndex(idx, s2);
    (void)h1.Rename(s2, s3);
    h1.Remove(s2);
    h1.Remove(p);
    h1.RemoveIndex(0U);
    h1.Reserve(4U);
    h1.Resize(4U);
    h1.Expect(2U);
    h1.Compress();
    h1.Sort(true);
    h1.Clear();
    h1.Reset();
    (void)h1.ActualSize();

    HList<Str> l1;
    HList<Str> l2{4U};
    HList<Str> l3{l2};
    HList<Str> l4{Memory::Move(l3)};
    l1 = l2;
    l1 = Memory::Move(l4);
    l1.Insert(s2);
    l1.Insert(Str{p});
    l1 += l2;
    l1 += HList<Str>{l2};
    (void)l1.Has(s2);
    l1.Remove(s2);
    l1.RemoveIndex(0U);
    (void)l1.Rename(s2, s3);
    l1.Sort(false);
    l1.Resize(4U);
    l1.Compress();
}

void use_digit(const Ch *p, SizeT n) {
    SS        ss;
    QNumber64 q;
    SizeT     off = 0;
    (void)Digit::StringToNumber(q, p, off, n);
    (void)Digit::StringToNumber(q, p, n);
    SizeT32 u32;
    Digit::FastStringToNumber(u32, p, n);
    (void)Digit::HexStringToNumber<SizeT32>(p, n);
    Digit::NumberToString(ss, SizeT8{1});
    Digit::NumberToString(ss, SizeT8I{-1});
    Digit::NumberToString(ss, SizeT16{1});
    Digit::NumberToString(ss, SizeT16I{-1});
    Digit::NumberToString(ss, SizeT32{1});
    Digit::NumberToString(ss, SizeT32I{-1});
    Digit::NumberToString(ss, SizeT64{1});
    Digit::NumberToString(ss, SizeT64I{-1});
    Digit::NumberToString(ss, 1.5);
    Digit::NumberToString(ss, 1.5F);
    Digit::NumberToString(ss, 1.5, Digit::RealFormatInfo{6U, Digit::RealFormatType::Fixed});
    Digit::NumberToString(ss, 1.5, Digit::RealFormatInfo{6U, Digit::RealFormatType::SemiFixed});
    Digit::NumberToString<true>(ss, SizeT32{1});
    Unicode::ToUTF<Ch>(0x10FFFFU, ss);
}

void use_bigint() {
    BigInt<SizeT64, 256U> a{5ULL};
    BigInt<SizeT32, 256U> b{5U};
    BigInt<SizeT16, 128U> c{SizeT16{5}};
    BigInt<SizeT8, 64U>   d{SizeT8{5}};
    a += 3ULL;
    a -= 1ULL;
    a *= 7ULL;
    (void)(a /= 3ULL);
    a <<= 70U;
    a >>= 3U;
    a |= 1ULL;
    a &= 3ULL;
    (void)a.FindFirstBit();
    (void)a.FindLastBit();
    (void)a.IsBig();
    (void)a.NotZero();
    (void)a.IsZero();
    (void)(a == 1ULL);
    (void)(a != 1ULL);
    (void)(a < 1ULL);
    (void)(a <= 1ULL);
    (void)(a > 1ULL);
    (void)(a >= 1ULL);
    (void)SizeT64(a);
    b += 3U;
    b -= 1U;
    b *= 7U;
    (void)(b /= 3U);
    b <<= 40U;
    b >>= 3U;
    (void)b.FindFirstBit();
    c += SizeT16{3};
    c *= SizeT16{7};
    (void)(c /= SizeT16{3});
    c <<= 20U;
    c >>= 3U;
    d += SizeT8{3};
    d *= SizeT8{7};
    (void)(d /= SizeT8{3});
    d <<= 10U;
    d >>= 3U;
}

int main() {
    Val v;
    use_json(txt(), 1U);
    use_template(txt(), 1U, v);
    use_value(v, v, txt(), 1U);
    use_containers(txt(), 1U);
    use_digit(txt(), 1U);
    use_bigint();
    return 0;
}
