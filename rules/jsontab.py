"""Shared table extraction for the JSON rules (C06, C08): escape maps, whitespace, keywords."""
from qlib import astq, tab
from qlib.model import AnalysisBroken

RFC8259_ESCAPES = {ord('"'): 0x22, ord("\\"): 0x5C, ord("/"): 0x2F, ord("b"): 0x08, ord("f"): 0x0C, ord("n"): 0x0A,
                   ord("r"): 0x0D, ord("t"): 0x09}
RFC8259_WS = {0x20, 0x09, 0x0A, 0x0D}
MUST_ESCAPE = set(range(0x20)) | {0x22, 0x5C}


def const_of(m, fn, nid):
    """integer value of a (possibly dependent) constant expression"""
    return m.eval_nodes(fn.nodes, fn.strip_casts(nid))


def label_value(m, fn, label):
    name, val = label
    if val is not None:
        return val
    if name and name != "default":
        return m.resolve_dep_const(name)
    return None


def stream_writes(fn, root, stream_name="stream"):
    """[(node id, emitted expression node id)] for `stream += X` under root, in source order"""
    out = []
    for i in fn.walk(root):
        n = fn.nodes[i]
        if n["k"] in ("CompoundAssignOperator",) and n["op"] == "+=":
            lhs = fn.nodes[fn.strip(n["ch"][0])]
            if lhs["k"] == "DeclRefExpr" and lhs["n"] == stream_name:
                out.append((i, n["ch"][1]))
        elif n["k"] == "CXXOperatorCallExpr" and n.get("op") == "+=":
            a = fn.call_args(i)
            lhs = fn.nodes[fn.strip(a[0])]
            if lhs["k"] == "DeclRefExpr" and lhs["n"] == stream_name:
                out.append((i, a[1]))
    return out


def unescape_map(m):
    """letter -> code unit emitted by UnEscape for `\\letter` (identity arms map to themselves);
    also returns the labels that lead to the hex path"""
    ue = m.fn("Qentem::JSONUtils::UnEscape")
    sws = astq.nodes_of(ue, "SwitchStmt")
    if len(sws) < 2:
        raise AnalysisBroken("UnEscape: inner escape switch not found")
    inner = sws[1]
    swvar = ue.nodes[ue.strip(ue.nodes[inner]["cond"])]
    mp, hexlabels, where = {}, [], {}
    for labels, stmts in astq.switch_arms(ue, inner):
        vals = [label_value(m, ue, l) for l in labels if l[0] != "default"]
        if any(l[0] == "default" for l in labels):
            continue
        ws = [w for s in stmts for w in stream_writes(ue, s)]
        hexy = any(astq.calls(ue, "HexStringToNumber", s) for s in stmts)
        for v in vals:
            where[v] = ue.loc(stmts[0]) if stmts else ue.loc(inner)
            if hexy:
                hexlabels.append(v)
                continue
            if len(ws) != 1:
                mp[v] = None
                continue
            en = ue.nodes[ue.strip(ws[0][1])]
            if en["k"] == "DeclRefExpr" and en.get("d") == swvar.get("d"):
                mp[v] = v
            else:
                mp[v] = const_of(m, ue, ws[0][1])
    return ue, mp, hexlabels, where


def escape_map(m):
    """(fn, {unit: ('\\\\', letter)} for units Escape turns into a two-character escape,
    set of units escaped as \\u00XX by a range arm, where)"""
    es = m.fn("Qentem::JSONUtils::Escape")
    sws = astq.nodes_of(es, "SwitchStmt")
    if len(sws) != 1:
        raise AnalysisBroken("Escape: expected one switch")
    sw = sws[0]
    swvar = es.nodes[es.strip(es.nodes[sw]["cond"])]
    table = None
    tv = tab.local_table(m, "Qentem::JSONUtils::JSONotation_T::GetReplacementChar", "ReplaceList")
    table = tab.var_list(m, tv[0])
    bslash = m.resolve_dep_const("JSONotation::BSlashChar")
    mp, where = {}, {}
    ranges = []
    for labels, stmts in astq.switch_arms(es, sw):
        ws = [w for s in stmts for w in stream_writes(es, s)]
        is_default = any(l[0] == "default" for l in labels)
        if is_default:
            # range arms: if (cond on the unit) { ... stream += BSlash ... }
            for s in stmts:
                for i in astq.nodes_of(es, "IfStmt", s):
                    n = es.nodes[i]
                    w2 = stream_writes(es, n["then"])
                    if w2 and const_of(m, es, w2[0][1]) == bslash:
                        ranges.append((i, n["cond"], w2))
            continue
        if not ws or const_of(m, es, ws[0][1]) != bslash or len(ws) != 2:
            continue
        for l in labels:
            v = label_value(m, es, l)
            where[v] = es.loc(stmts[0])
            en = es.nodes[es.strip(ws[1][1])]
            if en["k"] == "DeclRefExpr" and en.get("d") == swvar.get("d"):
                mp[v] = v
            elif en["k"] in ("CallExpr",) and es.call_simple_name(es.strip(ws[1][1])) == "GetReplacementChar":
                mp[v] = table[v] if table is not None and v is not None and v < len(table) else None
            else:
                mp[v] = const_of(m, es, ws[1][1])
    return es, mp, ranges, where, swvar, table
