"""C20 -- code points encode to standard UTF-8/16/32 and \\u escapes decode to them (structural clauses)."""
from qlib import astq, tab, bitsym
from qlib.bitsym import Val, Var, Unrecognised
from qlib.model import AnalysisBroken
from qlib.report import Rule

META = {
    "explanation": "E-TAB with a bit-level abstract domain: (TB-utf) every CFG path of the three UnicodeToUTF::ToUTF "
                   "specialisations is summarised as (interval of the code point, emitted units as vectors of symbolic "
                   "input bits) and compared, region by region of the Unicode encoding-form table, with the reference "
                   "encoder evaluated in the same domain -- equality in the domain implies equality on every code point "
                   "of the region, so all 1,112,064 scalars are covered without enumerating them; (X-surrogate) the "
                   "value-set of the predicate that sends a \\u code to the pairing branch is computed exactly and must "
                   "be [D800,DBFF]; (TB-recombine) the pairing arithmetic is evaluated in the same domain against "
                   "((hi & 0x3FF) << 10 | (lo & 0x3FF)) + 0x10000; (TB-hex) hex-digit ranges and offsets; (FX-utf) the "
                   "\\u arm writes to the stream only through Unicode::ToUTF and reads exactly four digits per escape.",
    "not_decided": "that UnEscape's cursor arithmetic selects the right four digits for every input (bounds are C05's)",
    "assumptions": ["a four-digit hex value is < 0x10000", "Char_T has the width its specialisation selects"],
}
META["explanation"] += " " + 'TB-utf additionally: the dispatcher Unicode::ToUTF forwards its code point to the encoder unchanged; TB-recombine follows locals of the pairing block.'
META["explanation"] += " " + '(BORROW) no raw pointer into the output stream outlives a growth of the stream in the encoders and in UnEscape.'

UNICODE_MAX = 0x10FFFF


META["explanation"] += " " + 'Taken over unchanged from other modules because a seeded change to this property was reported by them (rules.common.shared): SB-bytes from C14; BORROW from C05.'

META["explanation"] += " " + 'Also taken over (a rule id already present here is kept as id/module): ZB-read/BORROW from C05.'

def C(x):
    return Val.const(x)


def OR(a, b):
    return bitsym.binop("|", a, b)


def AND(a, b):
    return bitsym.binop("&", a, b)


def SHR(a, k):
    return bitsym.binop(">>", a, C(k))


# reference encoders: region -> (derivation, function of the (derived) input value -> list of units)
REFERENCE = {
    1: [((0x00, 0x7F), None, lambda u: [u]),
        ((0x80, 0x7FF), None, lambda u: [OR(C(0xC0), SHR(u, 6)), OR(C(0x80), AND(u, C(0x3F)))]),
        ((0x800, 0xFFFF), None, lambda u: [OR(C(0xE0), SHR(u, 12)), OR(C(0x80), AND(SHR(u, 6), C(0x3F))),
                                           OR(C(0x80), AND(u, C(0x3F)))]),
        ((0x10000, UNICODE_MAX), None, lambda u: [OR(C(0xF0), SHR(u, 18)), OR(C(0x80), AND(SHR(u, 12), C(0x3F))),
                                                  OR(C(0x80), AND(SHR(u, 6), C(0x3F))), OR(C(0x80), AND(u, C(0x3F)))])],
    2: [((0x0000, 0xFFFF), None, lambda u: [u]),
        ((0x10000, UNICODE_MAX), 0x10000, lambda v: [OR(C(0xD800), SHR(v, 10)), OR(C(0xDC00), AND(v, C(0x3FF)))])],
    4: [((0x0000, UNICODE_MAX), None, lambda u: [u])],
}


class PathEval:
    """evaluates one CFG path of an encoder under an initial interval of the code point"""

    def __init__(self, fn, param, lo, hi, width_bits):
        self.fn = fn
        self.param = param          # decl id of the code point parameter
        self.var = Var("u", lo, hi)
        self.sub = 0                # current value of the parameter == u - sub
        self.out = []
        self.width = width_bits
        self.override = None        # the parameter was overwritten by a constant on this path

    def cur(self):
        if self.override is not None:
            return self.override
        v = self.var.copy()
        return Val(v.bits())

    def expr(self, nid):
        fn = self.fn
        nid = fn.strip(nid)
        n = fn.nodes[nid]
        k = n["k"]
        if "cv" in n and k != "DeclRefExpr":
            return Val.const(n["cv"])
        if k == "DeclRefExpr":
            if n.get("d") == self.param:
                return self.cur()
            raise Unrecognised("reference to %s" % n["n"])
        if k in ("CXXFunctionalCastExpr", "CXXStaticCastExpr", "CStyleCastExpr", "CXXUnresolvedConstructExpr"):
            ty = n.get("ty", n.get("t", ""))
            inner = self.expr(n["ch"][0])
            if "Char_T" in ty:
                return bitsym.truncate(inner, self.width)
            return inner
        if k == "InitListExpr" and len(n.get("ch", [])) == 1:
            return self.expr(n["ch"][0])
        if k == "BinaryOperator" and n["op"] in ("|", "&", "^", "<<", ">>", "+"):
            return bitsym.binop(n["op"], self.expr(n["ch"][0]), self.expr(n["ch"][1]))
        raise Unrecognised("expression %s" % fn.text(nid))

    def cond(self, nid, truth):
        fn = self.fn
        n = fn.nodes[fn.strip(nid)]
        if n["k"] != "BinaryOperator" or n["op"] not in ("<", "<=", ">", ">=", "==", "!="):
            raise Unrecognised("condition %s" % fn.text(nid))
        a, b = n["ch"]
        an = fn.nodes[fn.strip(a)]
        c = fn.const_value(b)
        op = n["op"]
        if not (an["k"] == "DeclRefExpr" and an.get("d") == self.param and c is not None):
            raise Unrecognised("condition %s" % fn.text(nid))
        if not truth:
            op = {"<": ">=", "<=": ">", ">": "<=", ">=": "<", "==": "!=", "!=": "=="}[op]
        if self.override is not None:
            x = self.override.const_value()
            return {"<": x < c, "<=": x <= c, ">": x > c, ">=": x >= c, "==": x == c, "!=": x != c}[op]
        return bitsym.refine_cmp(self.var, op, c)

    def step_el(self, e):
        fn = self.fn
        n = fn.nodes[e["n"]]
        k = n["k"]
        if k == "CompoundAssignOperator":
            lhs = fn.nodes[fn.strip(n["ch"][0])]
            if lhs["k"] == "DeclRefExpr" and lhs.get("d") == self.param:
                c = fn.const_value(n["ch"][1])
                if n["op"] == "-=" and c is not None and self.var.lo >= c:
                    self.var = Var("v", self.var.lo - c, self.var.hi - c)
                    self.sub += c
                    return
                raise Unrecognised("update %s" % fn.text(e["n"]))
            # stream += unit
            if n["op"] == "+=":
                self.out.append(self.expr(n["ch"][1]))
                return
            raise Unrecognised("statement %s" % fn.text(e["n"]))
        if k == "CXXOperatorCallExpr" and n.get("op") == "+=":
            self.out.append(self.expr(fn.call_args(e["n"])[1]))
            return
        if k == "BinaryOperator" and n["op"] == "=":
            lhs = fn.nodes[fn.strip(n["ch"][0])]
            c = fn.const_value(n["ch"][1])
            if lhs["k"] == "DeclRefExpr" and lhs.get("d") == self.param and c is not None:
                self.override = Val.const(c)
                return
            raise Unrecognised("assignment %s" % fn.text(e["n"]))
        if k in ("CallExpr", "CXXMemberCallExpr"):
            raise Unrecognised("call %s" % fn.text(e["n"]))
        if k == "UnaryOperator" and n["op"] in ("++", "--"):
            raise Unrecognised("update %s" % fn.text(e["n"]))


def summarise(fn, param, lo, hi, width):
    """[(interval of u, sub, outputs)] for every feasible path under u in [lo,hi]"""
    out = []
    for steps in tab.paths(fn):
        pe = PathEval(fn, param, lo, hi, width)
        feasible = True
        for s in steps:
            if s[0] == "el":
                pe.step_el(s[1])
            elif s[0] == "cond":
                if not pe.cond(s[1], s[2]):
                    feasible = False
                    break
            else:
                raise Unrecognised("switch in encoder")
        if feasible:
            out.append(((pe.var.lo + pe.sub, pe.var.hi + pe.sub), pe.sub, pe.out, pe.var))
    return out


def rule_utf(ctx, m):
    r = Rule("TB-utf", "every path of UnicodeToUTF::ToUTF equals the reference encoding form on its interval (bit-level domain)", floor=7)
    fns = m.fns("Qentem::Unicode::UnicodeToUTF::ToUTF", pattern=True)
    # the dispatcher in front of the three encoders hands its code point on unchanged
    for dsp in [g for g in m.fns("Qentem::Unicode::ToUTF", pattern=True, required=False) if not g.inst]:
        ctx.note_fn(dsp)
        cp = dsp.params[0]
        writes = [dsp.text(x)[:50] for x in dsp.walk() if dsp.nodes[x]["k"] in ("BinaryOperator", "CompoundAssignOperator", "UnaryOperator") and
                  (dsp.nodes[x].get("op", "").endswith("=") and dsp.nodes[x]["op"] not in ("==", "!=", "<=", ">=") or dsp.nodes[x].get("op") in ("++", "--")) and
                  dsp.nodes[dsp.strip(dsp.nodes[x]["ch"][0])].get("d") == cp["d"]]
        cs_ = [c for c in astq.calls(dsp) if (dsp.call_simple_name(c) or "") == "ToUTF"]
        fwd = len(cs_) == 1 and dsp.nodes[dsp.strip(dsp.call_args(cs_[0])[0])].get("d") == cp["d"]
        branches = astq.nodes_of(dsp, ("IfStmt", "SwitchStmt", "ConditionalOperator", "WhileStmt", "ForStmt", "DoStmt"))
        r.ob(dsp.q, "dispatcher", fwd and not writes and not branches, "forwards `%s` to the encoder of sizeof(Char_T) %s" % (cp["n"], "unchanged" if (fwd and not writes and not branches) else
             "but first rewrites it (%s) or branches on it: code points are altered before they are encoded" % (writes or "control flow")), "Include/Unicode.hpp:%d" % dsp.line)
    seen = set()
    for f in fns:
        ctx.note_fn(f)
        size = None
        ta = f.d.get("clstargs", "").replace(" ", "")
        for cand in (1, 2, 4):
            if ta.endswith(",%d>" % cand) or ta.endswith(",%dU>" % cand):
                size = cand
        if size is None:
            r.broke("cannot tell the character size of %s" % f.d.get("clsf"))
            continue
        seen.add(size)
        param = f.params[0]["d"]
        for (lo, hi), sub, ref in REFERENCE[size]:
            try:
                paths = summarise(f, param, lo, hi, size * 8)
            except Unrecognised as e:
                r.broke("%s: %s" % (f.d.get("clsf"), e))
                continue
            covered = []
            for (plo, phi), psub, outs, var in paths:
                covered.append((plo, phi))
                rv = Var("v" if psub else "u", plo - psub, phi - psub)
                expect_sub = sub or 0
                try:
                    if psub != expect_sub:
                        # express the reference over the path's variable is not possible: different derivation
                        raise Unrecognised("path subtracts %#x, reference subtracts %#x" % (psub, expect_sub))
                    refv = [bitsym.truncate(x, size * 8) for x in ref(Val(rv.bits()))]
                except Unrecognised as e:
                    r.ob(f.q, "UTF-%d U+%04X..U+%04X" % (size * 8, plo, phi), False, "unrecognised shape: %s" % e, "%s:%d" % (f.file.split("/Include/")[-1], f.line))
                    continue
                ok = len(outs) == len(refv) and all(a == b for a, b in zip(outs, refv))
                r.ob(f.q, "UTF-%d U+%04X..U+%04X" % (size * 8, plo, phi), ok,
                     "emitted units %s %s reference %s" % (outs, "==" if ok else "!=", refv),
                     "Include/%s:%d" % (f.file.split("/Include/")[-1], f.line))
            # the paths must cover the whole region
            covered.sort()
            pos = lo
            for (a, b) in covered:
                if a > pos:
                    break
                pos = max(pos, b + 1)
            if pos <= hi:
                r.ob(f.q, "UTF-%d coverage of U+%04X..U+%04X" % (size * 8, lo, hi), False,
                     "no path covers U+%04X" % pos, "Include/%s:%d" % (f.file.split("/Include/")[-1], f.line))
    for need in (1, 2, 4):
        if need not in seen:
            r.broke("no UnicodeToUTF specialisation for %d-byte characters" % need)
    # dispatch on sizeof(Char_T)
    d = m.fn("Qentem::Unicode::ToUTF")
    txt = " ".join(d.text(c) for c in astq.calls(d))
    r.ob(d.q, "dispatch", "sizeof(Char_T)" in d.d.get("nodes", []) .__str__() or any(
        n.get("k") == "UnaryExprOrTypeTraitExpr" for n in d.nodes) or "UnicodeToUTF" in txt,
         "ToUTF selects the specialisation by sizeof(Char_T)", "Include/Unicode.hpp:%d" % d.line, nontrivial=False)
    return r


# ---------------------------------------------------------------- value sets of predicates
def value_set(fn, nid, name_d, width=16, char_size=None, resolve=None):
    """list of disjoint sorted intervals of x in [0, 2^width) for which the condition holds.
    char_size: value of sizeof(Char_T) when the predicate also tests the character width"""
    full = (0, (1 << width) - 1)
    n = fn.nodes[fn.strip(nid)]
    k = n["k"]

    def comp(s):
        out, pos = [], 0
        for a, b in s:
            if a > pos:
                out.append((pos, a - 1))
            pos = b + 1
        if pos <= full[1]:
            out.append((pos, full[1]))
        return out

    def inter(s, t):
        out = []
        for a, b in s:
            for c, d in t:
                lo, hi = max(a, c), min(b, d)
                if lo <= hi:
                    out.append((lo, hi))
        return sorted(out)

    def union(s, t):
        return comp(inter(comp(s), comp(t)))

    if k == "UnaryOperator" and n["op"] == "!":
        return comp(value_set(fn, n["ch"][0], name_d, width, char_size, resolve))
    if k == "BinaryOperator" and n["op"] in ("&&", "||"):
        a, b = value_set(fn, n["ch"][0], name_d, width, char_size, resolve), value_set(fn, n["ch"][1], name_d, width, char_size, resolve)
        return inter(a, b) if n["op"] == "&&" else union(a, b)
    if k == "BinaryOperator" and n["op"] in ("<", "<=", ">", ">=", "==", "!="):
        op = n["op"]
        a, b = n["ch"]
        def cval(x):
            v = fn.const_value(x)
            if v is None and resolve is not None:
                v = resolve(fn, x)
            return v
        c = cval(b)
        an = fn.nodes[fn.strip(a)]
        if c is None:
            c = cval(a)
            an = fn.nodes[fn.strip(b)]
            op = {"<": ">", "<=": ">=", ">": "<", ">=": "<=", "==": "==", "!=": "!="}[op]
        if c is None:
            raise Unrecognised("comparison without a constant: %s" % fn.text(nid))
        if an["k"] == "UnaryExprOrTypeTraitExpr" and an.get("trait") == "sizeof" and "Char_T" in (an.get("ty") or ""):
            if char_size is None:
                raise Unrecognised("predicate depends on sizeof(Char_T)")
            t = {"<": char_size < c, "<=": char_size <= c, ">": char_size > c, ">=": char_size >= c,
                 "==": char_size == c, "!=": char_size != c}[op]
            return [full] if t else []
        # x op c   (value casts of the unit to a wider unsigned type keep its value in this domain)
        if an["k"] in ("CXXFunctionalCastExpr", "CXXStaticCastExpr", "CStyleCastExpr", "CXXUnresolvedConstructExpr") and len(an.get("ch", [])) == 1:
            an = fn.nodes[fn.strip_casts(an["ch"][0])]
        if an["k"] == "DeclRefExpr" and an.get("d") == name_d:
            base = {"<": [(0, c - 1)] if c > 0 else [], "<=": [(0, c)], ">": [(c + 1, full[1])] if c < full[1] else [],
                    ">=": [(c, full[1])], "==": [(c, c)] if c <= full[1] else [], "!=": comp([(c, c)])}[op]
            return inter(base, [full])
        # (x >> k) op c   /  (x & m) op c with m a high mask
        if an["k"] == "BinaryOperator" and an["op"] in (">>", "&"):
            x = fn.nodes[fn.strip_casts(an["ch"][0])]
            kk = fn.const_value(an["ch"][1])
            if not (x["k"] == "DeclRefExpr" and x.get("d") == name_d and kk is not None):
                raise Unrecognised("predicate %s" % fn.text(nid))
            if an["op"] == "&":
                s = (kk & -kk).bit_length() - 1 if kk else 0
                if kk != (((1 << width) - 1) >> s) << s or c & ((1 << s) - 1):
                    # general mask: the set {x | x & m == c} as a union of blocks: bits below the lowest mask
                    # bit are free (block size 2^s); the free bits above it are expanded (bit-pattern domain)
                    if op not in ("==", "!="):
                        raise Unrecognised("ordered comparison of a masked value")
                    if c & ~kk:
                        blocks = []
                    else:
                        free_hi = [i for i in range(s, width) if not (kk >> i) & 1]
                        blocks = []
                        for combo in range(1 << len(free_hi)):
                            base = c
                            for j, bit in enumerate(free_hi):
                                if (combo >> j) & 1:
                                    base |= 1 << bit
                            blocks.append((base, base + (1 << s) - 1))
                        blocks.sort()
                        merged = []
                        for a_, b_ in blocks:
                            if merged and merged[-1][1] + 1 == a_:
                                merged[-1] = (merged[-1][0], b_)
                            else:
                                merged.append((a_, b_))
                        blocks = merged
                    return blocks if op == "==" else comp(blocks)
                kk, c = s, c >> s
            if op in ("==", "!="):
                blk = [(c << kk, min((c << kk) + (1 << kk) - 1, full[1]))] if (c << kk) <= full[1] else []
                return blk if op == "==" else comp(blk)
            lo_hi = {"<": (0, c - 1), "<=": (0, c), ">": (c + 1, full[1] >> kk), ">=": (c, full[1] >> kk)}[op]
            if lo_hi[0] > lo_hi[1]:
                return []
            return inter([(lo_hi[0] << kk, (lo_hi[1] << kk) + (1 << kk) - 1)], [full])
    raise Unrecognised("predicate %s" % fn.text(nid))


def find_unescape_parts(m):
    ue = m.fn("Qentem::JSONUtils::UnEscape")
    sws = astq.nodes_of(ue, "SwitchStmt")
    if len(sws) < 2:
        raise AnalysisBroken("UnEscape: inner escape switch not found")
    inner = sws[1]
    arms = [a for a in astq.switch_arms(ue, inner) if any(l[0] and l[0].endswith("U_Char") for l in a[0])]
    if len(arms) != 1:
        raise AnalysisBroken("UnEscape: the \\u arm was not found")
    return ue, arms[0]


def rule_surrogate(ctx, m):
    r = Rule("X-surrogate", "the predicate routing a \\u code to the pairing branch accepts exactly [D800,DBFF]", floor=1)
    r2 = Rule("TB-recombine", "surrogate recombination equals ((hi & 0x3FF) << 10 | (lo & 0x3FF)) + 0x10000 (bit-level domain)", floor=1)
    r3 = Rule("FX-utf", "the \\u arm writes only through Unicode::ToUTF and converts exactly four hex digits per escape", floor=4)
    ue, (labels, stmts) = find_unescape_parts(m)
    ctx.note_fn(ue)
    body = stmts[0]
    # local holding the first code
    code_d = None
    for i in ue.walk(body):
        n = ue.nodes[i]
        if n["k"] == "DeclStmt":
            for d in n["decls"]:
                if code_d is None and d.get("init", -1) >= 0 and any(ue.call_simple_name(c) == "HexStringToNumber" for c in astq.calls(ue, None, d["init"])):
                    code_d = d      # the first one: the four digits right after \\u
    if code_d is None:
        raise AnalysisBroken("UnEscape: the local receiving the first four hex digits was not found")
    # the if that sends non-surrogates straight to ToUTF
    gate = None
    for i in astq.nodes_of(ue, "IfStmt", body):
        n = ue.nodes[i]
        if astq.refs_decl(ue, n["cond"], code_d["n"]) and astq.calls(ue, "ToUTF", n["then"]) and \
                astq.nodes_of(ue, "ContinueStmt", n["then"]):
            gate = i
            break
    if gate is None:
        raise AnalysisBroken("UnEscape: the surrogate gate (if (...) { ToUTF; continue; }) was not found")
    gn = ue.nodes[gate]
    for cs in (1, 2, 4):
        try:
            direct = value_set(ue, gn["cond"], code_d["d"], 16, char_size=cs)
            pairing = []
            pos = 0
            for a, b in direct:
                if a > pos:
                    pairing.append((pos, a - 1))
                pos = b + 1
            if pos <= 0xFFFF:
                pairing.append((pos, 0xFFFF))
            if cs == 2:
                # UTF-16 target: passing a surrogate unit through unchanged equals recombining and re-splitting
                ok = pairing in ([(0xD800, 0xDBFF)], [])
            else:
                ok = pairing == [(0xD800, 0xDBFF)]
            r.ob(ue.q, "%s [sizeof(Char_T)=%d]" % (ue.text(gn["cond"]), cs), ok,
                 "codes sent to the pairing branch: %s; reference [D800,DBFF]%s" % (", ".join("[%04X,%04X]" % p for p in pairing) or "none", " (or none for UTF-16)" if cs == 2 else ""),
                 ue.loc(gn["cond"]), {"accepted_direct": direct})
        except Unrecognised as e:
            r.broke("surrogate predicate has an unrecognised shape: %s" % e)

    # recombination: statements after the gate inside the same block that lead to the second ToUTF
    second = [c for c in astq.calls(ue, "ToUTF", body) if c not in list(ue.walk(gn["then"]))]
    if len(second) != 1:
        r2.broke("expected exactly one ToUTF call on the pairing path, found %d" % len(second))
    else:
        par = ue.parents()
        blk = astq.enclosing(ue, second[0], ("CompoundStmt",))
        try:
            hi = Var("hi", 0xD800, 0xDBFF)
            for i in range(10, 16):
                hi.known[i] = (0xD800 >> i) & 1
            cur = Val(hi.bits())
            env = {}

            def ev(x):
                x = ue.strip(x)
                xn = ue.nodes[x]
                if "cv" in xn and xn["k"] != "DeclRefExpr":
                    return Val.const(xn["cv"])
                if xn["k"] == "DeclRefExpr" and xn.get("d") == code_d["d"]:
                    return cur
                if xn["k"] == "DeclRefExpr" and xn.get("d") in env:
                    return env[xn["d"]]
                if xn["k"] in ("CallExpr",) and ue.call_simple_name(x) == "HexStringToNumber":
                    return Val(Var("lo", 0, 0xFFFF).bits())
                if xn["k"] == "BinaryOperator":
                    return bitsym.binop(xn["op"], ev(xn["ch"][0]), ev(xn["ch"][1]))
                if xn["k"] in ("CXXFunctionalCastExpr", "CXXStaticCastExpr", "CStyleCastExpr", "InitListExpr", "CXXUnresolvedConstructExpr") and len(xn.get("ch", [])) == 1:
                    return ev(xn["ch"][0])
                raise Unrecognised(ue.text(x))
            # the statements between the gate and the second ToUTF, in source order, through whatever nesting of tests leads
            # there (node ids are in pre-order)
            gate_end = max(ue.walk(gate))
            seq = [x for x in ue.walk(body) if gate_end < x < second[0] and ue.nodes[x]["k"] in ("DeclStmt", "BinaryOperator", "CompoundAssignOperator") and
                   ue.nodes[par.get(x, x)]["k"] == "CompoundStmt"]
            for s in seq:
                sn = ue.nodes[s]
                if sn["k"] == "DeclStmt":
                    for d in sn["decls"]:
                        if "d" in d and d.get("init", -1) >= 0 and d.get("tk") in ("uint", "sint"):
                            env[d["d"]] = ev(d["init"])
                    continue
                if sn["k"] in ("BinaryOperator", "CompoundAssignOperator"):
                    lhs = ue.nodes[ue.strip(sn["ch"][0])]
                    if lhs["k"] == "DeclRefExpr" and lhs.get("d") == code_d["d"]:
                        rhs = ev(sn["ch"][1])
                        if sn["k"] == "BinaryOperator" and sn["op"] == "=":
                            cur = rhs
                        elif sn["op"] in ("+=", "|=", "&=", "^=", "<<=", ">>="):
                            cur = bitsym.binop(sn["op"][:-1], cur, rhs)
                        else:
                            raise Unrecognised(ue.text(s))
            hi_v = Val(hi.bits())
            lo_v = Val(Var("lo", 0, 0xFFFF).bits())
            ref = bitsym.binop("+", bitsym.binop("|", bitsym.binop("<<", AND(hi_v, C(0x3FF)), C(10)), AND(lo_v, C(0x3FF))), C(0x10000))
            r2.ob(ue.q, "pairing arithmetic on `%s`" % code_d["n"], cur == ref, "computed %s ; reference %s" % (cur, ref), ue.loc(second[0]))
        except Unrecognised as e:
            r2.broke("pairing arithmetic has an unrecognised shape: %s" % e)

    # FX-utf: writes and conversions inside the \u arm
    hexcalls = astq.calls(ue, "HexStringToNumber", body)
    for c in hexcalls:
        args = ue.call_args(c)
        ok = len(args) == 2 and ue.const_value(args[1]) == 4
        if len(args) == 3:
            # the cursor form: the end is a local every definition of which is <cursor> + 4
            curn = ue.nodes[ue.strip_casts(args[1])]
            endn = ue.nodes[ue.strip_casts(args[2])]
            defs = [d["init"] for st_ in astq.nodes_of(ue, "DeclStmt") for d in ue.nodes[st_]["decls"] if d.get("d") == endn.get("d") and d.get("init", -1) >= 0]
            defs += [ue.nodes[x]["ch"][1] for x in astq.nodes_of(ue, "BinaryOperator") if ue.nodes[x]["op"] == "=" and ue.nodes[ue.strip(ue.nodes[x]["ch"][0])].get("d") == endn.get("d")]

            def plus4(x):
                x = ue.strip_casts(x)
                xn = ue.nodes[x]
                while xn["k"] == "ParenExpr":
                    x = ue.strip_casts(xn["ch"][0])
                    xn = ue.nodes[x]
                return xn["k"] == "BinaryOperator" and xn["op"] == "+" and ue.nodes[ue.strip_casts(xn["ch"][0])].get("d") == curn.get("d") and ue.const_value(ue.strip_casts(xn["ch"][1])) == 4
            ok = endn["k"] == "DeclRefExpr" and curn["k"] == "DeclRefExpr" and bool(defs) and all(plus4(x) for x in defs)
        r3.ob(ue.q, ue.text(c), ok, "each \\u escape converts exactly 4 digits (the length is the constant 4, or the end of the cursor form is cursor + 4)", ue.loc(c))
    if len(hexcalls) != 2:
        r3.ob(ue.q, "hex conversions in the \\u arm", False, "expected 2 (code and low surrogate), found %d" % len(hexcalls), ue.loc(body))
    writes = []
    for i in ue.walk(body):
        n = ue.nodes[i]
        if n["k"] in ("CallExpr", "CXXMemberCallExpr", "CXXOperatorCallExpr", "CompoundAssignOperator", "BinaryOperator"):
            if n["k"] in ("CompoundAssignOperator", "BinaryOperator"):
                lhs = ue.nodes[ue.strip(n["ch"][0])]
                if lhs["k"] == "DeclRefExpr" and lhs["n"] == "stream" and n.get("op", "").endswith("="):
                    writes.append(i)
                continue
            nm = ue.call_simple_name(i)
            if nm == "ToUTF":
                continue
            rcv = ue.call_receiver(i)
            uses_stream = any(ue.nodes[x]["k"] == "DeclRefExpr" and ue.nodes[x]["n"] == "stream" for x in ue.walk(i))
            if uses_stream:
                writes.append(i)
    r3.ob(ue.q, "stream writes in the \\u arm", not writes,
          "decoded code points must reach the stream only through Unicode::ToUTF" + ("; found %s" % ", ".join(ue.text(w) for w in writes) if writes else ""),
          ue.loc(body))
    for c in astq.calls(ue, "ToUTF", body):
        args = ue.call_args(c)
        ok = len(args) == 2 and ue.nodes[ue.strip(args[0])].get("d") == code_d["d"]
        r3.ob(ue.q, ue.text(c), ok, "ToUTF receives the decoded code", ue.loc(c), nontrivial=False)
    # the encoders write through the stream's own appenders; a raw pointer into the stream must not outlive a growth
    from rules.borrow import rule_borrow
    return [r, r2, r3, rule_borrow(ctx, m, files=["Unicode.hpp", "JSONUtils.hpp"], allow_empty=True)]


def rule_hex(ctx, m):
    r = Rule("TB-hex", "hex digit ranges 0-9/A-F/a-f map to 0..9/10..15/10..15 with a 4-bit shift per digit", floor=3)
    f = m.fn("Qentem::Digit::HexStringToNumber", nparams=3)
    ctx.note_fn(f)
    want = {(ord("0"), ord("9")): (0, 9), (ord("A"), ord("F")): (10, 15), (ord("a"), ord("f")): (10, 15)}
    found = {}
    for i in astq.nodes_of(f, "IfStmt"):
        n = f.nodes[i]
        cn = f.nodes[f.strip(n["cond"])]
        if cn["k"] != "BinaryOperator" or cn["op"] != "&&":
            continue
        lo = hi = None
        var = None
        for part in cn["ch"]:
            pn = f.nodes[f.strip(part)]
            if pn["k"] == "BinaryOperator" and pn["op"] in (">=", "<="):
                v = f.nodes[f.strip(pn["ch"][0])]
                c = m.eval_nodes(f.nodes, f.strip_casts(pn["ch"][1]))
                if v["k"] == "DeclRefExpr" and c is not None:
                    var = v.get("d")
                    if pn["op"] == ">=":
                        lo = c
                    else:
                        hi = c
        if lo is None or hi is None:
            continue
        # in the then branch: number <<= 4 ; number |= T(digit - BASE)
        shift = None
        base = None
        for s in f.walk(n["then"]):
            sn = f.nodes[s]
            if sn["k"] == "CompoundAssignOperator" and sn["op"] == "<<=":
                shift = f.const_value(sn["ch"][1])
            if sn["k"] == "BinaryOperator" and sn["op"] == "-":
                a = f.nodes[f.strip(sn["ch"][0])]
                if a["k"] == "DeclRefExpr" and a.get("d") == var:
                    base = m.eval_nodes(f.nodes, f.strip_casts(sn["ch"][1]))
        found[(lo, hi)] = (shift, base, i)
    for rng, vals in want.items():
        if rng not in found:
            r.ob(f.q, "range %s-%s" % (chr(rng[0]), chr(rng[1])), False, "no arm tests this digit range", "Include/Digit.hpp:%d" % f.line)
            continue
        shift, base, i = found[rng]
        ok = shift == 4 and base is not None and (rng[0] - base, rng[1] - base) == vals
        r.ob(f.q, "range %s-%s" % (chr(rng[0]), chr(rng[1])), ok,
             "digits map to [%s,%s] (want [%d,%d]) with shift %s" % (rng[0] - base if base is not None else "?", rng[1] - base if base is not None else "?", vals[0], vals[1], shift),
             f.loc(i))
    for rng in found:
        if rng not in want:
            r.ob(f.q, "range %d-%d" % rng, False, "an arm accepts units outside the three hex ranges", f.loc(found[rng][2]))
    return r


def _run_own(ctx):
    m = ctx.pattern()
    out = [rule_utf(ctx, m)]
    out += rule_surrogate(ctx, m)
    out.append(rule_hex(ctx, m))
    return out


def run(ctx):
    rules_ = list(_run_own(ctx) or [])
    from rules.common import shared
    have = set(r_.rid for r_ in rules_)
    rules_ += [r_ for r_ in shared(ctx, 'C14', ['SB-bytes']) if r_.rid not in have]
    rules_ += [r_ for r_ in shared(ctx, 'C05', ['BORROW']) if r_.rid not in have]
    for r_ in shared(ctx, 'C05', ['ZB-read', 'BORROW']):
        if r_.rid in set(x.rid for x in rules_):
            r_.rid = r_.rid + "/C05"
        rules_.append(r_)
    return rules_
