"""C19 -- BigInt holds the exact mathematical integer (thin: storage bounds, scan shapes, siblings)."""
import re

from qlib import astq
from qlib.model import AnalysisBroken
from qlib.report import Rule
from qlib.zone import ContractTable, Contract
from qlib import zonecheck

META = {
    "explanation": "Thin structural check. (ZB-bigint) E-ZONE with the class invariant index_ <= MaxIndex() (assumed on "
                   "entry, proven on every exit, re-assumed after calls of other methods) proves every storage_[e] "
                   "access in range for the BigInt members it can follow; members whose index arithmetic is beyond "
                   "difference bounds are listed as not decided, with reason. (SCAN) a loop that walks storage_[i] by "
                   "++i/--i bounds i in its own condition, and a condition `storage_[i] .. && bound(i)` tests the bound "
                   "first. (AGREE) FindFirstBit/FindLastBit pass to the platform bit scan the same word whose index they "
                   "multiply by TypeWidth(). (SB-double) the 8/16/32-bit DoubleSize helpers are identical up to the wide "
                   "type and their shift equals the word width. (SB-addsub) Add and Subtract are mirror images. (PL-bits) "
                   "the platform bit scans use the builtin of the operand's width in every branch.",
    "not_decided": "arithmetic exactness (carry propagation, 128/64 division); storage bounds of ShiftLeft/ShiftRight "
                   "block moves, Multiply, Divide, doOperation, copy and the public SetIndex (caller contract)",
    "assumptions": ["index + small constant does not overflow 32 bits"],
}
META["explanation"] += " " + '(INV-above) a clearing loop that precedes `index_ = E` clears every word above E (E-ZONE state at the assignment: a proof of loop bound >= E + 1 is a violation). (SB-clearabove) every non-constructor caller of a doOperation kind that sets index_ = 0 (Set, And; the kind is read from the explicit template argument the exporter records) clears the words above the new index_ afterwards. (SB-normalise) the members that can zero high words (Subtract, Multiply, Divide, ShiftRight) lower index_ under a zero test of a storage word.'
META["explanation"] += " " + '(SB-raise) Add and the |= arms assign index_ = E only under E > index_. SB-clearabove additionally: the stores of the replacing kind (Set) are unconditional inside their arm. (RV-use, shared) a moved-from BigInt is really emptied.'
META["explanation"] += " " + '(SHIFT-width) E-ZONE, taught the idiom move = x / W; x -= move * W (then 0 <= x < W) and m = x / c with x >= c (then m >= 1), proves every shift of a storage word is by at most TypeWidth() - 1. (ZB-count) a loop that decrements index_ once per unit of a counter is entered with counter <= index_. INV-above additionally: the variable that walks down starts at the old top (index_ not yet overwritten).'

B = "Qentem::BigInt::"
NOT_DECIDED = {
    "ShiftLeft": "block move indices index_ + move after a clamp (needs a three-term relation)",
    "ShiftRight": "block move over [move, index_] (needs next - index == move as an invariant)",
    "Multiply": "descending do-while driven by --index from index_ + 1",
    "Divide": "index_ adjusted by a boolean expression",
    "doOperation": "word loop bounded by number != 0 and the value width, not by an index comparison",
    "copy": "bounded by the other object's invariant (src.index_ <= MaxIndex())",
    "operator=": "delegates to copy",
    "SetIndex": "public setter: the caller promises index <= MaxIndex()",
    "BigInt": "constructors delegate to doOperation/copy",
}


META["explanation"] += " " + "SB-normalise additionally: in Multiply and Subtract the lowering is repeated (inside a loop whose condition tests a storage word) or the member clears; the position compared with index_ in the guard of Subtract's normalisation is the one the borrow loop stores through."

def run(ctx):
    m = ctx.pattern()
    rules = []

    # ---------------- ZB-bigint
    zr = Rule("ZB-bigint", "storage_[e] accesses stay within [0, MaxIndex()] (E-ZONE under the invariant index_ <= MaxIndex())", floor=14)
    zi = Rule("ZB-inv", "index_ <= MaxIndex() is re-established on every exit of the members analysed", floor=20)
    fns = [f for f in m.functions if f.cls == "Qentem::BigInt" and not f.inst and f.cfg]
    table = {}
    for f in fns:
        table[f.q + "/%d" % len(f.params)] = Contract(buffers={"f:storage_": "g:this|MaxIndex()+1"}, invariants=[("f:index_", "g:this|MaxIndex()", 0)])
    ct = ContractTable(table)
    zone_ct = ct
    skipped = set()
    for f in fns:
        if f.name in NOT_DECIDED or f.name.startswith("operator") and f.name in ("operator=",):
            skipped.add(f.name)
            continue
        ctx.note_fn(f)
        obs, stats, _ = zonecheck.analyse(m, f, ct)
        for o in obs:
            if o.rule == "ZB-read":
                zr.add_zone(o)
                zr.obs[-1].fn_q = f.sig
            elif o.rule == "ZB-inv":
                zi.add_zone(o)
                zi.obs[-1].fn_q = f.sig
    zr.notes.append("members not decided by this rule: " + "; ".join("%s (%s)" % (k, v) for k, v in sorted(NOT_DECIDED.items()) if k in skipped or True))
    rules += [zr, zi]

    # ---------------- SCAN
    r = Rule("SCAN", "loops that walk storage_[i] bound i in their condition, bound first", floor=3)
    for f in fns:
        for w in astq.nodes_of(f, ("WhileStmt", "DoStmt")):
            cond = f.nodes[w]["cond"]
            subs = [x for x in f.walk(cond) if f.nodes[x]["k"] == "ArraySubscriptExpr" and f.text(f.nodes[x]["ch"][0]) in ("storage_", "this.storage_")]
            if not subs:
                continue
            idx = f.text(f.nodes[subs[0]]["ch"][1])
            body = f.nodes[w]["body"]
            steps = [x for x in f.walk(body) if f.nodes[x]["k"] == "UnaryOperator" and f.nodes[x]["op"] in ("++", "--") and f.text(f.nodes[x]["ch"][0]) == idx]
            if not steps:
                continue
            # atoms of the condition in evaluation order
            atoms = []

            def flat(n_):
                nn = f.nodes[f.strip(n_)]
                if nn["k"] == "BinaryOperator" and nn["op"] == "&&":
                    flat(nn["ch"][0])
                    flat(nn["ch"][1])
                else:
                    atoms.append(f.strip(n_))
            flat(cond)
            bound_pos = [i for i, a in enumerate(atoms) if subs[0] not in set(f.walk(a)) and any(f.nodes[x]["k"] == "DeclRefExpr" and f.nodes[x]["n"] == idx.split(".")[-1] or f.text(x) == idx for x in f.walk(a))]
            sub_pos = [i for i, a in enumerate(atoms) if subs[0] in set(f.walk(a))]
            ok = bool(bound_pos) and bound_pos[0] < sub_pos[0]
            why = "condition `%s`: " % f.text(cond) + ("the bound on %s is tested before the element is read" % idx if ok else
                  ("no bound on %s: the scan leaves the array when every word matches (zero value)" % idx if not bound_pos else
                   "the element is read before the bound on %s is tested" % idx))
            r.ob(f.sig, "loop over storage_[%s]" % idx, ok, why, f.loc(w))
    rules.append(r)

    # ---------------- AGREE
    r = Rule("AGREE", "bit scans: the word scanned and the word index multiplied by TypeWidth() are the same", floor=2)
    for name in ("FindFirstBit", "FindLastBit"):
        f = m.fn(B + name)
        ctx.note_fn(f)
        rets = astq.returns(f)
        t = f.text(f.nodes[rets[-1]]["val"])
        mt = re.search(r"%s\(storage_\[(\w+)\]\)" % name, t)
        mul = re.search(r"\((\w+) \* TypeWidth\(\)\)", t)
        ok = bool(mt and mul and mt.group(1) == mul.group(1))
        r.ob(f.q, "return " + t, ok, "scans storage_[%s], scales index %s" % (mt.group(1) if mt else "?", mul.group(1) if mul else "?"), f.loc(rets[-1]))
    rules.append(r)

    # ---------------- SB-double
    r = Rule("SB-double", "DoubleSize<8|16|32> siblings identical up to the wide type; shift equals the word width", floor=5)
    shapes = {}
    for f in m.functions:
        if f.inst or f.cls != "Qentem::DoubleSize":
            continue
        ta = f.d.get("clstargs", "")
        w = int("".join(ch for ch in ta.split(",")[-1] if ch.isdigit()) or 0)
        if w in (8, 16, 32):
            body = " ; ".join(f.text(x) for x in f.nodes[f.body].get("ch", []))
            norm = re.sub(r"SizeT(16|32|64)", "WIDE", body)
            norm = re.sub(r"(dividend|number)(16|32|64)", r"\1W", norm)
            shapes.setdefault(f.name, {})[w] = norm
    for name, d in shapes.items():
        r.ob("Qentem::DoubleSize::" + name, "siblings", len(d) == 3 and len(set(d.values())) == 1, "normalised bodies %s" % ("agree" if len(set(d.values())) == 1 else d), "Include/BigInt.hpp")
    for v in m.vars:
        if v["q"] == "Qentem::DoubleSize::shift_":
            w = int("".join(ch for ch in v.get("targs", "").split(",")[-1] if ch.isdigit()) or 0)
            val = m.const_of_var(v)
            want = w if w != 64 else 32
            if w == 64:
                continue   # the 64-bit helper splits words by halves; its constants are expressions of TypeWidth()
            r.ob("Qentem::DoubleSize" + v.get("targs", ""), "shift_", val == want, "shift_ = %s for %d-bit words (want %d)" % (val, w, want), "Include/BigInt.hpp:%d" % v["line"])
    rules.append(r)

    # ---------------- SB-addsub
    r = Rule("SB-addsub", "Add and Subtract: word loop bounded by MaxIndex(), carry/borrow detected against the saved word, unit carry", floor=2)
    for name, upd, cmp_ in (("Add", "+=", ">"), ("Subtract", "-=", "<")):
        g = m.fn(B + name)
        ctx.note_fn(g)
        ws = astq.nodes_of(g, "WhileStmt")
        ok, why = False, "no word loop"
        if ws:
            w = ws[0]
            body = g.nodes[w]["body"]
            cond = g.text(g.nodes[w]["cond"]).replace(" ", "").replace("this.", "")
            idx = None
            saved = None
            upd_ok = False
            for x in g.walk(body):
                nx = g.nodes[x]
                if nx["k"] == "DeclStmt":
                    for d in nx["decls"]:
                        if d.get("init", -1) >= 0 and g.text(d["init"]).replace("this.", "").startswith("storage_["):
                            saved = d["n"]
                            idx = g.text(d["init"]).replace("this.", "")[len("storage_["):-1]
                if nx["k"] == "CompoundAssignOperator" and g.text(nx["ch"][0]).replace("this.", "") == "storage_[%s]" % idx:
                    upd_ok = nx["op"] == upd
            test_ok = False
            for i_ in astq.nodes_of(g, "IfStmt", body):
                cn = g.nodes[g.strip(g.nodes[i_]["cond"])]
                if cn["k"] == "BinaryOperator" and cn["op"] in ("<", ">", "<=", ">=") and saved and \
                        g.text(cn["ch"][0]).replace("this.", "") == "storage_[%s]" % idx and g.text(cn["ch"][1]) == saved:
                    leaves = any(g.nodes[y]["k"] in ("BreakStmt", "ReturnStmt") for y in g.walk(g.nodes[i_]["then"]))
                    test_ok = cn["op"] == cmp_ and leaves
            unit = any(g.nodes[x]["k"] == "BinaryOperator" and g.nodes[x]["op"] == "=" and g.text(g.nodes[x]["ch"][0]) == g.params[0]["n"] and
                       g.nodes[g.strip_casts(g.nodes[x]["ch"][1])].get("cv", None) == 1 or
                       (g.nodes[x]["k"] == "BinaryOperator" and g.nodes[x]["op"] == "=" and g.text(g.nodes[x]["ch"][0]) == g.params[0]["n"] and "1" in g.text(g.nodes[x]["ch"][1]))
                       for x in g.walk(body))
            step = any(g.nodes[x]["k"] == "UnaryOperator" and g.nodes[x]["op"] == "++" and g.text(g.nodes[x]["ch"][0]) == idx for x in g.walk(body))
            bound = cond in ("(%s<=MaxIndex())" % idx, "%s<=MaxIndex()" % idx)
            ok = bool(idx and saved and upd_ok and test_ok and unit and step and bound)
            why = "loop `%s`; word saved in `%s`; update %s %s; no-%s test `storage_[%s] %s %s` leaves the loop: %s; carry unit 1: %s; ++%s: %s" % (
                g.text(g.nodes[w]["cond"]), saved, upd, "ok" if upd_ok else "WRONG", "carry" if name == "Add" else "borrow", idx, cmp_, saved, test_ok, unit, idx, step)
        r.ob(g.q, "%s word loop" % name, ok, why, "Include/BigInt.hpp:%d" % g.line)
    rules.append(r)

    # ---------------- PL-bits
    r = Rule("PL-bits", "platform bit scans use the builtin matching the operand width", floor=2)
    for name, b64, b32 in (("FindFirstBit", "__builtin_ctzl", "__builtin_ctz"), ("FindLastBit", "__builtin_clzl", "__builtin_clz")):
        fs = [f for f in m.fns("Qentem::Platform::" + name, required=False) if not f.inst]
        for f in fs:
            ctx.note_fn(f)
            bad = []
            for c in astq.calls(f):
                nm = f.call_simple_name(c) or ""
                if nm.startswith("__builtin_c"):
                    arg = f.text(f.call_args(c)[0])
                    wide = "unsigned long" in arg
                    if (nm.endswith("l") and not wide) or (not nm.endswith("l") and wide):
                        bad.append("%s(%s)" % (nm, arg))
                    # the 64-bit builtin must sit under the 8-byte / 63-bit test
                    if nm.endswith("l"):
                        enc = astq.enclosing(f, c, ("IfStmt",))
                        ct = f.text(f.nodes[enc]["cond"]) if enc is not None else ""
                        if "is_size_8" not in ct and "is_size_63b" not in ct:
                            bad.append("%s outside the 64-bit branch" % nm)
            r.ob(f.q, name, not bad, "builtin/operand width pairs: %s" % (bad or "consistent"), "Include/Platform.hpp:%d" % f.line)
    rules.append(r)
    rules.append(rule_clear_above(ctx, m, zone_ct))
    rules.append(rule_lowering_callers(ctx, m))
    rules.append(rule_normalise(ctx, m))
    rules.append(rule_raise_only(ctx, m))
    from rules.common import rule_rvalue_use
    rules.append(rule_rvalue_use(ctx, m, floor=3, files=["BigInt.hpp"]))
    rules.append(rule_shift_width(ctx, m, zone_ct))
    rules.append(rule_counted_decrement(ctx, m, zone_ct))
    return rules



def rule_clear_above(ctx, m, ct):
    """INV-above (clearing reaches the new top): the words above index_ are zero (the class invariant every operation relies on
    when it grows the number again).  A member that lowers index_ with a clearing loop
          while (X > Y) { storage_[X] = 0; --X; }        -- clears the words (Y, X0]   (with >= : [Y, X0])
    and then sets  index_ = E  has to have cleared every word above E, i.e.  Y <= E  (Y <= E + 1 for >=).  E-ZONE state at the
    assignment: a proof of Y >= E + 1 (resp. E + 2) is a violation -- word E + 1 keeps its old content; a proof of the
    requirement discharges; anything else is listed as not decided."""
    from qlib import dataflow
    from qlib.zone import Zone, Lin
    r = Rule("INV-above", "a clearing loop that precedes `index_ = E` clears every word above E", floor=1)
    for f in m.functions:
        if f.inst or not f.cfg or f.cls != "Qentem::BigInt":
            continue
        loops = []
        for w in astq.nodes_of(f, "WhileStmt"):
            cond = f.nodes[w].get("cond", -1)
            body = f.nodes[w].get("body", -1)
            if cond is None or cond < 0 or body is None or body < 0:
                continue
            cn = f.nodes[f.strip(cond)]
            if cn["k"] != "BinaryOperator" or cn["op"] not in (">", ">="):
                continue
            X = f.text(cn["ch"][0])
            zero = any(f.nodes[y]["k"] == "BinaryOperator" and f.nodes[y]["op"] == "=" and f.text(f.nodes[y]["ch"][0]).replace("this.", "") in ("storage_[%s]" % X.replace("this.", ""),) and
                       f.const_value(f.nodes[y]["ch"][1]) == 0 for y in f.walk(body))
            dec = any(f.nodes[y]["k"] == "UnaryOperator" and f.nodes[y]["op"] == "--" and f.text(f.nodes[y]["ch"][0]) == X for y in f.walk(body))
            if zero and dec:
                loops.append((w, cn["op"], cn["ch"][0], cn["ch"][1]))
        if not loops:
            continue
        # assignments index_ = E after the loop (source order)
        for (w, op, xn, yn) in loops:
            assigns = [x for x in f.walk() if x > w and x not in set(f.walk(w)) and f.nodes[x]["k"] == "BinaryOperator" and f.nodes[x]["op"] == "=" and
                       f.text(f.nodes[x]["ch"][0]).replace("this.", "") == "index_"]
            if not assigns:
                # the loop itself leaves index_ (or a local compared with index_) at the new top: cleared (index_, old] by construction
                # -- provided the variable that walks down started at the OLD top: index_ itself not yet overwritten, or a local
                # that saved it
                if "index_" in f.text(yn) or "index_" in f.text(xn):
                    ctx.note_fn(f)
                    walker = f.text(xn).replace("this.", "")
                    earlier = [x for x in f.walk() if x < w and f.nodes[x]["k"] == "BinaryOperator" and f.nodes[x]["op"] == "=" and
                               f.text(f.nodes[x]["ch"][0]).replace("this.", "") == "index_"]
                    inits = [x for x in f.walk() if x < w and f.nodes[x]["k"] == "MemberExpr" and False]
                    stale = walker == "index_" and bool(earlier)
                    r.ob(f.sig, "while (%s %s %s) clear" % (f.text(xn), op, f.text(yn)), not stale,
                         "the loop runs from the old top down to index_ itself: every word above it is cleared" if not stale else
                         "`%s` at %s already replaced the old top: the loop starts from the NEW index_ and clears none of the words the shorter value leaves behind" % (
                             f.text(earlier[0]), f.loc(earlier[0])[0] if isinstance(f.loc(earlier[0]), tuple) else f.loc(earlier[0])), f.loc(w))
                continue
            a = assigns[0]
            ctx.note_fn(f)
            z = Zone(m, f, ct)
            states = dataflow.run(f, z)
            bid = dataflow.block_of(f, a)
            verdict, why = None, "the relation between `%s` and `%s` at the assignment is outside the difference-bound domain" % (f.text(yn), f.text(f.nodes[a]["ch"][1]))
            if bid is not None and bid in states:
                st = z.copy(states[bid])
                for e in f.blocks()[bid]["el"]:
                    if e.get("n") == a:
                        break
                    z.transfer(f, st, e, f.blocks()[bid])
                Y = z.lin(st, yn)
                E = z.lin(st, f.nodes[a]["ch"][1])
                if Y is not None and E is not None and not st.bottom:
                    slack = 0 if op == ">" else 1            # requirement: Y <= E + slack
                    if st.lin_le0((Y - E).shift(-slack)):
                        verdict, why = True, "Y <= E%s is proven at the assignment: every word above the new top was cleared" % ("" if slack == 0 else " + 1")
                    elif st.lin_le0((E - Y).shift(slack + 1)):
                        verdict = False
                        why = "at `%s` the engine proves %s >= %s + %d: the loop stops clearing at word %s%s, so word %s + 1 keeps its old content above the new top" % (
                            f.text(a), f.text(yn), f.text(f.nodes[a]["ch"][1]), slack + 1, f.text(yn), " + 1" if op == ">" else "", f.text(f.nodes[a]["ch"][1]))
            if verdict is None:
                r.notes.append("%s: %s" % (f.sig, why))
                continue
            r.ob(f.sig, "while (%s %s %s) clear; %s" % (f.text(xn), op, f.text(yn), f.text(a)), verdict, why, f.loc(w))
    return r


def rule_lowering_callers(ctx, m):
    """SB-clearabove: doOperation<K>(number) sets index_ = 0 for the kinds K that replace or mask the value (Set, And) and leaves
    the higher words to its caller.  Sibling cross-check of the callers: every member that calls doOperation with such a kind,
    other than a constructor (fresh storage is zero), saves the old index_ and clears the words above the new one afterwards
    (operator=(number) does; a caller that does not leaves stale high words: x &= 0x0F keeps word 2)."""
    r = Rule("SB-clearabove", "callers of the index-lowering word operations (Set, And) clear the words above the new index_", floor=2)
    does = [f for f in m.functions if not f.inst and f.cfg and f.cls == "Qentem::BigInt" and f.name.split("<")[0] == "doOperation"]
    if not does:
        r.broke("BigInt::doOperation not found")
        return r
    # kinds whose arm assigns index_ = 0 (a literal)
    lowering = set()
    for f in does:
        for sw in astq.nodes_of(f, "SwitchStmt"):
            for labels, stmts in astq.switch_arms(f, sw):
                names = [(l[0] or "").split("::")[-1] for l in labels] or ["default"]
                assigns_zero = any(f.nodes[y]["k"] == "BinaryOperator" and f.nodes[y]["op"] == "=" and f.text(f.nodes[y]["ch"][0]).replace("this.", "") == "index_" and
                                   f.const_value(f.nodes[y]["ch"][1]) == 0 for s_ in stmts for y in f.walk(s_))
                if assigns_zero:
                    for nm in names:
                        lowering.add("Set" if nm in ("default", "") else nm)
    if not lowering:
        r.broke("doOperation: no arm assigns index_ = 0")
        return r
    r.notes.append("index-lowering kinds found in doOperation: %s" % sorted(lowering))
    # the replacing kind (Set) overwrites every word it covers: its stores are unconditional inside their arm -- a skipped zero
    # word of the new number would keep the old content of that word of the object (operator= clears only ABOVE the new index_)
    for f in does:
        par = f.parents()
        for sw in astq.nodes_of(f, "SwitchStmt"):
            for labels, stmts in astq.switch_arms(f, sw):
                names = [(l[0] or "").split("::")[-1] for l in labels]
                if names and names != ["default"] and names != [""]:
                    continue
                arm_nodes = set(x for s_ in stmts for x in f.walk(s_))
                for x in sorted(arm_nodes):
                    n = f.nodes[x]
                    if n["k"] == "BinaryOperator" and n["op"] == "=" and f.text(n["ch"][0]).replace("this.", "").startswith("storage_["):
                        cond_anc = None
                        up = par.get(x)
                        while up is not None and up in arm_nodes:
                            if f.nodes[up]["k"] in ("IfStmt", "ConditionalOperator"):
                                cond_anc = up
                            up = par.get(up)
                        ctx.note_fn(f)
                        r.ob(f.sig, "Set arm: %s" % f.text(x)[:50], cond_anc is None, "the word is stored unconditionally" if cond_anc is None else
                             "the store is skipped when `%s` is false: that word of the object keeps its previous content inside the new number" % f.text(f.nodes[cond_anc]["cond"])[:50], f.loc(x))
    for f in m.functions:
        if f.inst or not f.cfg or f.cls != "Qentem::BigInt":
            continue
        for c in astq.calls(f):
            if f.call_simple_name(c) != "doOperation":
                continue
            callee = f.nodes[f.strip(f.nodes[c]["ch"][0])] if f.nodes[c].get("ch") else {}
            targs = " ".join(callee.get("targs", []))      # explicit template arguments of the call: doOperation<BigIntOperation::And>
            t = "doOperation<%s>(%s)" % (targs, ", ".join(f.text(a) for a in f.call_args(c)))
            kinds = [k for k in lowering if targs.endswith("::" + k) or targs == k]
            if not kinds:
                continue
            ctx.note_fn(f)
            is_ctor = f.name.split("<")[0] == "BigInt"
            if is_ctor:
                r.ob(f.sig, t[:60], True, "constructor: the storage is zero-initialised", f.loc(c), nontrivial=False)
                continue
            clears = False
            for w in astq.nodes_of(f, "WhileStmt"):
                if w < c:
                    continue
                cond = f.nodes[w].get("cond", -1)
                body = f.nodes[w].get("body", -1)
                if cond is None or cond < 0 or "index_" not in f.text(cond):
                    continue
                if any(f.nodes[y]["k"] == "BinaryOperator" and f.nodes[y]["op"] == "=" and "storage_[" in f.text(f.nodes[y]["ch"][0]) and f.const_value(f.nodes[y]["ch"][1]) == 0 for y in f.walk(body)):
                    clears = True
            r.ob(f.sig, t[:60], clears, "the words above the new index_ are cleared after the call" if clears else
                 "the operation sets index_ = 0 and nothing clears the words above it: the object keeps high words of its previous value (x &= 0x0F leaves word 2), which the next growing operation takes for part of the number", f.loc(c))
    return r



def rule_normalise(ctx, m):
    """SB-normalise: index_ names the highest non-zero word (0 for zero); IsZero / IsBig / the comparisons with a word read index_
    only.  The members that can make high words zero -- they subtract from, multiply, divide, shift right or mask words of
    storage_ -- therefore bring index_ down afterwards: each of them contains a decrement (or a conditional adjustment) of
    index_ that depends on a test of a storage word against zero, or ends in Clear().  Sibling cross-check: the member without
    one leaves index_ above a zero top word (x *= 0 then reports NotZero)."""
    r = Rule("SB-normalise", "members that can zero the top words of a BigInt bring index_ down to the highest non-zero word", floor=4)
    SHRINK = ("Subtract", "Multiply", "Divide", "ShiftRight")
    for f in m.functions:
        if f.inst or not f.cfg or f.cls != "Qentem::BigInt" or f.name.split("<")[0] not in SHRINK:
            continue
        ctx.note_fn(f)
        norm = None
        looped = False
        for x in f.walk():
            n = f.nodes[x]
            # --index_ / index_ -= e / index_ = e
            lowers = (n["k"] == "UnaryOperator" and n["op"] == "--" and f.text(n["ch"][0]).replace("this.", "") == "index_") or \
                (n["k"] in ("CompoundAssignOperator",) and n["op"] == "-=" and f.text(n["ch"][0]).replace("this.", "") == "index_") or \
                (n["k"] == "BinaryOperator" and n["op"] == "=" and f.text(n["ch"][0]).replace("this.", "") == "index_")
            if not lowers:
                continue
            # depends on a zero test of a storage word: an enclosing condition, or the assigned expression itself
            deps = [f.text(n["ch"][1])] if n["k"] != "UnaryOperator" and len(n.get("ch", [])) > 1 else []
            up = f.parents().get(x)
            while up is not None:
                un = f.nodes[up]
                if un["k"] in ("WhileStmt", "IfStmt", "DoStmt", "ForStmt") and un.get("cond", -1) is not None and un.get("cond", -1) >= 0:
                    deps.append(f.text(un["cond"]))
                up = f.parents().get(up)
            # locals assigned under a zero test count too (index = ...; while (storage_[index] == 0) --index; index_ = index)
            if n["k"] == "BinaryOperator":
                rhs = f.nodes[f.strip(n["ch"][1])]
                if rhs["k"] == "DeclRefExpr":
                    for w in astq.nodes_of(f, ("WhileStmt", "DoStmt")):
                        c_ = f.nodes[w].get("cond", -1)
                        if c_ is not None and c_ >= 0 and rhs["n"] in f.text(c_):
                            deps.append(f.text(c_))
            if any("storage_[" in d and ("== 0" in d or "!= 0" in d or "== Number_T" in d or "!= Number_T" in d) for d in deps):
                norm = x
                # is the lowering repeated (inside a loop whose condition has the zero test)?
                up = f.parents().get(x)
                while up is not None:
                    un = f.nodes[up]
                    if un["k"] in ("WhileStmt", "DoStmt", "ForStmt") and un.get("cond", -1) is not None and un.get("cond", -1) >= 0 and "storage_[" in f.text(un["cond"]):
                        looped = True
                    up = f.parents().get(up)
                if looped:
                    break
        ends_clear = any(f.call_simple_name(c) == "Clear" for c in astq.calls(f))
        ok = norm is not None
        r.ob(f.sig, "index_ after %s" % f.name, ok, "index_ is lowered under a zero test of a storage word (%s)" % f.text(norm)[:40] if ok else
             "nothing in this member lowers index_ when the words it produced are zero%s: after a result of zero IsZero() is false and NotZero() true" % (" (Clear() is only one of its paths)" if ends_clear else ""),
             "Include/BigInt.hpp:%d" % f.line)
        # how many words can become zero at once: a division by a word or a shift by less than a word empties the top word only,
        # but a multiplication (by zero) and a subtraction that starts in the top word can leave any number of zero words on top
        if ok and f.name.split("<")[0] in ("Multiply", "Subtract"):
            zero_all = any(f.call_simple_name(c) == "Clear" for c in astq.calls(f)) or \
                any(f.nodes[y]["k"] == "BinaryOperator" and f.nodes[y]["op"] == "=" and f.text(f.nodes[y]["ch"][0]).replace("this.", "") == "index_" and f.const_value(f.nodes[y]["ch"][1]) == 0 for y in f.walk())
            r.ob(f.sig, "index_ after %s (every zero word)" % f.name, looped or zero_all, "the lowering is repeated while the top word is zero" if (looped or zero_all) else
                 "index_ is lowered by at most one word here, but %s can leave several zero words on top (x *= 0 on a three-word value keeps index_ = 1: IsZero() is false, x == 0 is false)" % f.name,
                 f.loc(norm))
        # the normalisation of Subtract is conditional on the borrow having reached the top word: the position compared with index_
        # is the one that indexes the stores of the borrow loop
        if ok and f.name.split("<")[0] == "Subtract":
            store_subs = set()
            for y in f.walk():
                yn = f.nodes[y]
                if yn["k"] in ("CompoundAssignOperator", "BinaryOperator") and yn.get("op", "").endswith("=") and yn["op"] not in ("==", "!=", "<=", ">="):
                    lh = f.nodes[f.strip(yn["ch"][0])]
                    if lh["k"] == "ArraySubscriptExpr" and "storage_" in f.text(lh["ch"][0]):
                        store_subs.add(f.text(f.strip_casts(lh["ch"][1])))
            up = f.parents().get(norm)
            while up is not None:
                un = f.nodes[up]
                if un["k"] == "IfStmt":
                    for y in f.walk(un["cond"]):
                        yn = f.nodes[y]
                        if yn["k"] == "BinaryOperator" and yn["op"] in (">=", ">", "==", "<=", "<"):
                            a_, b_ = f.text(f.strip_casts(yn["ch"][0])).replace("this.", ""), f.text(f.strip_casts(yn["ch"][1])).replace("this.", "")
                            other = b_ if a_ == "index_" else a_ if b_ == "index_" else None
                            if other is not None and f.const_value(yn["ch"][0]) is None and f.const_value(yn["ch"][1]) is None:
                                okg = other in store_subs
                                r.ob(f.sig, "guard `%s` of the normalisation" % f.text(y), okg, "`%s` is the position the borrow loop stores through" % other if okg else
                                     "`%s` is compared with index_, but the borrow loop stores through %s: the test does not see where the borrow stopped (0x100 - 1 with 8-bit words keeps index_ = 1 over a zero word)" % (other, sorted(store_subs)), f.loc(y))
                up = f.parents().get(up)
    return r



def rule_raise_only(ctx, m):
    """SB-raise: the operations that cannot shrink a non-negative number (Add, |=) may move index_ upwards only: every assignment
    index_ = E in Add() and in the Or arms of doOperation is guarded by E > index_ (a literal 0 on the wrap-around path of Add
    is the overflow case the property excludes).  An unguarded assignment lowers index_ when the object is longer than the
    operand, and the object forgets its upper words."""
    r = Rule("SB-raise", "Add and |= only ever raise index_ (index_ = E under E > index_)", floor=2)
    sites = []
    for f in m.functions:
        if f.inst or not f.cfg or f.cls != "Qentem::BigInt":
            continue
        base = f.name.split("<")[0]
        if base == "Add":
            sites.append((f, None, "Add"))
        elif base == "doOperation":
            for sw in astq.nodes_of(f, "SwitchStmt"):
                for labels, stmts in astq.switch_arms(f, sw):
                    if [(l[0] or "").split("::")[-1] for l in labels] == ["Or"]:
                        sites.append((f, stmts, "|= arm"))
    if not sites:
        r.broke("BigInt::Add / the Or arms of doOperation were not found")
        return r
    for (f, stmts, what) in sites:
        par = f.parents()
        nodes = [x for s_ in stmts for x in f.walk(s_)] if stmts is not None else list(f.walk())
        for x in nodes:
            n = f.nodes[x]
            if not (n["k"] == "BinaryOperator" and n["op"] == "=" and f.text(n["ch"][0]).replace("this.", "") == "index_"):
                continue
            if f.const_value(n["ch"][1]) is not None:
                continue
            ctx.note_fn(f)
            E = f.text(n["ch"][1])
            guarded = False
            up = par.get(x)
            child = x
            while up is not None:
                un = f.nodes[up]
                if un["k"] == "IfStmt" and child == un.get("then"):
                    ct = f.text(un["cond"]).replace("this.", "").replace(" ", "")
                    if ("%s>index_" % E.replace(" ", "")) in ct or ("index_<%s" % E.replace(" ", "")) in ct:
                        guarded = True
                child = up
                up = par.get(up)
            r.ob(f.sig, "%s: index_ = %s" % (what, E), guarded, "raised only: the assignment is under `%s > index_`" % E if guarded else
                 "index_ is assigned without the test `%s > index_`: when the object is longer than the operand index_ is lowered and the upper words are forgotten" % E, f.loc(x))
    return r



def rule_shift_width(ctx, m, ct):
    """SHIFT-width: shifting a word by its own width or more is undefined (on x86 a shift by 64 is a shift by 0: the word is
    OR-ed onto itself).  ShiftLeft / ShiftRight split the amount into whole words and a remainder and shift words by the
    remainder `offset` and by `TypeWidth() - offset`.  E-ZONE, taught the one idiom the difference-bound domain cannot derive
    (after  move = x / W;  x -= move * W  the remainder satisfies 0 <= x < W), proves at every shift of a storage word that
    the amount is at most TypeWidth() - 1."""
    from qlib import dataflow
    r = Rule("SHIFT-width", "every shift of a BigInt word is by less than the word width", floor=6)
    for f in m.functions:
        if f.inst or not f.cfg or f.cls != "Qentem::BigInt" or f.name not in ("ShiftLeft", "ShiftRight"):
            continue
        ctx.note_fn(f)
        z = ModZone(m, f, ct)
        states = dataflow.run(f, z)
        wcalls = [c for c in astq.calls(f, "TypeWidth")]
        if not wcalls:
            r.broke("%s: no TypeWidth() call to anchor the width" % f.q)
            continue
        blocks = f.blocks()
        for bid, st0 in states.items():
            st = z.copy(st0)
            for e in blocks[bid]["el"]:
                x = e.get("n")
                if isinstance(x, int) and not e.get("k") and not st.bottom:
                    n = f.nodes[x]
                    amount = None
                    if n["k"] == "BinaryOperator" and n["op"] in ("<<", ">>"):
                        amount, word = n["ch"][1], n["ch"][0]
                    elif n["k"] == "CompoundAssignOperator" and n["op"] in ("<<=", ">>="):
                        amount, word = n["ch"][1], n["ch"][0]
                    if amount is not None and "storage_[" in f.text(word):
                        A = z.lin(st, amount)
                        W = z.lin(st, wcalls[0])
                        ok = A is not None and W is not None and st.lin_le0((A - W).shift(1))
                        r.ob(f.sig, f.text(x)[:60], ok, "the amount is proven <= TypeWidth() - 1 here" if ok else
                             "the amount `%s` is not proven smaller than the word width on every path to this shift (a shift by exactly TypeWidth() reaches it): undefined behaviour, the word is combined with itself instead of moving a whole word" % f.text(amount)[:30],
                             f.loc(x))
                z.transfer(f, st, e, blocks[bid])
    return r



def rule_counted_decrement(ctx, m, ct):
    """ZB-count: a loop that steps index_ down once per unit of a counter (--index_; --move; while (move != 0)) runs index_ below
    zero -- it is unsigned: 0xFFFFFFFF, then storage_[0xFFFFFFFF] -- unless the counter is at most index_ when the loop is entered.
    E-ZONE state at the first statement of the loop body: counter - index_ <= 0 must be proven (the lock-step decrements keep
    the difference, so the fact at the entry is the loop invariant)."""
    from qlib import dataflow
    from qlib.zone import Zone, Lin
    r = Rule("ZB-count", "a loop that decrements index_ once per unit of a counter is entered with counter <= index_", floor=1)
    for f in m.functions:
        if f.inst or not f.cfg or f.cls != "Qentem::BigInt":
            continue
        for w in astq.nodes_of(f, ("DoStmt", "WhileStmt")):
            body = f.nodes[w].get("body", -1)
            cond = f.nodes[w].get("cond", -1)
            if body is None or body < 0 or cond is None or cond < 0:
                continue
            decs = [f.nodes[y]["ch"][0] for y in f.walk(body) if f.nodes[y]["k"] == "UnaryOperator" and f.nodes[y]["op"] == "--"]
            dec_names = [f.text(d).replace("this.", "") for d in decs]
            if "index_" not in dec_names:
                continue
            cn = f.nodes[f.strip(cond)]
            if cn["k"] != "BinaryOperator" or cn["op"] != "!=" or f.const_value(cn["ch"][1]) != 0:
                continue
            counter = f.text(cn["ch"][0])
            if counter.replace("this.", "") == "index_" or counter not in dec_names:
                continue
            ctx.note_fn(f)
            z = ModZone(m, f, ct)
            states = dataflow.run(f, z)
            first = None
            for b in f.cfg["blocks"]:
                for e in b["el"]:
                    if isinstance(e.get("n"), int) and not e.get("k") and e["n"] in set(f.walk(body)):
                        first = (b["id"], e["n"])
                        break
                if first:
                    break
            ok = False
            if first and first[0] in states:
                st = z.copy(states[first[0]])
                for e in f.blocks()[first[0]]["el"]:
                    if e.get("n") == first[1]:
                        break
                    z.transfer(f, st, e, f.blocks()[first[0]])
                C = z.lin(st, cn["ch"][0])
                I = z.lin(st, decs[dec_names.index("index_")])
                ok = C is not None and I is not None and not st.bottom and st.lin_le0(C - I)
            r.ob(f.sig, "do { --index_; --%s; } while (%s != 0)" % (counter, counter), ok, "%s <= index_ holds whenever the body starts" % counter if ok else
                 "nothing bounds `%s` by index_ when the loop is entered: with %s > index_ the unsigned index_ wraps below zero and the next store is far outside the object" % (counter, counter), f.loc(w))
    return r


from qlib.zone import Zone as _Zone, Lin as _Lin
Zone, Lin = _Zone, _Lin


class ModZone(Zone):
    def transfer(self, fn, st, e, block):
        Zone.transfer(self, fn, st, e, block)
        x = e.get("n")
        if not isinstance(x, int) or e.get("k") or st.bottom:
            return
        n = fn.nodes[x]
        if n["k"] == "DeclStmt":
            # m = x / c  with x >= c known:  m >= 1
            for d in n["decls"]:
                if "d" in d and d.get("init", -1) >= 0:
                    dn = fn.nodes[fn.strip_casts(d["init"])]
                    if dn["k"] == "BinaryOperator" and dn["op"] == "/":
                        X, Cw = self.lin(st, dn["ch"][0]), self.lin(st, dn["ch"][1])
                        if X is not None and Cw is not None and st.lin_le0(Cw - X):
                            st.add_lin_le0(Lin({}, 1) - Lin({"v:%s#%d" % (d["n"], d["d"]): 1}))
        if n["k"] == "CompoundAssignOperator" and n["op"] == "-=":
            lhs, rhs = n["ch"]
            rn = fn.nodes[fn.strip_casts(rhs)]
            if rn["k"] == "BinaryOperator" and rn["op"] == "*":
                a, b = rn["ch"]
                for (mv, cw) in ((a, b), (b, a)):
                    mn = fn.nodes[fn.strip_casts(mv)]
                    if mn["k"] != "DeclRefExpr":
                        continue
                    # mv was initialised as  lhs / cw
                    for ds in astq.nodes_of(fn, "DeclStmt"):
                        for d in fn.nodes[ds]["decls"]:
                            if d.get("d") == mn.get("d") and d.get("init", -1) >= 0:
                                dn = fn.nodes[fn.strip_casts(d["init"])]
                                if dn["k"] == "BinaryOperator" and dn["op"] == "/" and fn.text(dn["ch"][0]) == fn.text(lhs) and fn.text(dn["ch"][1]) == fn.text(cw):
                                    t = self.term_of(lhs)
                                    W = self.lin(st, cw)
                                    if t is not None and W is not None:
                                        st.add_lin_le0((Lin({t: 1}) - W).shift(1))       # x <= W - 1
                                        st.add_lin_le0(Lin({}, 0) - Lin({t: 1}))          # x >= 0
