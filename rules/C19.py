"""C19 -- BigInt holds the exact mathematical integer (thin: storage bounds, scan shapes, siblings)."""
import re

from qlib import astq
from qlib.model import AnalysisBroken
from qlib.report import Rule
from qlib.zone import ContractTable, Contract
from qlib import zonecheck

META = {
    "explanation": "Thin structural check. (ZB-bigint) E-ZONE with the class invariant index_ <= MaxIndex() (assumed on "
                   "entry, proven on every exit, re-assumed after calls of other methods) proves every storage_[e] "
                   "access in range for the BigInt members it can follow; members whose index arithmetic is beyond "
                   "difference bounds are listed as not decided, with reason. (SCAN) a loop that walks storage_[i] by "
                   "++i/--i bounds i in its own condition, and a condition `storage_[i] .. && bound(i)` tests the bound "
                   "first. (AGREE) FindFirstBit/FindLastBit pass to the platform bit scan the same word whose index they "
                   "multiply by TypeWidth(). (SB-double) the 8/16/32-bit DoubleSize helpers are identical up to the wide "
                   "type and their shift equals the word width. (SB-addsub) Add and Subtract are mirror images. (PL-bits) "
                   "the platform bit scans use the builtin of the operand's width in every branch.",
    "not_decided": "arithmetic exactness (carry propagation, 128/64 division); storage bounds of ShiftLeft/ShiftRight "
                   "block moves, Multiply, Divide, doOperation, copy and the public SetIndex (caller contract)",
    "assumptions": ["index + small constant does not overflow 32 bits"],
}

B = "Qentem::BigInt::"
NOT_DECIDED = {
    "ShiftLeft": "block move indices index_ + move after a clamp (needs a three-term relation)",
    "ShiftRight": "block move over [move, index_] (needs next - index == move as an invariant)",
    "Multiply": "descending do-while driven by --index from index_ + 1",
    "Divide": "index_ adjusted by a boolean expression",
    "doOperation": "word loop bounded by number != 0 and the value width, not by an index comparison",
    "copy": "bounded by the other object's invariant (src.index_ <= MaxIndex())",
    "operator=": "delegates to copy",
    "SetIndex": "public setter: the caller promises index <= MaxIndex()",
    "BigInt": "constructors delegate to doOperation/copy",
}


def run(ctx):
    m = ctx.pattern()
    rules = []

    # ---------------- ZB-bigint
    zr = Rule("ZB-bigint", "storage_[e] accesses stay within [0, MaxIndex()] (E-ZONE under the invariant index_ <= MaxIndex())", floor=14)
    zi = Rule("ZB-inv", "index_ <= MaxIndex() is re-established on every exit of the members analysed", floor=20)
    fns = [f for f in m.functions if f.cls == "Qentem::BigInt" and not f.inst and f.cfg]
    table = {}
    for f in fns:
        table[f.q + "/%d" % len(f.params)] = Contract(buffers={"f:storage_": "g:this|MaxIndex()+1"}, invariants=[("f:index_", "g:this|MaxIndex()", 0)])
    ct = ContractTable(table)
    skipped = set()
    for f in fns:
        if f.name in NOT_DECIDED or f.name.startswith("operator") and f.name in ("operator=",):
            skipped.add(f.name)
            continue
        ctx.note_fn(f)
        obs, stats, _ = zonecheck.analyse(m, f, ct)
        for o in obs:
            if o.rule == "ZB-read":
                zr.add_zone(o)
                zr.obs[-1].fn_q = f.sig
            elif o.rule == "ZB-inv":
                zi.add_zone(o)
                zi.obs[-1].fn_q = f.sig
    zr.notes.append("members not decided by this rule: " + "; ".join("%s (%s)" % (k, v) for k, v in sorted(NOT_DECIDED.items()) if k in skipped or True))
    rules += [zr, zi]

    # ---------------- SCAN
    r = Rule("SCAN", "loops that walk storage_[i] bound i in their condition, bound first", floor=3)
    for f in fns:
        for w in astq.nodes_of(f, ("WhileStmt", "DoStmt")):
            cond = f.nodes[w]["cond"]
            subs = [x for x in f.walk(cond) if f.nodes[x]["k"] == "ArraySubscriptExpr" and f.text(f.nodes[x]["ch"][0]) in ("storage_", "this.storage_")]
            if not subs:
                continue
            idx = f.text(f.nodes[subs[0]]["ch"][1])
            body = f.nodes[w]["body"]
            steps = [x for x in f.walk(body) if f.nodes[x]["k"] == "UnaryOperator" and f.nodes[x]["op"] in ("++", "--") and f.text(f.nodes[x]["ch"][0]) == idx]
            if not steps:
                continue
            # atoms of the condition in evaluation order
            atoms = []

            def flat(n_):
                nn = f.nodes[f.strip(n_)]
                if nn["k"] == "BinaryOperator" and nn["op"] == "&&":
                    flat(nn["ch"][0])
                    flat(nn["ch"][1])
                else:
                    atoms.append(f.strip(n_))
            flat(cond)
            bound_pos = [i for i, a in enumerate(atoms) if subs[0] not in set(f.walk(a)) and any(f.nodes[x]["k"] == "DeclRefExpr" and f.nodes[x]["n"] == idx.split(".")[-1] or f.text(x) == idx for x in f.walk(a))]
            sub_pos = [i for i, a in enumerate(atoms) if subs[0] in set(f.walk(a))]
            ok = bool(bound_pos) and bound_pos[0] < sub_pos[0]
            why = "condition `%s`: " % f.text(cond) + ("the bound on %s is tested before the element is read" % idx if ok else
                  ("no bound on %s: the scan leaves the array when every word matches (zero value)" % idx if not bound_pos else
                   "the element is read before the bound on %s is tested" % idx))
            r.ob(f.sig, "loop over storage_[%s]" % idx, ok, why, f.loc(w))
    rules.append(r)

    # ---------------- AGREE
    r = Rule("AGREE", "bit scans: the word scanned and the word index multiplied by TypeWidth() are the same", floor=2)
    for name in ("FindFirstBit", "FindLastBit"):
        f = m.fn(B + name)
        ctx.note_fn(f)
        rets = astq.returns(f)
        t = f.text(f.nodes[rets[-1]]["val"])
        mt = re.search(r"%s\(storage_\[(\w+)\]\)" % name, t)
        mul = re.search(r"\((\w+) \* TypeWidth\(\)\)", t)
        ok = bool(mt and mul and mt.group(1) == mul.group(1))
        r.ob(f.q, "return " + t, ok, "scans storage_[%s], scales index %s" % (mt.group(1) if mt else "?", mul.group(1) if mul else "?"), f.loc(rets[-1]))
    rules.append(r)

    # ---------------- SB-double
    r = Rule("SB-double", "DoubleSize<8|16|32> siblings identical up to the wide type; shift equals the word width", floor=5)
    shapes = {}
    for f in m.functions:
        if f.inst or f.cls != "Qentem::DoubleSize":
            continue
        ta = f.d.get("clstargs", "")
        w = int("".join(ch for ch in ta.split(",")[-1] if ch.isdigit()) or 0)
        if w in (8, 16, 32):
            body = " ; ".join(f.text(x) for x in f.nodes[f.body].get("ch", []))
            norm = re.sub(r"SizeT(16|32|64)", "WIDE", body)
            norm = re.sub(r"(dividend|number)(16|32|64)", r"\1W", norm)
            shapes.setdefault(f.name, {})[w] = norm
    for name, d in shapes.items():
        r.ob("Qentem::DoubleSize::" + name, "siblings", len(d) == 3 and len(set(d.values())) == 1, "normalised bodies %s" % ("agree" if len(set(d.values())) == 1 else d), "Include/BigInt.hpp")
    for v in m.vars:
        if v["q"] == "Qentem::DoubleSize::shift_":
            w = int("".join(ch for ch in v.get("targs", "").split(",")[-1] if ch.isdigit()) or 0)
            val = m.const_of_var(v)
            want = w if w != 64 else 32
            if w == 64:
                continue   # the 64-bit helper splits words by halves; its constants are expressions of TypeWidth()
            r.ob("Qentem::DoubleSize" + v.get("targs", ""), "shift_", val == want, "shift_ = %s for %d-bit words (want %d)" % (val, w, want), "Include/BigInt.hpp:%d" % v["line"])
    rules.append(r)

    # ---------------- SB-addsub
    r = Rule("SB-addsub", "Add and Subtract: word loop bounded by MaxIndex(), carry/borrow detected against the saved word, unit carry", floor=2)
    for name, upd, cmp_ in (("Add", "+=", ">"), ("Subtract", "-=", "<")):
        g = m.fn(B + name)
        ctx.note_fn(g)
        ws = astq.nodes_of(g, "WhileStmt")
        ok, why = False, "no word loop"
        if ws:
            w = ws[0]
            body = g.nodes[w]["body"]
            cond = g.text(g.nodes[w]["cond"]).replace(" ", "").replace("this.", "")
            idx = None
            saved = None
            upd_ok = False
            for x in g.walk(body):
                nx = g.nodes[x]
                if nx["k"] == "DeclStmt":
                    for d in nx["decls"]:
                        if d.get("init", -1) >= 0 and g.text(d["init"]).replace("this.", "").startswith("storage_["):
                            saved = d["n"]
                            idx = g.text(d["init"]).replace("this.", "")[len("storage_["):-1]
                if nx["k"] == "CompoundAssignOperator" and g.text(nx["ch"][0]).replace("this.", "") == "storage_[%s]" % idx:
                    upd_ok = nx["op"] == upd
            test_ok = False
            for i_ in astq.nodes_of(g, "IfStmt", body):
                cn = g.nodes[g.strip(g.nodes[i_]["cond"])]
                if cn["k"] == "BinaryOperator" and cn["op"] in ("<", ">", "<=", ">=") and saved and \
                        g.text(cn["ch"][0]).replace("this.", "") == "storage_[%s]" % idx and g.text(cn["ch"][1]) == saved:
                    leaves = any(g.nodes[y]["k"] in ("BreakStmt", "ReturnStmt") for y in g.walk(g.nodes[i_]["then"]))
                    test_ok = cn["op"] == cmp_ and leaves
            unit = any(g.nodes[x]["k"] == "BinaryOperator" and g.nodes[x]["op"] == "=" and g.text(g.nodes[x]["ch"][0]) == g.params[0]["n"] and
                       g.nodes[g.strip_casts(g.nodes[x]["ch"][1])].get("cv", None) == 1 or
                       (g.nodes[x]["k"] == "BinaryOperator" and g.nodes[x]["op"] == "=" and g.text(g.nodes[x]["ch"][0]) == g.params[0]["n"] and "1" in g.text(g.nodes[x]["ch"][1]))
                       for x in g.walk(body))
            step = any(g.nodes[x]["k"] == "UnaryOperator" and g.nodes[x]["op"] == "++" and g.text(g.nodes[x]["ch"][0]) == idx for x in g.walk(body))
            bound = cond in ("(%s<=MaxIndex())" % idx, "%s<=MaxIndex()" % idx)
            ok = bool(idx and saved and upd_ok and test_ok and unit and step and bound)
            why = "loop `%s`; word saved in `%s`; update %s %s; no-%s test `storage_[%s] %s %s` leaves the loop: %s; carry unit 1: %s; ++%s: %s" % (
                g.text(g.nodes[w]["cond"]), saved, upd, "ok" if upd_ok else "WRONG", "carry" if name == "Add" else "borrow", idx, cmp_, saved, test_ok, unit, idx, step)
        r.ob(g.q, "%s word loop" % name, ok, why, "Include/BigInt.hpp:%d" % g.line)
    rules.append(r)

    # ---------------- PL-bits
    r = Rule("PL-bits", "platform bit scans use the builtin matching the operand width", floor=2)
    for name, b64, b32 in (("FindFirstBit", "__builtin_ctzl", "__builtin_ctz"), ("FindLastBit", "__builtin_clzl", "__builtin_clz")):
        fs = [f for f in m.fns("Qentem::Platform::" + name, required=False) if not f.inst]
        for f in fs:
            ctx.note_fn(f)
            bad = []
            for c in astq.calls(f):
                nm = f.call_simple_name(c) or ""
                if nm.startswith("__builtin_c"):
                    arg = f.text(f.call_args(c)[0])
                    wide = "unsigned long" in arg
                    if (nm.endswith("l") and not wide) or (not nm.endswith("l") and wide):
                        bad.append("%s(%s)" % (nm, arg))
                    # the 64-bit builtin must sit under the 8-byte / 63-bit test
                    if nm.endswith("l"):
                        enc = astq.enclosing(f, c, ("IfStmt",))
                        ct = f.text(f.nodes[enc]["cond"]) if enc is not None else ""
                        if "is_size_8" not in ct and "is_size_63b" not in ct:
                            bad.append("%s outside the 64-bit branch" % nm)
            r.ob(f.q, name, not bad, "builtin/operand width pairs: %s" % (bad or "consistent"), "Include/Platform.hpp:%d" % f.line)
    rules.append(r)
    return rules
