"""C04 -- expression evaluation equals exact arithmetic with the documented precedence (structural clauses)."""
import os
import re

from qlib import astq, dataflow, tab
from qlib.model import AnalysisBroken, REPO
from qlib.report import Rule

META = {
    "explanation": "E-TAB/E-PROTO: (TB-rank) the enumerator order of QOperation agrees with the precedence groups "
                   "parsed on every run from Documentation/Template.md ('Evaluation Order'), the rank comparisons in "
                   "evaluate() are the anchored `>=`/`<`, and the two-character-operator test in parseExpressions "
                   "matches exactly the two-character operators; (X-symbols) getOperation maps each symbol constant to "
                   "the operator of that name, doubled forms to the logical/relational operators, lone ! and = to "
                   "Error; (X-apply) evaluateExpression has an arm per operator applying the homonymous QExpression "
                   "operator, relational/logical arms store 0/1 as NaturalNumber; (DIV-guard) every integer / and % in "
                   "QExpression.hpp and Template.hpp has a constant non-zero divisor or a local divisor proven != 0 "
                   "(and != -1 for signed operands) by dominating tests; (X-novalue) the Division and Remainder arms "
                   "return 'no value' under a typed zero test of the divisor. Not decided: numeric results, the "
                   "precedence-climbing algorithm itself.",
    "not_decided": "arithmetic results of QExpression operators; correctness of the precedence-climbing loop in "
                   "evaluate() for every operator sequence",
    "assumptions": [],
}
META["explanation"] += " " + '(PR-consumed) a value or expression text is taken as a number only when the scanner consumed all of it: the cursor form of StringToNumber is followed by a comparison of the cursor with the end, and the cursor-less overload is not used outside Digit.hpp.'
META["explanation"] += " " + '(SB-climb) on every path from an application of an operator back to the head of the climbing loop of evaluate() the test previous_oper < next operator was passed on its true edge, in the direct and in the recursive branch alike. (SB-powsign) after the magnitude of a power is computed the result is negated only under base-negative AND exponent-odd (must-analysis over the boolean locals known true). (REAL-trunc) a Real operand of ^ is truncated to an integer only next to a test of whether it has a fractional part.'
META["explanation"] += " " + '(TS-expr) each (left kind, right kind) arm of QExpression += -= *= /= leaves Type naming the member it wrote. (PR-spanstart) the text span of an operand the number scanner rejected starts at a cursor saved before the scan.'

DOC_NAMES = {
    "exponent": ["Exponent"], "remainder": ["Remainder"], "multiplication": ["Multiplication"],
    "division": ["Division"], "addition": ["Addition"], "subtraction": ["Subtraction"],
    "bitwise and": ["BitwiseAnd"], "bitwise or": ["BitwiseOr"], "equal": ["Equal"], "not equal": ["NotEqual"],
    "less than": ["Less", "LessOrEqual"], "greater than": ["Greater", "GreaterOrEqual"], "and": ["And"], "or": ["Or"],
}

SYMBOL_TO_OP = {
    # symbol constant: (operator when doubled/with '=', operator when alone)
    "OrExp": ("Or", "BitwiseOr"), "AndExp": ("And", "BitwiseAnd"), "GreaterExp": ("GreaterOrEqual", "Greater"),
    "LessExp": ("LessOrEqual", "Less"), "NotExp": ("NotEqual", "Error"), "EqualExp": ("Equal", "Error"),
    "SubtractExp": (None, "Subtraction"), "AddExp": (None, "Addition"), "DivideExp": (None, "Division"),
    "MultipleExp": (None, "Multiplication"), "RemainderExp": (None, "Remainder"), "ExponentExp": (None, "Exponent"),
}
SYMBOL_CHARS = {"RemainderExp": "%", "MultipleExp": "*", "DivideExp": "/", "AddExp": "+", "SubtractExp": "-",
                "EqualExp": "=", "NotExp": "!", "LessExp": "<", "GreaterExp": ">", "AndExp": "&", "OrExp": "|",
                "ParenthesesStart": "(", "ParenthesesEnd": ")", "BracketStart": "{", "BracketEnd": "}",
                "ExponentExp": "^", "SpaceChar": " "}

APPLY = {
    "Exponent": "^=", "Remainder": "%", "Multiplication": "*=", "Division": "/=", "Addition": "+=",
    "Subtraction": "-=", "BitwiseAnd": "&=", "BitwiseOr": "|=", "Less": "<", "LessOrEqual": "<=", "Greater": ">",
    "GreaterOrEqual": ">=", "And": "&&", "Or": "||", "Equal": "isEqual", "NotEqual": "isEqual",
}


META["explanation"] += " " + '(SIGN-kind) every read of Value.Number.Integer that is an operand of < <= > >= or converted to double sits where the kind of its owner cannot be NaturalNumber (a switch arm without that label, or a dominating Type test); in const members the mirror clause holds for Number.Natural converted to double and IntegerNumber. (ZERO-after) after `while (v != 0)` without a break, v is not tested (comparison or & mask) before it is assigned again.'

META["explanation"] += " " + 'Taken over unchanged from other modules because a seeded change to this property was reported by them (rules.common.shared): PR-chain from C02.'

def doc_groups():
    p = os.path.join(REPO, "Documentation", "Template.md")
    if not os.path.exists(p):
        raise AnalysisBroken("Documentation/Template.md not found")
    txt = open(p, encoding="utf-8").read()
    mt = re.search(r"###\s*Evaluation Order\s*\n(.*?)(\n#|\Z)", txt, re.S)
    if not mt:
        raise AnalysisBroken("section 'Evaluation Order' not found in Documentation/Template.md")
    groups = []
    for line in mt.group(1).splitlines():
        line = line.strip()
        if not line.startswith("-"):
            continue
        items = [x.strip().lower() for x in line.lstrip("- ").split(".") if x.strip()]
        if items == ["parentheses"]:
            continue
        ops = []
        for it in items:
            if it not in DOC_NAMES:
                raise AnalysisBroken("documented operator %r has no enumerator mapping" % it)
            ops += DOC_NAMES[it]
        groups.append(ops)
    if len(groups) < 5:
        raise AnalysisBroken("fewer than 5 precedence groups parsed from the documentation")
    return groups


def enum_ref(fn, nid, enum_name):
    """enumerator name if the expression is EnumName::X"""
    n = fn.nodes[fn.strip(nid)]
    if n["k"] == "DeclRefExpr" and n.get("dk") == "enumc" and (n.get("q") or "").split("::")[-2:-1] == [enum_name]:
        return n["n"]
    return None


class NonZero(dataflow.Client):
    """must-facts (variable decl id, excluded constant) from dominating tests"""

    def initial(self, fn):
        return frozenset()

    def copy(self, st):
        return st

    def join(self, a, b):
        return a & b

    def equal(self, a, b):
        return a == b

    def transfer(self, fn, st, e, block):
        return

    def run(self, fn):
        # immutable states: do the fixpoint by hand (transfer returns new state)
        blocks = fn.blocks()
        entry = fn.cfg["entry"]
        states = {entry: frozenset()}
        work = [entry]
        while work:
            bid = work.pop()
            b = blocks[bid]
            st = states[bid]
            for e in b["el"]:
                st = self.step(fn, st, e)
            for (s, kind, payload) in dataflow.successors(fn, b):
                out = st
                if kind in ("true", "false"):
                    out = self.edge(fn, st, payload, kind == "true")
                if s not in states:
                    states[s] = out
                    work.append(s)
                else:
                    new = states[s] & out
                    if new != states[s]:
                        states[s] = new
                        work.append(s)
        return states

    def step(self, fn, st, e):
        if "n" not in e or e.get("k"):
            return st
        n = fn.nodes[e["n"]]
        k = n["k"]
        tgt = None
        if k in ("BinaryOperator", "CompoundAssignOperator") and n.get("op", "").endswith("=") and n["op"] not in ("==", "!=", "<=", ">="):
            tgt = fn.nodes[fn.strip(n["ch"][0])]
        elif k == "UnaryOperator" and n["op"] in ("++", "--"):
            tgt = fn.nodes[fn.strip(n["ch"][0])]
        if tgt is not None and tgt["k"] == "DeclRefExpr":
            return frozenset(f for f in st if f[0] != tgt.get("d"))
        return st

    def edge(self, fn, st, cond, truth):
        n = fn.nodes[fn.strip(cond)]
        if n["k"] == "UnaryOperator" and n["op"] == "!":
            return self.edge(fn, st, n["ch"][0], not truth)
        if n["k"] == "BinaryOperator" and n["op"] in ("==", "!="):
            for x, y in (n["ch"], n["ch"][::-1]):
                xn = fn.nodes[fn.strip_casts(x)]
                c = fn.const_value(y)
                if c is None:
                    yn = fn.nodes[fn.strip_casts(y)]
                    if yn["k"] == "UnaryOperator" and yn["op"] == "-" and fn.const_value(yn["ch"][0]) is not None:
                        c = -fn.const_value(yn["ch"][0])
                if xn["k"] == "DeclRefExpr" and c is not None:
                    if (n["op"] == "!=") == truth:
                        return st | {(xn["d"], c)}
        return st


def _run_own(ctx):
    m = ctx.pattern()
    rules = []
    T = "Qentem::TemplateCore::"

    # ---------------- TB-rank
    r = Rule("TB-rank", "QOperation ranks agree with the documented precedence groups", floor=8)
    en = m.enum("Qentem::QExpression::QOperation")
    rank = {e["n"]: e["v"] for e in en["enumerators"]}
    groups = doc_groups()
    for i in range(len(groups) - 1):
        hi, lo = groups[i], groups[i + 1]
        missing = [x for x in hi + lo if x not in rank]
        if missing:
            r.broke("documented operators without enumerator: %s" % missing)
            continue
        ok = min(rank[x] for x in hi) > max(rank[x] for x in lo)
        r.ob(en["q"], "group {%s} above {%s}" % (",".join(hi), ",".join(lo)), ok,
             "ranks %s vs %s" % ([rank[x] for x in hi], [rank[x] for x in lo]), "Include/QExpression.hpp:%d" % en["line"])
    r.ob(en["q"], "NoOp lowest, Error highest", rank.get("NoOp") == 0 and rank.get("Error") == max(rank.values()),
         "NoOp=%s Error=%s" % (rank.get("NoOp"), rank.get("Error")), "Include/QExpression.hpp:%d" % en["line"], nontrivial=False)
    # anchor: evaluate compares raw ranks with >= and <
    ev = m.fn(T + "evaluate")
    ctx.note_fn(ev)
    cmps = []
    for i in astq.nodes_of(ev, "BinaryOperator"):
        n = ev.nodes[i]
        if n["op"] in ("<", "<=", ">", ">=") and "Operation" in ev.text(i):
            cmps.append((n["op"], ev.text(i)))
    want = {(">=", "(expr->Operation >= next_expr->Operation)"), ("<", "(previous_oper < expr->Operation)")}
    r.ob(ev.q, "rank comparisons", set(cmps) == want, "found %s" % sorted(cmps), "Include/Template.hpp:%d" % ev.line)
    # two-character operators: parseExpressions tests `oper < Greater`
    pe = m.fn(T + "parseExpressions")
    two_char = {"Or", "And", "Equal", "NotEqual", "GreaterOrEqual", "LessOrEqual"}
    found = None
    for i in astq.nodes_of(pe, "BinaryOperator"):
        n = pe.nodes[i]
        if n["op"] in ("<", "<=") and enum_ref(pe, n["ch"][1], "QOperation"):
            bound = enum_ref(pe, n["ch"][1], "QOperation")
            sel = {k for k, v in rank.items() if (v < rank[bound] if n["op"] == "<" else v <= rank[bound])} - {"NoOp"}
            found = (pe.text(i), sel)
    r.ob(pe.q, "two-character operator test", found is not None and found[1] == two_char,
         "`%s` selects %s; two-character operators are %s" % (found[0] if found else None, sorted(found[1]) if found else None, sorted(two_char)),
         "Include/Template.hpp:%d" % pe.line)
    rules.append(r)

    # ---------------- SB-climb
    rules.append(rule_climb(ctx, m, ev))

    # ---------------- SB-powsign
    rules.append(rule_power_sign(ctx, m))

    # ---------------- REAL-trunc
    rules.append(rule_real_trunc(ctx, m))

    # ---------------- TS-expr
    rules.append(rule_expr_kind(ctx, m))
    rules.append(rule_signed_read(ctx, m))
    from rules.common import rule_after_countdown
    rules.append(rule_after_countdown(ctx, m, ["QExpression.hpp", "Template.hpp", "Digit.hpp", "BigInt.hpp"]))

    # ---------------- PR-spanstart
    rules.append(rule_span_start(ctx, m))

    # ---------------- X-symbols
    r = Rule("X-symbols", "getOperation maps every operator symbol to the operator of that name", floor=14)
    sym = tab.members(m, "Qentem::QOperationSymbol_T")
    for targs, mm in sym.items():
        for name, ch in SYMBOL_CHARS.items():
            v = mm.get(name)
            r.ob("Qentem::QOperationSymbol_T", name, v is not None and tab.var_int(m, v) == ord(ch),
                 "value %r, want %r" % (tab.var_int(m, v) if v else None, ch), tab.rel(v) if v else "", nontrivial=False)
    go = m.fn(T + "getOperation")
    ctx.note_fn(go)
    sws = astq.nodes_of(go, "SwitchStmt")
    seen = set()
    for labels, stmts in astq.switch_arms(go, sws[0]):
        for l in labels:
            nm = (l[0] or "").split("::")[-1]
            if nm not in SYMBOL_TO_OP:
                continue
            seen.add(nm)
            dbl, alone = SYMBOL_TO_OP[nm]
            rets = [x for s in stmts for x in astq.returns(go, s)]
            got = [enum_ref(go, go.nodes[x]["val"], "QOperation") for x in rets]
            if dbl:
                # first return under the look-ahead test, second unconditional
                ifs = [i for s in stmts for i in astq.nodes_of(go, "IfStmt", s)]
                la = None
                if ifs:
                    ct = go.nodes[go.strip(go.nodes[ifs[0]]["cond"])]
                    # last comparison in the condition is content[offset+1] == Symbol
                    names = [go.nodes[x].get("n") for x in go.walk(go.nodes[ifs[0]]["cond"])]
                    la = "EqualExp" if "EqualExp" in names else (nm if nm in names else None)
                want_la = nm if nm in ("OrExp", "AndExp") else "EqualExp"
                ok = got == [dbl, alone] and la == want_la
                r.ob(go.q, "case " + nm, ok, "returns %s (want [%s, %s]); second character tested: %s (want %s)" % (got, dbl, alone, la, want_la), go.loc(stmts[0]))
            else:
                ok = got == [alone]
                r.ob(go.q, "case " + nm, ok, "returns %s (want [%s])" % (got, alone), go.loc(stmts[0]))
    for nm in SYMBOL_TO_OP:
        if nm not in seen:
            r.ob(go.q, "case " + nm, False, "operator symbol has no arm", go.loc(sws[0]))
    rules.append(r)

    # ---------------- X-apply
    r = Rule("X-apply", "evaluateExpression applies the homonymous operator in every arm", floor=16)
    ee = m.fn(T + "evaluateExpression")
    ctx.note_fn(ee)
    sws = astq.nodes_of(ee, "SwitchStmt")
    arms = {}
    for labels, stmts in astq.switch_arms(ee, sws[0]):
        for l in labels:
            if l[0] and l[0] != "default":
                arms[l[0].split("::")[-1]] = stmts
    for op, how in APPLY.items():
        stmts = arms.get(op)
        if stmts is None:
            r.ob(ee.q, "case " + op, False, "operator has no arm", ee.loc(sws[0]))
            continue
        ops_used = []
        calls_used = []
        for s in stmts:
            for i in ee.walk(s):
                n = ee.nodes[i]
                if n["k"] in ("BinaryOperator", "CompoundAssignOperator", "CXXOperatorCallExpr"):
                    a = ee.nodes[ee.strip(n["ch"][0] if n["k"] != "CXXOperatorCallExpr" else ee.call_args(i)[0])]
                    b_id = n["ch"][1] if n["k"] != "CXXOperatorCallExpr" else (ee.call_args(i)[1] if len(ee.call_args(i)) > 1 else -1)
                    b = ee.nodes[ee.strip(b_id)] if b_id >= 0 else {}
                    if a.get("n") == "left" and (b.get("n") == "right" or how in ("&&", "||")):
                        ops_used.append(n.get("op"))
                    elif n.get("op") in ("&&", "||"):
                        ops_used.append(n.get("op"))
                if n["k"] in ("CallExpr", "CXXMemberCallExpr"):
                    calls_used.append(ee.call_simple_name(i))
        if how == "isEqual":
            ok = "isEqual" in calls_used
        elif how in ("&&", "||"):
            ok = how in ops_used and ops_used.count(">") >= 0 and all(o in (how, ">", "=") for o in ops_used)
            txt = " ".join(ee.text(s) for s in stmts)
            ok = ok and txt.count("> 0") == 2 and "NaturalNumber" in txt
        else:
            other = [o for o in ops_used if o not in (how, "=")]
            ok = how in ops_used and not other
            if how in ("<", "<=", ">", ">="):
                ok = ok and "NaturalNumber" in " ".join(ee.text(s) for s in stmts)
        r.ob(ee.q, "case " + op, ok, "arm uses %s %s (want %s)" % (ops_used, calls_used, how), ee.loc(stmts[0]))
    rules.append(r)

    # ---------------- DIV-guard
    r = Rule("DIV-guard", "every integer / and % has a non-zero constant divisor or a local divisor proven != 0 (and != -1 if signed)", floor=1)
    nz = NonZero()
    for f in m.functions:
        if f.inst or not (f.file.endswith("QExpression.hpp") or f.file.endswith("Template.hpp")) or not f.cfg:
            continue
        sites = [i for i in f.walk() if f.nodes[i]["k"] in ("BinaryOperator", "CompoundAssignOperator") and f.nodes[i]["op"] in ("/", "%", "/=", "%=")]
        if not sites:
            continue
        ctx.note_fn(f)
        states = None
        for s in sites:
            n = f.nodes[s]
            a, b = f.nodes[f.strip(n["ch"][0])], f.nodes[f.strip(n["ch"][1])]
            if a.get("tk") == "float" or b.get("tk") == "float":
                continue   # IEEE division does not trap; "no value" is X-novalue's concern
            signed = "sint" in (a.get("tk"), b.get("tk"))
            c = f.const_value(n["ch"][1])
            if c is not None:
                r.ob(f.q, f.text(s), c != 0 and not (signed and c == -1), "constant divisor %s" % c, f.loc(s), nontrivial=False)
                continue
            bd = f.nodes[f.strip_casts(n["ch"][1])]
            if bd["k"] != "DeclRefExpr" or bd.get("dk") not in ("var", "param"):
                r.ob(f.q, f.text(s), False,
                     "divisor `%s` is not a guarded local: nothing dominating this site proves it is not 0%s" % (f.text(n["ch"][1]), " or -1" if signed else ""), f.loc(s))
                continue
            if states is None:
                states = nz.run(f)
            # state at the site: find the block
            fact0 = factm1 = False
            for bid, st0 in states.items():
                blk = f.blocks()[bid]
                st = st0
                for e in blk["el"]:
                    if e.get("n") == s:
                        fact0 = (bd["d"], 0) in st
                        factm1 = (bd["d"], -1) in st
                    st = nz.step(f, st, e)
            ok = fact0 and (factm1 or not signed)
            r.ob(f.q, f.text(s), ok, "divisor %s: != 0 %s%s" % (bd["n"], "proven" if fact0 else "NOT proven",
                                                                 (", != -1 %s" % ("proven" if factm1 else "NOT proven")) if signed else ""), f.loc(s))
    rules.append(r)

    # ---------------- SB-promote
    r = Rule("SB-promote", "relational QExpression operators promote the integer side to double (never truncate the real side) and are mirror images", floor=5)
    rel_ops = {}
    for f in m.fns("Qentem::QExpression::operator>=") + m.fns("Qentem::QExpression::operator>") + \
            m.fns("Qentem::QExpression::operator<=") + m.fns("Qentem::QExpression::operator<") + m.fns("Qentem::QExpression::operator=="):
        if len(f.params) != 1 or "QExpression" not in f.params[0]["t"]:
            continue
        ctx.note_fn(f)
        op = f.d.get("op")
        bad = []
        for i in f.walk():
            n = f.nodes[i]
            if n["k"] in ("CXXFunctionalCastExpr", "CXXStaticCastExpr", "CStyleCastExpr") and n.get("tk") in ("sint", "uint") and n.get("ch"):
                if f.nodes[f.strip(n["ch"][0])].get("tk") == "float":
                    bad.append("real operand truncated: " + f.text(i))
            if n["k"] == "BinaryOperator" and n["op"] in (">=", ">", "<=", "<", "==", "!="):
                a, b = f.nodes[f.strip(n["ch"][0])], f.nodes[f.strip(n["ch"][1])]
                ka, kb = a.get("tk"), b.get("tk")
                if ka == "enum" or kb == "enum":
                    continue
                if (ka == "float") != (kb == "float"):
                    bad.append("mixed comparison " + f.text(i))
                elif n["op"] != op and op != "==" and n["op"] not in ("==", "!="):
                    bad.append("operator %s inside operator%s: %s" % (n["op"], op, f.text(i)))
        r.ob(f.q, "operator%s(const QExpression &)" % op, not bad, "; ".join(bad) if bad else "all mixed arms compare as double with `%s`" % op,
             "Include/QExpression.hpp:%d" % f.line)
        if op != "==":
            rel_ops[op] = re.sub(r"(>=|<=|>|<)", "@", " ".join(f.text(x) for x in astq.returns(f)))
    if len(rel_ops) == 4:
        shapes = set(rel_ops.values())
        r.ob("Qentem::QExpression", "operator>= > <= < siblings", len(shapes) == 1,
             "the four operators are identical up to the comparison token" if len(shapes) == 1 else "the operators differ beyond the comparison token: %s" % sorted(k for k in rel_ops),
             "Include/QExpression.hpp")
    else:
        r.broke("expected the four relational operators taking a QExpression, found %s" % sorted(rel_ops))
    rules.append(r)

    # ---------------- X-novalue
    r = Rule("X-novalue", "Division and Remainder arms return 'no value' under a typed zero test of the divisor", floor=2)
    for op in ("Division", "Remainder"):
        stmts = arms.get(op)
        if not stmts:
            continue
        ok = False
        why = "no conditional `return false` on a typed zero test of `right` dominates the operation"
        for s in stmts:
            for i in astq.nodes_of(ee, "IfStmt", s):
                n = ee.nodes[i]
                c = ee.strip(n["cond"])
                cn = ee.nodes[c]
                neg = False
                while cn["k"] == "UnaryOperator" and cn["op"] == "!":
                    neg = not neg
                    c = ee.strip(cn["ch"][0])
                    cn = ee.nodes[c]
                typed = False
                zero_when_true = None
                if cn["k"] in ("CXXOperatorCallExpr", "CallExpr", "CXXMemberCallExpr", "BinaryOperator"):
                    if cn["k"] == "BinaryOperator" and cn["op"] in ("!=", "==") and ee.nodes[ee.strip(cn["ch"][0])].get("n") == "right" \
                            and ee.nodes[ee.strip(cn["ch"][0])]["k"] == "DeclRefExpr" and ee.const_value(cn["ch"][1]) == 0:
                        # dependent-typed comparison of the whole QExpression with 0 (operator!= / operator==)
                        typed = True
                        zero_when_true = (cn["op"] == "==")
                    elif cn["k"] == "CXXOperatorCallExpr" and cn.get("op") in ("!=", "=="):
                        a0 = ee.nodes[ee.strip(ee.call_args(c)[0])]
                        typed = a0.get("n") == "right" and a0["k"] == "DeclRefExpr"
                        zero_when_true = (cn["op"] == "==")
                    elif cn["k"] in ("CallExpr", "CXXMemberCallExpr"):
                        rc = ee.call_receiver(c)
                        nm = ee.call_simple_name(c)
                        if rc is not None and ee.nodes[ee.strip(rc)].get("n") == "right" and nm:
                            tgt = [g for g in m.fns("Qentem::QExpression::" + nm, required=False)]
                            # the helper must be a const method returning `<divisor helper>() == 0`
                            for g in tgt:
                                rets = astq.returns(g)
                                if g.is_const and len(rets) == 1:
                                    rv = g.nodes[g.strip(g.nodes[rets[0]]["val"])]
                                    if rv["k"] == "BinaryOperator" and rv["op"] == "==" and g.const_value(rv["ch"][1]) == 0:
                                        helper = g.text(rv["ch"][0])
                                        # operator% must divide by the same helper's value
                                        rem = m.fn("Qentem::QExpression::operator%")
                                        uses = [rem.text(x) for x in astq.calls(rem)]
                                        typed = any(u.endswith(helper) or u.endswith("right." + helper) for u in uses)
                                        zero_when_true = True
                if not typed:
                    continue
                if neg:
                    zero_when_true = not zero_when_true
                zero_branch = n["then"] if zero_when_true else n["else"]
                other = n["else"] if zero_when_true else n["then"]
                # zero branch (or the fall-through after a non-zero then-branch that breaks) returns false
                rets_zero = astq.returns(ee, zero_branch) if zero_branch is not None and zero_branch >= 0 else []
                if zero_branch is None or zero_branch < 0:
                    # `if (right != 0) { op; break; } return false;`
                    later = [x for x in stmts[0:1] for x in astq.returns(ee, x) if x not in set(ee.walk(i))]
                    rets_zero = later
                    op_inside = other is not None and other >= 0 and any(ee.nodes[x].get("op") in ("/=", "%") for x in ee.walk(other))
                    ok = bool(rets_zero) and ee.const_value(ee.nodes[rets_zero[0]]["val"]) == 0 and op_inside and \
                        bool(astq.nodes_of(ee, "BreakStmt", other))
                else:
                    ok = bool(rets_zero) and ee.const_value(ee.nodes[rets_zero[0]]["val"]) == 0
                if ok:
                    why = "guard `%s`" % ee.text(n["cond"])
        r.ob(ee.q, "case " + op, ok, why, ee.loc(stmts[0]))
    rules.append(r)
    # ---------------- PR-consumed: a text counts as a number only when the scanner consumed all of it
    r = Rule("PR-consumed", "a value/expression text is taken as a number only when the number scanner consumed all of it", floor=3)
    n_cursor = 0
    for f in m.functions:
        if f.inst or f.file.endswith("Digit.hpp") or f.file.endswith("QTest.hpp"):
            continue
        for c in astq.calls(f, "StringToNumber"):
            args = f.call_args(c)
            ctx.note_fn(f)
            if len(args) == 3:
                n_cursor += 1
                r.ob(f.sig if f.cls else f.q, f.text(c)[:70], False, "the cursor-less overload ignores whatever follows the numeral: \"12abc\" and \"2024-01-05\" would count as numbers", f.loc(c))
                continue
            if len(args) != 4:
                continue
            n_cursor += 1
            cur, end = f.text(f.strip_casts(args[2])), f.text(f.strip_casts(args[3])).replace(" ", "")
            if f.file.endswith("JSON.hpp"):
                r.ob(f.q, f.text(c)[:70], True, "JSON: the remainder is judged by the enclosing container and by Parse's end-of-input gate (C07)", f.loc(c), nontrivial=False)
                continue
            tests = [x for x in astq.nodes_of(f, "BinaryOperator") if f.nodes[x]["op"] == "==" and x > c and
                     {f.text(f.strip_casts(f.nodes[x]["ch"][0])).replace(" ", ""), f.text(f.strip_casts(f.nodes[x]["ch"][1])).replace(" ", "")} == {cur, end}]
            r.ob(f.sig if f.cls else f.q, f.text(c)[:70], bool(tests), "cursor `%s` is compared with the end `%s` after the scan: %s" % (cur, end, "yes" if tests else "NO -- a numeric prefix would be accepted"), f.loc(c))
    if n_cursor < 3:
        r.broke("expected at least 3 cursor-form StringToNumber calls, found %d" % n_cursor)
    rules.append(r)
    return rules



def rule_climb(ctx, m, ev):
    """SB-climb: evaluate() is precedence climbing: a level entered with the operator that precedes its sub-expression
    (previous_oper) may go on consuming operators only while they bind tighter than that one; otherwise it must return so that
    its caller applies the pending operator first.  Both ways of applying an operator inside the loop -- directly, or after a
    recursive call for a tighter right-hand side -- have to make that decision: on the CFG, every path from an application
    (a call of evaluateExpression) back to the loop head passes the TRUE edge of a comparison of previous_oper with the operator
    under the cursor.  (Without it 10 - 2 * 3 ^ 2 - 1 is computed as 10 - (2 * 9 - 1).)"""
    from qlib import dataflow
    r = Rule("SB-climb", "after every application the climbing loop continues only under `previous_oper < next operator`", floor=2)
    prm = [p_ for p_ in ev.params if "QOperation" in p_["t"] and not p_.get("ptr") and not p_.get("ref")]
    loops = astq.nodes_of(ev, ("WhileStmt", "DoStmt", "ForStmt"))
    if len(prm) != 1 or not loops or not ev.cfg:
        r.broke("evaluate: the operator parameter or the climbing loop was not found")
        return r
    pd = prm[0]["d"]
    blocks = ev.blocks()
    loop = loops[0]
    region = set(ev.walk(loop))
    heads = [b["id"] for b in ev.cfg["blocks"] if b.get("looptarget") == loop]
    cond = ev.nodes[loop].get("cond", -1)
    cond_blocks = set(b["id"] for b in ev.cfg["blocks"] if "cond" in b and cond is not None and cond >= 0 and ev.strip(b["cond"]) in (set(ev.walk(cond)) | {ev.strip(cond)}))
    back = set(heads) | cond_blocks

    def is_rank_test(c):
        n = ev.nodes[ev.strip(c)]
        if n["k"] != "BinaryOperator" or n["op"] not in ("<", ">"):
            return None
        l_, r_ = n["ch"]
        ln, rn = ev.nodes[ev.strip_casts(l_)], ev.nodes[ev.strip_casts(r_)]
        if n["op"] == "<" and ln.get("d") == pd and "Operation" in ev.text(r_):
            return True
        if n["op"] == ">" and rn.get("d") == pd and "Operation" in ev.text(l_):
            return True
        return None
    apps = []
    for b in ev.cfg["blocks"]:
        for i, e in enumerate(b["el"]):
            x = e.get("n")
            if isinstance(x, int) and not e.get("k") and x in region and ev.nodes[x]["k"] in ("CallExpr", "CXXMemberCallExpr") and ev.call_simple_name(x) == "evaluateExpression":
                apps.append((b, x))
    if not apps:
        r.broke("evaluate: no application (evaluateExpression) inside the climbing loop")
        return r
    for (b0, x) in apps:
        # the application succeeded: follow the true edge of the condition it is the last atom of (or fall through)
        succ = dataflow.successors(ev, b0)
        starts = [s_ for (s_, k_, p_) in succ if k_ in ("true", "fall")]
        seen = set()
        work = [(s_, False) for s_ in starts]
        bad = None
        while work and bad is None:
            bid, checked = work.pop()
            if (bid, checked) in seen:
                continue
            seen.add((bid, checked))
            if bid in back:
                if not checked:
                    bad = bid
                continue
            for (s_, k_, p_) in dataflow.successors(ev, blocks[bid]):
                c2 = checked
                if k_ in ("true", "false") and p_ is not None:
                    # !(a < b) taken on its false edge is a < b taken on its true edge
                    c_ = ev.strip(p_)
                    want = k_ == "true"
                    while ev.nodes[c_]["k"] == "UnaryOperator" and ev.nodes[c_]["op"] == "!":
                        c_ = ev.strip(ev.nodes[c_]["ch"][0])
                        want = not want
                    if is_rank_test(c_):
                        c2 = checked or want
                work.append((s_, c2))
        ctx.note_fn(ev)
        r.ob(ev.q, ev.text(x)[:60], bad is None, "every path from this application back to the loop head passes `%s < operator under the cursor`" % prm[0]["n"] if bad is None else
             "after this application the loop goes on without comparing `%s` with the next operator: an operator that does not bind tighter than the one in front of the sub-expression is consumed by the inner level" % prm[0]["n"],
             ev.loc(x))
    return r



def rule_power_sign(ctx, m):
    """SB-powsign: a power of a negative base is negative exactly when the exponent is odd, whatever the sign of the exponent
    ((-2)^-2 = 1/4, (-2)^-3 = -1/8).  In QExpression::operator^= the magnitude is computed first (PowerOf on the absolute
    values); every statement after it that negates the result must therefore sit under BOTH "the base was negative" and "the
    exponent is odd".  Must-analysis on the CFG: facts are the boolean locals known true (true edges of `flag`, of `a && b`
    through the short-circuit edges); the parity flag is the local initialised from a test of the exponent's lowest bit."""
    from qlib import dataflow
    r = Rule("SB-powsign", "after the magnitude of a power is computed, the result is negated only under (base negative AND exponent odd)", floor=2)
    fs = [f for f in m.functions if not f.inst and f.cfg and f.q == "Qentem::QExpression::operator^="]
    if not fs:
        r.broke("QExpression::operator^= not found")
        return r
    f = fs[0]
    ctx.note_fn(f)
    pw = astq.calls(f, "PowerOf")
    if not pw:
        r.broke("operator^=: the magnitude computation (PowerOf) was not found")
        return r
    # the parity flag: a bool local whose initialiser masks with 1
    parity = set()
    negflags = set()
    for x in astq.nodes_of(f, "DeclStmt"):
        for d in f.nodes[x]["decls"]:
            if d.get("tk") == "bool" and "d" in d:
                if d.get("init", -1) >= 0 and any(f.nodes[y]["k"] == "BinaryOperator" and f.nodes[y]["op"] == "&" for y in f.walk(d["init"])):
                    parity.add(d["d"])
    # "base negative" flags: bool locals assigned from a `< 0` test of this object's own value
    for x in f.walk():
        n = f.nodes[x]
        if n["k"] == "BinaryOperator" and n["op"] == "=":
            lh = f.nodes[f.strip(n["ch"][0])]
            rt = f.text(n["ch"][1])
            if lh["k"] == "DeclRefExpr" and lh.get("tk") == "bool" and "<" in rt and "right" not in rt:
                negflags.add(lh["d"])
    if not parity or not negflags:
        r.broke("operator^=: the parity flag or the base-is-negative flag was not identified")
        return r
    blocks = f.blocks()
    # must-facts: set of bool decls known true
    fact = {}
    start = None
    for b in f.cfg["blocks"]:
        if any(e.get("n") == pw[0] for e in b["el"]):
            start = b["id"]
    fact[start] = frozenset()
    work = [start]
    at = {}
    it = 0
    while work and it < 4000:
        it += 1
        bid = work.pop()
        st = fact[bid]
        seen_pw = bid != start
        for e in blocks[bid]["el"]:
            x = e.get("n")
            if not isinstance(x, int) or e.get("k"):
                continue
            if x == pw[0]:
                seen_pw = True
            if seen_pw:
                at[x] = st if x not in at else (at[x] & st)
        for (s_, kind, payload) in dataflow.successors(f, blocks[bid]):
            out = st
            if kind in ("true", "false") and payload is not None:
                c = f.strip(payload)
                want = kind == "true"
                while f.nodes[c]["k"] == "UnaryOperator" and f.nodes[c]["op"] == "!":
                    c = f.strip(f.nodes[c]["ch"][0])
                    want = not want
                cn = f.nodes[c]
                if cn["k"] == "DeclRefExpr" and cn.get("tk") == "bool" and want:
                    out = st | {cn["d"]}
            new_ = out if s_ not in fact else (fact[s_] & out)
            if s_ not in fact or new_ != fact[s_]:
                fact[s_] = new_
                work.append(s_)
    n_neg = 0
    for x, st in sorted(at.items()):
        n = f.nodes[x]
        if n["k"] == "BinaryOperator" and n["op"] == "=":
            rh = f.nodes[f.strip(n["ch"][1])]
            if rh["k"] == "UnaryOperator" and rh["op"] == "-" and f.text(rh["ch"][0]).replace("(", "").replace(")", "") == f.text(n["ch"][0]).replace("(", "").replace(")", ""):
                n_neg += 1
                has_neg = bool(st & negflags)
                has_par = bool(st & parity)
                r.ob(f.q, f.text(x)[:60], has_neg and has_par, "negated under %s" % (
                    "base negative and exponent odd" if has_neg and has_par else ("base negative only: an even negative exponent gives a negative result ((-2)^-2 = -0.25)" if has_neg else "neither flag")), f.loc(x))
    if n_neg == 0:
        r.broke("operator^=: no negation of the result after PowerOf")
    return r



def rule_real_trunc(ctx, m):
    """REAL-trunc: operator^= computes on integers; a Real operand may be turned into one (SizeT64I(real)) only if the function
    also asks whether that conversion loses anything -- a comparison of the operand with its own truncation that is used as a
    condition -- because 2.5^2 computed on the truncated base is 4 and 2^2.5 on the truncated exponent is 4, both unrelated
    to the value of the expression.  Structural necessary condition (existence of the integrality test per truncated operand);
    what the code then does with a fractional operand (a real-valued power, or 'no value') is not decided here."""
    r = Rule("REAL-trunc", "a Real operand of ^ is truncated to an integer only next to a test of whether it has a fractional part", floor=2)
    fs = [f for f in m.functions if not f.inst and f.cfg and f.q == "Qentem::QExpression::operator^="]
    if not fs:
        r.broke("QExpression::operator^= not found")
        return r
    f = fs[0]
    ctx.note_fn(f)

    def is_trunc(x):
        n = f.nodes[x]
        if n["k"] in ("CXXFunctionalCastExpr", "CStyleCastExpr", "CXXStaticCastExpr") and "long long" in (n.get("t") or "").replace("SizeT64I", "long long") and n.get("ch"):
            src = f.nodes[f.strip(n["ch"][0])]
            if (src.get("t") or "").replace("const ", "").strip() == "double":
                return f.text(n["ch"][0]).replace("(", "").replace(")", "").replace(" ", "")
        return None
    truncs = {}
    for x in f.walk():
        t = is_trunc(x)
        if t:
            truncs.setdefault(t, []).append(x)
    if not truncs:
        r.broke("operator^=: no conversion of a Real operand to an integer was found")
        return r
    par = f.parents()
    for operand, sites in sorted(truncs.items()):
        tested = None
        for x in sites:
            # the conversion is itself part of an integrality comparison: double(SizeT64I(v)) ==/!= v
            up = par.get(x)
            hops = 0
            while up is not None and hops < 6:
                hops += 1
                un = f.nodes[up]
                if un["k"] == "BinaryOperator" and un["op"] in ("==", "!="):
                    sides = [f.text(c).replace("(", "").replace(")", "").replace(" ", "") for c in un["ch"]]
                    if operand in sides:
                        # used as a condition?
                        top = up
                        while par.get(top) is not None and f.nodes[par[top]]["k"] in ("ParenExpr", "ImplicitCastExpr", "BinaryOperator", "UnaryOperator") and \
                                f.nodes[par[top]].get("op") in (None, "&&", "||", "!"):
                            top = par[top]
                        pk = f.nodes[par[top]]["k"] if par.get(top) is not None else None
                        if pk in ("IfStmt", "WhileStmt", "ConditionalOperator", "DeclStmt", "BinaryOperator"):
                            tested = up
                    break
                up = par.get(up)
        consuming = [x for x in sites if x != tested and not (tested is not None and x in set(f.walk(tested)))]
        r.ob(f.q, "SizeT64I(%s)" % operand, tested is not None,
             "the function compares `%s` with its own truncation and branches on the answer" % operand if tested is not None else
             "`%s` is truncated to an integer and nothing asks whether it had a fractional part: the power is computed on a different number (2.5^2 = 4, 2^2.5 = 4)" % operand,
             f.loc(sites[0]))
    return r



def rule_expr_kind(ctx, m):
    """TS-expr: a QExpression is a tagged number: Type says which member of Value.Number holds the value.  The arithmetic
    operators are a two-level dispatch (kind of this, kind of the right operand); an arm that leaves its result in a member whose
    kind differs from the kind this object had on entry to the arm has to say so (Type = that kind, unconditionally inside the arm),
    and an arm that sets Type unconditionally must have left the result in that kind's member.  Otherwise the bits of a signed or
    real result are read back as an unsigned number (3 - (2 - 5 + 10) renders 18446744073709551612)."""
    r = Rule("TS-expr", "each (left kind, right kind) arm of the QExpression arithmetic leaves Type naming the member it wrote", floor=20)
    KIND = {"Natural": "NaturalNumber", "Integer": "IntegerNumber", "Real": "RealNumber"}
    for f in m.functions:
        if f.inst or not f.cfg or f.cls != "Qentem::QExpression" or f.name not in ("operator+=", "operator-=", "operator*=", "operator/="):
            continue
        par = f.parents()
        outer = [sw for sw in astq.nodes_of(f, "SwitchStmt") if f.text(f.nodes[sw]["cond"]).replace("this.", "") == "Type"]
        for osw in outer:
            for olabels, ostmts in astq.switch_arms(f, osw):
                lk = [(l[0] or "").split("::")[-1] for l in olabels]
                if len(lk) != 1 or lk[0] not in KIND.values():
                    continue
                left_kind = lk[0]
                for s_ in ostmts:
                    for isw in astq.nodes_of(f, "SwitchStmt", s_):
                        if "right" not in f.text(f.nodes[isw]["cond"]):
                            continue
                        for ilabels, istmts in astq.switch_arms(f, isw):
                            rk = [(l[0] or "").split("::")[-1] for l in ilabels]
                            if not rk or not all(x in KIND.values() for x in rk):
                                continue
                            arm_nodes = [x for st in istmts for x in f.walk(st)]
                            arm_set = set(arm_nodes)
                            writes = []
                            types = []
                            for x in arm_nodes:
                                n = f.nodes[x]
                                if n["k"] in ("BinaryOperator", "CompoundAssignOperator") and n.get("op", "").endswith("=") and n["op"] not in ("==", "!=", "<=", ">="):
                                    lt = f.text(n["ch"][0]).replace("this.", "")
                                    mm = [k for k in KIND if lt == "Value.Number." + k]
                                    if mm:
                                        writes.append((x, mm[0]))
                                    if lt == "Type":
                                        # unconditional inside the arm?
                                        cond = False
                                        up = par.get(x)
                                        while up is not None and up in arm_set:
                                            if f.nodes[up]["k"] in ("IfStmt", "ConditionalOperator"):
                                                cond = True
                                            up = par.get(up)
                                        types.append((x, f.text(n["ch"][1]).split("::")[-1], cond))
                            if not writes:
                                continue
                            ctx.note_fn(f)
                            last_member = writes[-1][1]
                            uncond = [t for t in types if not t[2]]
                            final = uncond[-1][1] if uncond else None
                            if final is not None:
                                ok = final == KIND[last_member]
                                why = "result in Number.%s, Type set to %s" % (last_member, final)
                            elif KIND[last_member] != left_kind:
                                ok = False
                                why = "the result is left in Number.%s while the object stays %s: nothing in the arm sets Type to %s, the bits are read back as the wrong kind" % (last_member, left_kind, KIND[last_member])
                            else:
                                ok = True
                                why = "result in Number.%s, the kind the object already has" % last_member
                            r.ob(f.sig, "%s %s %s" % (left_kind, f.name[len("operator"):], "/".join(rk)), ok, why, f.loc(writes[-1][0]))
    return r



def rule_span_start(ctx, m):
    """PR-spanstart: the number scanner advances the cursor it is given, also when it then rejects the text ("12ab": it stops
    after 12).  Where an operand that is not a number is recorded as text (Offset / Length of the expression record), the span
    must start at the operand's first unit, i.e. at a value saved before the scan -- never at the cursor the scanner moved.
    CFG reachability: from each call of Digit::StringToNumber that takes a cursor by reference, no store into a field named
    Offset or Length reads that cursor before the cursor is assigned again."""
    from qlib import dataflow
    r = Rule("PR-spanstart", "the text span of a rejected number starts at a cursor saved before the number scanner moved it", floor=1)
    for f in m.functions:
        if f.inst or not f.cfg or not f.file.endswith("/Template.hpp"):
            continue
        blocks = f.blocks()
        for c in astq.calls(f, "StringToNumber"):
            args = f.call_args(c)
            curs = [f.nodes[f.strip(a)] for a in args if f.nodes[f.strip(a)]["k"] == "DeclRefExpr" and f.nodes[f.strip(a)].get("tk") in ("uint", "sint") and f.nodes[f.strip(a)].get("lv")]
            # the by-reference cursor: the integer lvalue argument that is compared with the end afterwards (PR-consumed) -- take
            # every integer lvalue argument that is not const-qualified
            curs = [cn for cn in curs if "const" not in (cn.get("t") or "")]
            if not curs:
                continue
            ctx.note_fn(f)
            cur = curs[0]
            start = dataflow.block_of(f, c)
            if start is None:
                continue
            bad = None
            seen = set()
            work = [(start, True)]
            while work and bad is None:
                bid, first = work.pop()
                if (bid, first) in seen:
                    continue
                seen.add((bid, first))
                after = not first
                killed = False
                for e in blocks[bid]["el"]:
                    x = e.get("n")
                    if not isinstance(x, int) or e.get("k"):
                        continue
                    if x == c:
                        after = True
                        continue
                    if not after:
                        continue
                    n = f.nodes[x]
                    if n["k"] == "BinaryOperator" and n["op"] == "=":
                        lh = f.nodes[f.strip(n["ch"][0])]
                        if lh["k"] == "DeclRefExpr" and lh.get("d") == cur["d"]:
                            killed = True
                            break
                        if lh["k"] in ("MemberExpr", "CXXDependentScopeMemberExpr") and lh.get("n") in ("Offset", "Length") and \
                                any(f.nodes[y]["k"] == "DeclRefExpr" and f.nodes[y].get("d") == cur["d"] for y in f.walk(n["ch"][1])):
                            bad = x
                            break
                if bad is not None or killed:
                    continue
                for (s_, k_, p_) in dataflow.successors(f, blocks[bid]):
                    work.append((s_, False))
            r.ob(f.q, f.text(c)[:60], bad is None, "no span field is computed from `%s` after the scan" % cur["n"] if bad is None else
                 "`%s` records the operand's text from `%s`, which the scanner has already moved past the leading digits: \"12ab\" is kept as \"ab\"" % (f.text(bad)[:60], cur["n"]), f.loc(bad) if bad is not None else f.loc(c))
    return r


def rule_signed_read(ctx, m):
    """SIGN-kind: the two whole-number kinds share their 64 bits (Number.Natural / Number.Integer); addition, subtraction,
    multiplication and equality do not care which member is read, but an ordering comparison and a conversion to double do --
    18446744073709551615 read as Integer is -1.  The arithmetic operators already keep them apart (double(Number.Natural) under
    NaturalNumber, double(Number.Integer) under IntegerNumber).  Rule, over every member of QExpression: a read of
    <x>.Value.Number.Integer that is an operand of < <= > >= or is converted to double sits where the kind of <x> cannot be
    NaturalNumber: inside an arm of `switch (<x>.Type)` whose labels do not include NaturalNumber, or dominated by the true edge
    of `<x>.Type == IntegerNumber` / `<x>.Type != NaturalNumber` (or the false edge of `<x>.Type == NaturalNumber`)."""
    from qlib import dataflow
    r = Rule("SIGN-kind", "Number.Integer is compared for order or converted to double only where the kind cannot be NaturalNumber", floor=8)
    for f in m.functions:
        if f.inst or not f.cfg or f.cls != "Qentem::QExpression":
            continue
        par = f.parents()
        reads = []
        for x in f.walk():
            n = f.nodes[x]
            if n["k"] != "MemberExpr" or n.get("n") not in ("Integer", "Natural"):
                continue
            member = n["n"]
            # owner
            b = x
            while f.nodes[b]["k"] == "MemberExpr" and f.nodes[b].get("ch"):
                b = f.strip(f.nodes[b]["ch"][0])
            bn = f.nodes[b]
            owner = "this" if bn["k"] == "CXXThisExpr" else bn.get("n") if bn["k"] == "DeclRefExpr" else None
            if owner is None:
                continue
            # use
            up, how, child = par.get(x), None, x
            while up is not None:
                un = f.nodes[up]
                if un["k"] in ("ImplicitCastExpr", "CXXFunctionalCastExpr", "CStyleCastExpr", "CXXStaticCastExpr", "ParenExpr"):
                    if un.get("ck") == "IntegralToFloating":
                        how = "converted to double"
                        break
                    if un["k"] != "ParenExpr" and un.get("ck") not in ("LValueToRValue", "NoOp", None):
                        break
                    child, up = up, par.get(up)
                    continue
                if un["k"] == "BinaryOperator" and un["op"] in ("<", "<=", ">", ">=") and child in un["ch"]:
                    other = un["ch"][1] if un["ch"][0] == child else un["ch"][0]
                    # x.Integer < 0 asks for the sign: that IS a question about the Integer reading
                    how = "compared with %s" % un["op"]
                    if f.const_value(other) == 0:
                        how = "sign test"
                    break
                break
            if how and (member == "Integer" or (how == "converted to double" and f.is_const)):
                # Natural: only in const members -- the members that change the number (operator^= works on the magnitude it
                # has just made non-negative) read their own intermediate results, not a value of a settled kind
                # (the unsigned reading is ordered on purpose once the negative cases are gone; its conversion to double is
                # what differs for a negative integer)
                reads.append((x, owner, how, member))
        if not reads:
            continue
        ctx.note_fn(f)
        type_text = lambda o: "Type" if o == "this" else o + ".Type"
        for x, owner, how, member in reads:
            ok, why = False, ""
            forbidden = "NaturalNumber" if member == "Integer" else "IntegerNumber"
            same = "IntegerNumber" if member == "Integer" else "NaturalNumber"
            # enclosing switch arms
            up = par.get(x)
            chain = []
            while up is not None:
                chain.append(up)
                up = par.get(up)
            for sw in [c_ for c_ in chain if f.nodes[c_]["k"] == "SwitchStmt"]:
                if f.text(f.nodes[sw]["cond"]).replace("this.", "").replace("this->", "") != type_text(owner):
                    continue
                for labels, stmts in astq.switch_arms(f, sw):
                    if any(x in set(f.walk(s_)) for s_ in stmts):
                        names = [(l[0] or "").split("::")[-1] for l in labels]
                        if names and "default" not in names and forbidden not in names:
                            ok, why = True, "inside case %s of switch (%s)" % ("/".join(names), type_text(owner))
            if not ok:
                for i in f.walk():
                    cn = f.nodes[i]
                    if cn["k"] != "BinaryOperator" or cn["op"] not in ("==", "!="):
                        continue
                    lt = f.text(cn["ch"][0]).replace("this.", "").replace("this->", "")
                    if lt != type_text(owner):
                        continue
                    k = f.text(cn["ch"][1]).split("::")[-1]
                    want = None
                    if cn["op"] == "==" and k in (same, "RealNumber"):
                        want = True
                    elif cn["op"] == "==" and k == forbidden:
                        want = False
                    elif cn["op"] == "!=" and k == forbidden:
                        want = True
                    elif cn["op"] == "!=" and k in (same, "RealNumber"):
                        want = False
                    if want is None:
                        continue
                    try:
                        if dataflow.dominated_by_branch(f, x, i, want):
                            ok, why = True, "under `%s` (%s edge)" % (f.text(i), "true" if want else "false")
                            break
                    except Exception:
                        pass
            if how == "sign test" and not ok:
                # asking a natural for its sign is the same slip
                pass
            r.ob(f.sig, "%s.Value.Number.%s %s" % (owner, member, how), ok, why if ok else
                 ("`%s` reads Number.Integer (%s) where %s may be a NaturalNumber: a natural of 2^63 or more is taken for a negative number "
                  "(18446744073709551615 > 1 is false)" if member == "Integer" else
                  "`%s` reads Number.Natural (%s) where %s may be an IntegerNumber: a negative integer is taken for a natural near 2^64 (-3 == -3.0 is false)")
                 % (f.text(par.get(x, x))[:50], how, "this object" if owner == "this" else owner), f.loc(x))
    return r


def run(ctx):
    rules_ = list(_run_own(ctx) or [])
    from rules.common import shared
    have = set(r_.rid for r_ in rules_)
    rules_ += [r_ for r_ in shared(ctx, 'C02', ['PR-chain']) if r_.rid not in have]
    return rules_
