"""C03 -- {var:} output is HTML-safe for every string; {raw:} is verbatim (structural clauses)."""
from qlib import astq, tab, dataflow
from qlib.model import AnalysisBroken
from qlib.report import Rule

META = {
    "explanation": "Effect/sink accounting on the uninstantiated renderer: (FX-sink) every write to the stream in "
                   "renderVariable is the leading literal slice, an EscapeHTMLSpecialChars call, or CopyValueTo with "
                   "the escaper as string function; renderSuperVariable writes phrase text only through the escaper "
                   "and dispatches sub-tags to the renderer of their kind; renderRawVariable never references the "
                   "escaper; Value::CopyValueTo applies and forwards string_function (String and ValuePtr arms). "
                   "(X-escaper) the escaper's switch has arms exactly for & < > \" ' and each arm flushes the pending "
                   "text, writes the entity mapped to that character with its declared length and advances both "
                   "cursors; the tail is flushed. (TB-entities) entity literals/lengths in all five specialisations and "
                   "the look-ahead constants of the pass-through test are mutually consistent (guard, index, compare "
                   "length, skip). (CFG-switch) with AutoEscapeHTML false the function is one raw Write.",
    "not_decided": "the universally quantified string claims (decode equality, idempotence) for all inputs",
    "assumptions": ["Value_T/StringStream_T are the library's own types"],
}
META["explanation"] += " " + 'FX-sink follows the helper methods of the renderer class that the {var:} renderer calls (transitively): they may write to the stream only through the escaper.'
META["explanation"] += " " + '(PR-passthru) abstract interpretation of the & arm over (units known at the cursor, interval of the remaining length): with each entity at the cursor every feasible path skips it whole and writes nothing, and every path that writes nothing has established all units of an entity inside the remaining length; this replaces the earlier shape-matching look-ahead clause. (CFG-switch) additionally the constant Config::AutoEscapeHTML as evaluated by the front end in the build with QENTEM_AUTO_ESCAPE_HTML=0 and in the default build. (NARROW-unit) the escaper dispatches on whole code units.'
META["explanation"] += " " + '(PR-flush, shared with C08) the same flush-first typestate over the loop of EscapeHTMLSpecialChars.'

ENTITIES = {ord("&"): ("HTMLAnd", "&amp;"), ord("<"): ("HTMLLess", "&lt;"), ord(">"): ("HTMLGreater", "&gt;"),
            ord('"'): ("HTMLQuote", "&quot;"), ord("'"): ("HTMLSingleQuote", "&apos;")}
T = "Qentem::TemplateCore::"


META["explanation"] += " " + 'FX-sink also counts `*stream_ << x` (a plain binary operator on the dependent stream type in the pattern view) as a write to the stream.'

META["explanation"] += " " + 'Taken over unchanged from other modules because a seeded change to this property was reported by them (rules.common.shared): X-copykind from C02.'

def stream_effects(f):
    """[(node id, kind, text)] of everything that can write to the stream member in a renderer"""
    out = []
    for i in f.walk():
        n = f.nodes[i]
        if n["k"] in ("CallExpr", "CXXMemberCallExpr", "CXXOperatorCallExpr"):
            txt = f.text(i)
            nm = f.call_simple_name(i)
            mentions = any(f.nodes[x].get("n") == "stream_" for x in f.walk(i))
            if not mentions:
                continue
            # only the outermost call mentioning stream_ counts
            par = f.parents()
            p = par.get(i)
            inner = False
            while p is not None:
                if f.nodes[p]["k"] in ("CallExpr", "CXXMemberCallExpr", "CXXOperatorCallExpr") and \
                        any(f.nodes[x].get("n") == "stream_" for x in f.walk(p)):
                    inner = True
                    break
                p = par.get(p)
            if inner:
                continue
            out.append((i, nm, txt))
        elif n["k"] in ("CompoundAssignOperator", "BinaryOperator") and n.get("op", "").endswith("=") and n["op"] not in ("==", "!=", "<=", ">="):
            if any(f.nodes[x].get("n") == "stream_" for x in f.walk(n["ch"][0])):
                out.append((i, "assign", f.text(i)))
        elif n["k"] == "BinaryOperator" and n.get("op") == "<<":
            # *stream_ << x on a dependent stream type is a plain binary operator in the pattern view
            if any(f.nodes[x].get("n") == "stream_" for x in f.walk(n["ch"][0])) and \
                    not any(f.nodes[p_]["k"] == "BinaryOperator" and f.nodes[p_].get("op") == "<<" and i in f.nodes[p_]["ch"][:1] for p_ in [f.parents().get(i)] if p_ is not None):
                out.append((i, "insert", f.text(i)))
    return out


def _run_own(ctx):
    m = ctx.pattern()
    rules = []

    # ---------------- FX-sink
    r = Rule("FX-sink", "every {var:} sink goes through the HTML escaper; {raw:} never does", floor=8)
    rv = m.fn(T + "renderVariable")
    ctx.note_fn(rv)
    effs = stream_effects(rv)
    literal_seen = 0
    for (i, nm, txt) in effs:
        if nm == "Write":
            args = rv.call_args(i)
            src = rv.text(args[0]) if args else ""
            is_literal = literal_seen == 0 and src == "(content_ + offset)"
            literal_seen += 1
            r.ob(rv.q, txt, is_literal, "the only raw Write allowed is the leading literal slice (content_ + offset, t_offset - offset)", rv.loc(i))
        elif nm == "EscapeHTMLSpecialChars":
            r.ob(rv.q, txt, True, "escaper call", rv.loc(i), nontrivial=False)
        elif nm == "CopyValueTo":
            args = rv.call_args(i)
            def names_escaper(root):
                return any(rv.nodes[x].get("n") == "EscapeHTMLSpecialChars" or "EscapeHTMLSpecialChars" in str(rv.nodes[x].get("cands", "")) for x in rv.walk(root))
            ok = len(args) == 3 and names_escaper(args[2])
            if len(args) == 3 and not ok:
                # a local function pointer: every value it is ever given must be the escaper
                an = rv.nodes[rv.strip_casts(args[2])]
                if an["k"] == "DeclRefExpr" and an.get("dk") == "var":
                    inits = [d["init"] for s_ in astq.nodes_of(rv, "DeclStmt") for d in rv.nodes[s_]["decls"] if d.get("d") == an.get("d") and d.get("init", -1) >= 0]
                    assigns = [rv.nodes[x]["ch"][1] for x in astq.nodes_of(rv, "BinaryOperator") if rv.nodes[x]["op"] == "=" and rv.nodes[rv.strip(rv.nodes[x]["ch"][0])].get("d") == an.get("d")]
                    ok = bool(inits) and all(names_escaper(x) for x in inits + assigns)
            r.ob(rv.q, txt, ok, "CopyValueTo must receive the escaper as its string function", rv.loc(i))
        else:
            r.ob(rv.q, txt, False, "stream write of unrecognised kind in the {var:} renderer", rv.loc(i))
    # helpers of the renderer class called from the {var:} renderer (transitively): whatever they write goes out as part of the
    # {var:} expansion too, so they may only write through the escaper
    own = {}
    for g in m.functions:
        if not g.inst and g.cls == rv.cls and g.cfg:
            own.setdefault(g.name, []).append(g)
    seen_h, work_h = set(), [rv]
    while work_h:
        cur = work_h.pop()
        for c in astq.calls(cur):
            nm_ = cur.call_simple_name(c)
            rc_ = cur.call_receiver(c)
            if nm_ in own and nm_ not in seen_h and nm_ != rv.name and (rc_ is None or cur.nodes[cur.strip(rc_)]["k"] == "CXXThisExpr"):
                seen_h.add(nm_)
                work_h += own[nm_]
    for hn in sorted(seen_h):
        for h in own[hn]:
            for (i, nm, txt) in stream_effects(h):
                ctx.note_fn(h)
                ok_h = nm == "EscapeHTMLSpecialChars"
                r.ob(h.q, txt, ok_h, "%s is called from the {var:} renderer: %s" % (hn, "escaper call" if ok_h else
                     "it writes to the stream without the escaper, so this part of a {var:} expansion is not escaped"), h.loc(i))
    if not any(nm == "CopyValueTo" for _, nm, _ in effs):
        r.ob(rv.q, "CopyValueTo", False, "the value is no longer written through CopyValueTo", "Include/Template.hpp:%d" % rv.line)

    rr = m.fn(T + "renderRawVariable")
    ctx.note_fn(rr)
    uses_esc = any(rr.nodes[x].get("n") == "EscapeHTMLSpecialChars" for x in rr.walk())
    r.ob(rr.q, "no escaper", not uses_esc, "{raw:} must not reference the escaper", "Include/Template.hpp:%d" % rr.line)
    for c in astq.calls(rr, "CopyValueTo"):
        r.ob(rr.q, rr.text(c), len(rr.call_args(c)) == 2, "CopyValueTo without a string function", rr.loc(c), nontrivial=False)

    sv = m.fn(T + "renderSuperVariable")
    ctx.note_fn(sv)
    for (i, nm, txt) in stream_effects(sv):
        if nm == "Write":
            args = sv.call_args(i)
            src = sv.text(args[0]) if args else ""
            # literal template slices: source is content_ (the template), never the phrase `content`
            ok = src.startswith("(content_ +")
            r.ob(sv.q, txt, ok, "raw Write may only copy template text (content_ + ...), phrase text must be escaped", sv.loc(i))
        elif nm == "EscapeHTMLSpecialChars":
            r.ob(sv.q, txt, True, "phrase segment escaped", sv.loc(i), nontrivial=False)
        else:
            r.ob(sv.q, txt, False, "stream write of unrecognised kind in the super-variable renderer", sv.loc(i))
    # sub-tag dispatch
    sws = astq.nodes_of(sv, "SwitchStmt")
    want = {"Variable": "renderVariable", "RawVariable": "renderRawVariable", "Math": "renderMath"}
    seen = set()
    for sw in sws:
        for labels, stmts in astq.switch_arms(sv, sw):
            for l in labels:
                nm = (l[0] or "").split("::")[-1]
                if nm in want:
                    seen.add(nm)
                    called = [sv.call_simple_name(c) for s in stmts for c in astq.calls(sv, None, s) if (sv.call_simple_name(c) or "").startswith("render")]
                    r.ob(sv.q, "sub-tag " + nm, called == [want[nm]], "dispatches to %s (want %s)" % (called, want[nm]), sv.loc(stmts[0]))
    for nm in want:
        if nm not in seen:
            r.ob(sv.q, "sub-tag " + nm, False, "no arm for this sub-tag kind", "Include/Template.hpp:%d" % sv.line)

    cv = [f for f in m.fns("Qentem::Value::CopyValueTo") if len(f.params) == 3]
    if len(cv) != 1:
        raise AnalysisBroken("Value::CopyValueTo(stream, format, string_function) not found")
    cv = cv[0]
    ctx.note_fn(cv)
    sfn = cv.params[2]["n"]
    sws = astq.nodes_of(cv, "SwitchStmt")
    arms = {}
    for labels, stmts in astq.switch_arms(cv, sws[0]):
        for l in labels:
            arms[(l[0] or "").split("::")[-1]] = stmts
    st = arms.get("String")
    ok = False
    if st:
        for s in st:
            for i in astq.nodes_of(cv, "IfStmt", s):
                n = cv.nodes[i]
                ct = cv.text(n["cond"])
                if sfn in ct and "nullptr" in ct and "!=" in ct:
                    then_calls = [cv.text(c) for c in astq.calls(cv, None, n["then"])]
                    ok = any(t.startswith(sfn + "(") for t in then_calls) and \
                        not any(cv.call_simple_name(c) == "Write" for c in astq.calls(cv, None, n["then"]))
                elif sfn in ct and "nullptr" in ct and "==" in ct:
                    els_calls = [cv.text(c) for c in astq.calls(cv, None, n["else"])] if n["else"] >= 0 else []
                    ok = any(t.startswith(sfn + "(") for t in els_calls)
        raw_outside = [c for s in st for c in astq.calls(cv, "Write", s)
                       if not any(c in set(cv.walk(i)) for s2 in st for i in astq.nodes_of(cv, "IfStmt", s2))]
        ok = ok and not raw_outside
    r.ob(cv.q, "String arm", ok, "strings are passed to string_function whenever it is given", cv.loc(st[0]) if st else "")
    vp = arms.get("ValuePtr")
    ok = False
    if vp:
        for s in vp:
            for c in astq.calls(cv, "CopyValueTo", s):
                a = cv.call_args(c)
                ok = len(a) == 3 and cv.nodes[cv.strip(a[2])].get("n") == sfn
    r.ob(cv.q, "ValuePtr arm", ok, "the pointer arm forwards string_function to the pointed-to value", cv.loc(vp[0]) if vp else "")
    rules.append(r)

    # ---------------- X-escaper
    r = Rule("X-escaper", "the escaper rewrites exactly & < > \" ' with the matching entity and keeps its cursors", floor=6)
    es = m.fn("Qentem::StringUtils::EscapeHTMLSpecialChars")
    ctx.note_fn(es)
    sws = astq.nodes_of(es, "SwitchStmt")
    if len(sws) != 1:
        raise AnalysisBroken("EscapeHTMLSpecialChars: expected one switch")
    seen = {}
    for labels, stmts in astq.switch_arms(es, sws[0]):
        for l in labels:
            if l[0] == "default":
                continue
            v = l[1]
            seen[v] = stmts
    for ch, (ent, lit) in ENTITIES.items():
        stmts = seen.get(ch)
        if stmts is None:
            r.ob(es.q, "case %r" % chr(ch), False, "special character has no arm: it would be emitted raw", es.loc(sws[0]))
            continue
        # the arm's final sequence: Write(str+offset, index-offset); Write(Entity, EntityLength); ++index; offset = index
        writes = [c for s in stmts for c in astq.calls(es, "Write", s)]
        tail = writes[-2:] if len(writes) >= 2 else []
        ok = False
        why = "arm does not end with flush + entity write"
        if len(tail) == 2:
            a0, a1 = es.call_args(tail[0]), es.call_args(tail[1])
            flush_ok = es.text(a0[0]) == "(str + offset)" and es.text(a0[1]) == "(index - offset)"
            ent_name = es.nodes[es.strip(a1[0])].get("n")
            len_name = es.nodes[es.strip(a1[1])].get("n")
            ent_ok = ent_name == ent and len_name == ent + "Length"
            txt = " ".join(es.text(s) for s in stmts)
            after = []
            for s in stmts:
                for i in es.walk(s):
                    n = es.nodes[i]
                    if i > tail[1] and n["k"] in ("UnaryOperator", "BinaryOperator") and n.get("op") in ("++", "="):
                        after.append(es.text(i))
            cursor_ok = after[-2:] == ["++index", "(offset = index)"]
            ok = flush_ok and ent_ok and cursor_ok
            why = "flush %s, entity %s/%s (want %s/%sLength), cursor update %s" % ("ok" if flush_ok else "WRONG", ent_name, len_name, ent, ent, after[-2:])
        r.ob(es.q, "case %r" % chr(ch), ok, why, es.loc(stmts[0]))
    for v in seen:
        if v not in ENTITIES:
            r.ob(es.q, "case %r" % v, False, "a unit outside the five HTML specials is rewritten", es.loc(sws[0]))
    # tail flush
    allw = astq.calls(es, "Write")
    lastw = [c for c in allw if es.text(es.call_args(c)[0]) == "(str + offset)" and es.text(es.call_args(c)[1]) == "(length - offset)"]
    r.ob(es.q, "tail flush", len(lastw) == 1, "the text after the last special is written as (str + offset, length - offset)", "Include/StringUtils.hpp:%d" % es.line)
    rules.append(r)

    # ---------------- TB-entities
    r = Rule("TB-entities", "entity literals, declared lengths and the pass-through look-ahead constants agree", floor=30)
    mem = tab.members(m, "Qentem::StringUtils::HTMLSpecialChars_T")
    lens = {}
    for targs, mm in sorted(mem.items()):
        for ch, (ent, lit) in ENTITIES.items():
            v, vl = mm.get(ent), mm.get(ent + "Length")
            u = tab.var_units(m, v) if v else None
            ln = tab.var_int(m, vl) if vl else None
            ok = u == [ord(c) for c in lit] and ln == len(lit)
            r.ob("HTMLSpecialChars_T" + targs, ent, ok, "literal %r length %s (want %r/%d)" % (tab.ascii_text(u) if isinstance(u, list) else u, ln, lit, len(lit)),
                 tab.rel(v) if v else "")
            lens[ent] = len(lit)
        sc = mm.get("SemicolonChar")
        r.ob("HTMLSpecialChars_T" + targs, "SemicolonChar", sc is not None and tab.var_int(m, sc) == ord(";"), "value", tab.rel(sc) if sc else "", nontrivial=False)
    amp = seen.get(ord("&"))
    # (the look-ahead of the '&' arm is decided by PR-passthru on abstract paths, not by the shape of its conditions)
    rules.append(r)

    # ---------------- PR-passthru
    rules.append(rule_passthrough(ctx, m, es, seen, ENTITIES))

    # ---------------- CFG-switch
    r = Rule("CFG-switch", "the escaper is guarded by Config::AutoEscapeHTML; the off branch is one raw Write", floor=1)
    top_ifs = [i for i in astq.nodes_of(es, "IfStmt") if "AutoEscapeHTML" in es.text(es.nodes[i]["cond"])]
    ok = False
    if len(top_ifs) == 1:
        n = es.nodes[top_ifs[0]]
        els = n["else"]
        if els >= 0:
            cs = astq.calls(es, None, els)
            ok = len(cs) == 1 and es.call_simple_name(cs[0]) == "Write" and [es.text(a) for a in es.call_args(cs[0])] == ["str", "length"]
    r.ob(es.q, "if (Config::AutoEscapeHTML)", ok, "else-branch is stream.Write(str, length)", "Include/StringUtils.hpp:%d" % es.line)
    # the compile-time switch itself: the value of the constant in the translation unit built with the macro set to 0 and with the
    # macro left alone (constant-evaluated by the front end in both builds; nothing is run)
    for (cfg, want, how) in (("sse2", 1, "QENTEM_AUTO_ESCAPE_HTML not given"), ("sse2-noescape", 0, "-DQENTEM_AUTO_ESCAPE_HTML=0")):
        mc = ctx.pattern(cfg)
        vs = [v for v in mc.vars if v["q"] == "Qentem::Config::AutoEscapeHTML"]
        if not vs or "val" not in vs[0]:
            r.broke("Config::AutoEscapeHTML has no constant value in the build with %s" % how)
            continue
        r.ob("Qentem::Config", "AutoEscapeHTML with %s" % how, vs[0]["val"] == want, "the constant evaluates to %s in that build; %s is required%s" % (
            bool(vs[0]["val"]), bool(want), "" if vs[0]["val"] == want else ": {var:} keeps escaping although the configuration turns it off" if want == 0 else ""),
            "Include/QCommon.hpp:%d" % vs[0]["line"])
    r.floor = 3
    rules.append(r)
    # all character widths: the escaper dispatches on whole code units (a narrowed unit makes U+0426 look like '&')
    from rules.common import rule_narrow_units, rule_sign_unit
    rules.append(rule_narrow_units(ctx, m, ["StringUtils.hpp"]))
    from rules.common import rule_flush_first
    rules.append(rule_flush_first(ctx, m, "Qentem::StringUtils::EscapeHTMLSpecialChars"))
    return rules



def rule_passthrough(ctx, m, es, seen, ENTITIES):
    """PR-passthru: "escaping an already escaped string changes nothing" and "& only as the start of an entity".  Abstract
    interpretation of the '&' arm of the escaper over the domain (units known at the cursor, interval of the remaining length).
    Branch conditions are evaluated three-valued (remaining-length comparisons, unit comparisons, IsEqual against an entity
    literal); an unknown condition takes both edges and the edge taken adds what it implies (the units an IsEqual matched, the
    unit a comparison found, the bound on the remaining length).
      (forward) for each of the five entities: with the entity at the cursor, whatever follows, on EVERY feasible path the arm
                advances the cursor by exactly the entity's length and writes nothing;
      (converse) with nothing known but the '&': every feasible path that writes nothing advances by the length of an entity
                whose every unit the path has established, inside the remaining length."""
    r = Rule("PR-passthru", "an entity at the cursor is skipped whole and nothing else is skipped (abstract paths of the '&' arm)", floor=6)
    amp = seen.get(ord("&"))
    if not amp or not es.cfg:
        r.broke("EscapeHTMLSpecialChars: the case '&' arm was not found")
        return r
    blocks = es.blocks()
    start = [b for b in es.cfg["blocks"] if (b.get("label") or {}).get("case") == ord("&")]
    if len(start) != 1:
        r.broke("EscapeHTMLSpecialChars: no CFG block carries the label case '&'")
        return r
    arm_nodes = set(x for s_ in amp for x in es.walk(s_))
    lits = {ent: lit for (ent, lit) in ENTITIES.values()}
    names = {"SemicolonChar": ";"}
    decl_init = {}
    for x in arm_nodes:
        if es.nodes[x]["k"] == "DeclStmt":
            for d in es.nodes[x]["decls"]:
                if "d" in d and d.get("init", -1) >= 0:
                    decl_init[d["d"]] = d["init"]

    def lin(x, depth=0):
        x = es.strip_casts(x)
        n = es.nodes[x]
        c = es.const_value(x)
        if c is None and n["k"] not in ("DeclRefExpr", "BinaryOperator", "ParenExpr"):
            c = m.eval_nodes(es.nodes, x)
        if c is not None:
            return {1: c}
        if n["k"] == "DeclRefExpr":
            if n.get("d") in decl_init and depth < 6:
                return lin(decl_init[n["d"]], depth + 1)
            return {n.get("n"): 1}
        if n["k"] == "BinaryOperator" and n["op"] in ("+", "-"):
            a, b = lin(n["ch"][0], depth), lin(n["ch"][1], depth)
            if a is None or b is None:
                return None
            out = dict(a)
            for k, v in b.items():
                out[k] = out.get(k, 0) + (v if n["op"] == "+" else -v)
            return {k: v for k, v in out.items() if v or k == 1}
        return None

    def remaining(x):
        L = lin(x)
        if L is None:
            return None
        rest = {k: v for k, v in L.items() if k != 1 and v}
        return L.get(1, 0) if rest == {"length": 1, "index": -1} else None

    def unit_pos(x):
        x = es.strip_casts(x)
        n = es.nodes[x]
        if n["k"] != "ArraySubscriptExpr":
            return None
        b, i = lin(n["ch"][0]), lin(n["ch"][1])
        if b is None or i is None:
            return None
        tot = dict(b)
        for k, v in i.items():
            tot[k] = tot.get(k, 0) + v
        rest = {k: v for k, v in tot.items() if k != 1 and v}
        return tot.get(1, 0) if rest == {"str": 1, "index": 1} else None

    def const_unit(x):
        x = es.strip_casts(x)
        nm = es.nodes[x].get("n")
        if nm in names:
            return ord(names[nm])
        return es.const_value(x)

    def classify(x):
        """('rem', op, value) | ('unit', pos, op, const) | ('iseq', off, literal, n) | ('not', sub) | None"""
        x = es.strip(x)
        n = es.nodes[x]
        if n["k"] == "UnaryOperator" and n["op"] == "!":
            sub = classify(n["ch"][0])
            return ("not", sub) if sub else None
        if n["k"] == "BinaryOperator" and n["op"] in ("<", "<=", ">", ">=", "==", "!="):
            a, b = n["ch"]
            for (l_, r_, op) in ((a, b, n["op"]), (b, a, {"<": ">", "<=": ">=", ">": "<", ">=": "<=", "==": "==", "!=": "!="}[n["op"]])):
                c = remaining(l_)
                k = lin(r_)
                if c is not None and k is not None and set(k) <= {1}:
                    return ("rem", op, k.get(1, 0) - c)
                p_ = unit_pos(l_)
                u = const_unit(r_)
                if p_ is not None and u is not None and op in ("==", "!="):
                    return ("unit", p_, op, u)
            return None
        if n["k"] in ("CallExpr", "CXXMemberCallExpr") and es.call_simple_name(x) == "IsEqual":
            args = es.call_args(x)
            if len(args) == 3:
                b0 = lin(args[0])
                ent = es.nodes[es.strip(args[1])].get("n")
                cnt = lin(args[2])
                if b0 is not None and {k: v for k, v in b0.items() if k != 1 and v} == {"str": 1, "index": 1} and ent in lits and cnt is not None and set(cnt) <= {1} \
                        and cnt.get(1, 0) <= len(lits[ent]):
                    return ("iseq", b0.get(1, 0), lits[ent], cnt.get(1, 0))
        return None

    def decide(cl, st):
        """True/False/None for a classified atom under the state"""
        if cl[0] == "not":
            v = decide(cl[1], st)
            return None if v is None else (not v)
        if cl[0] == "rem":
            _, op, val = cl
            import operator
            fn = {"<": operator.lt, "<=": operator.le, ">": operator.gt, ">=": operator.ge, "==": operator.eq, "!=": operator.ne}[op]
            lo, hi = st["lo"], st["hi"]
            if fn(lo, val) and fn(hi, val) and op in ("<", "<=", ">", ">="):
                return True
            if (not fn(lo, val)) and (not fn(hi, val)) and op in ("<", "<=", ">", ">="):
                return False
            if op == "==" and (val < lo or val > hi):
                return False
            if op == "!=" and (val < lo or val > hi):
                return True
            return None
        if cl[0] == "unit":
            _, pos, op, u = cl
            if pos in st["known"]:
                eq = ord(st["known"][pos]) == u
                return eq if op == "==" else (not eq)
            if pos in st["notunit"] and u in st["notunit"][pos]:
                return op == "!="
            return None
        if cl[0] == "iseq":
            _, off, lit, cnt = cl
            unknown = False
            for j in range(cnt):
                pp = off + j
                if pp in st["known"]:
                    if st["known"][pp] != lit[j]:
                        return False
                else:
                    unknown = True
            return None if unknown else True
        return None

    def assume(cl, truth, st):
        """narrow the state by the edge taken; returns False if the edge is infeasible"""
        if cl[0] == "not":
            return assume(cl[1], not truth, st)
        if cl[0] == "rem":
            _, op, val = cl
            eff = op if truth else {"<": ">=", "<=": ">", ">": "<=", ">=": "<", "==": "!=", "!=": "=="}[op]
            lo, hi = st["lo"], st["hi"]
            if eff == ">":
                lo = max(lo, val + 1)
            elif eff == ">=":
                lo = max(lo, val)
            elif eff == "<":
                hi = min(hi, val - 1)
            elif eff == "<=":
                hi = min(hi, val)
            elif eff == "==":
                lo, hi = max(lo, val), min(hi, val)
            st["lo"], st["hi"] = lo, hi
            return lo <= hi
        if cl[0] == "unit":
            _, pos, op, u = cl
            if (op == "==") == truth:
                st["known"] = dict(st["known"])
                st["known"][pos] = chr(u)
            else:
                st["notunit"] = dict(st["notunit"])
                st["notunit"][pos] = st["notunit"].get(pos, frozenset()) | {u}
            return True
        if cl[0] == "iseq" and truth:
            _, off, lit, cnt = cl
            st["known"] = dict(st["known"])
            for j in range(cnt):
                st["known"][off + j] = lit[j]
        return True

    def effects(b, st):
        for e in b["el"]:
            x = e.get("n")
            if not isinstance(x, int) or e.get("k"):
                continue
            n = es.nodes[x]
            if n["k"] in ("CallExpr", "CXXMemberCallExpr") and es.call_simple_name(x) == "Write":
                st["writes"] = st["writes"] + [es.text(x)[:60]]
            if n["k"] == "CompoundAssignOperator" and n["op"] == "+=" and es.nodes[es.strip(n["ch"][0])].get("n") == "index":
                k = lin(n["ch"][1])
                st["adv"] = None if (k is None or set(k) - {1} or st["adv"] is None) else st["adv"] + k.get(1, 0)
            if n["k"] == "UnaryOperator" and n["op"] == "++" and es.nodes[es.strip(n["ch"][0])].get("n") == "index":
                st["adv"] = None if st["adv"] is None else st["adv"] + 1
            if n["k"] == "BinaryOperator" and n["op"] == "=" and es.nodes[es.strip(n["ch"][0])].get("n") == "index":
                st["adv"] = None

    def in_arm(b):
        ns = [e["n"] for e in b["el"] if isinstance(e.get("n"), int) and not e.get("k")]
        return bool(ns) and all(x in arm_nodes for x in ns)

    def explore(known, lo):
        finals = []
        work = [(start[0]["id"], {"known": dict(known), "notunit": {}, "lo": lo, "hi": 10 ** 9, "writes": [], "adv": 0, "dec": [], "uncl": False})]
        steps = 0
        while work and steps < 20000:
            steps += 1
            bid, st = work.pop()
            b = blocks[bid]
            if bid != start[0]["id"] and not in_arm(b):
                finals.append(st)
                continue
            st = dict(st)
            effects(b, st)
            succ = dataflow.successors(es, b)
            if not succ:
                finals.append(st)
                continue
            if succ[0][1] not in ("true", "false"):
                work.append((succ[0][0], st))
                continue
            cond = succ[0][2]
            cl = classify(cond)
            v = decide(cl, st) if cl else None
            for (s_, kind, _) in succ:
                truth = kind == "true"
                if v is not None and v != truth:
                    continue
                st2 = dict(st, dec=list(st["dec"]))
                if cl is None:
                    st2["uncl"] = True
                elif not assume(cl, truth, st2):
                    continue
                if v is None:
                    st2["dec"].append("%s is %s" % (es.text(cond)[:70], "true" if truth else "false"))
                work.append((s_, st2))
        return finals if steps < 20000 else None

    for ch, (ent, lit) in sorted(ENTITIES.items()):
        L = len(lit)
        finals = explore({i: c for i, c in enumerate(lit)}, L)
        if not finals:
            r.broke("EscapeHTMLSpecialChars: the paths of the '&' arm for %s could not be enumerated" % lit)
            continue
        bad = [st for st in finals if st["writes"] or st["adv"] != L]
        hard = [st for st in bad if not st["uncl"]]
        if bad and not hard:
            r.broke("EscapeHTMLSpecialChars: a path of the '&' arm for %s depends on a condition this rule cannot classify (%s)" % (lit, "; ".join(bad[0]["dec"])[:200]))
            continue
        if hard:
            st = hard[0]
            why = "with %s at the cursor and %s, the arm %s instead of skipping the %d units of the entity: an escaped string is escaped again" % (
                lit, ("; ".join(st["dec"]) or "any continuation"), ("writes %s" % st["writes"][0]) if st["writes"] else "advances by %s" % st["adv"], L)
        else:
            why = "%d feasible path(s): each advances the cursor by %d and writes nothing" % (len(finals), L)
        r.ob(es.q, "pass-through of %s on every continuation" % lit, not hard, why, es.loc(amp[0]))
    # converse: whatever is skipped is an entity
    finals = explore({0: "&"}, 1)
    if not finals:
        r.broke("EscapeHTMLSpecialChars: the paths of the '&' arm could not be enumerated")
        return r
    skipping = [st for st in finals if not st["writes"]]
    bad = None
    for st in skipping:
        adv = st["adv"]
        text = "".join(st["known"].get(i, "?") for i in range(adv or 0))
        if adv is None or text not in lits.values() or st["lo"] < adv:
            bad = (st, text)
            break
    uncl = [st for st in skipping if st["uncl"]]
    if bad and uncl and bad[0] in uncl:
        r.broke("EscapeHTMLSpecialChars: a skipping path of the '&' arm depends on a condition this rule cannot classify")
        return r
    r.ob(es.q, "nothing but an entity is passed through", bad is None,
         "%d path(s) emit nothing; each has established every unit of one of the five entities within the remaining length" % len(skipping) if bad is None else
         "a path (%s) skips %s unit(s) and emits nothing although the units it has established spell `%s`%s: an '&' that does not start an entity reaches the output" % (
             "; ".join(bad[0]["dec"])[:160], bad[0]["adv"], bad[1], "" if bad[0]["lo"] >= (bad[0]["adv"] or 0) else " and only %d unit(s) are known to remain" % bad[0]["lo"]), es.loc(amp[0]))
    return r


def run(ctx):
    rules_ = list(_run_own(ctx) or [])
    from rules.common import shared
    have = set(r_.rid for r_ in rules_)
    rules_ += [r_ for r_ in shared(ctx, 'C02', ['X-copykind']) if r_.rid not in have]
    return rules_
