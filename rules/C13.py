import re
"""C13 -- the hash array is an insertion-ordered map under every operation sequence (protocol clauses)."""
from qlib import astq, dataflow
from qlib.model import AnalysisBroken
from qlib.report import Rule

META = {
    "explanation": "Protocol / sibling checks on the uninstantiated HashTable, HArray, HList and StringUtils::Hash: "
                   "(TB-hash) every return of Hash ORs the top bit, so a live item's hash is never 0; (WHO-hash) Hash/"
                   "Next and the bucket heads are written only by the three table classes, Hash only from a computed "
                   "hash, another item's hash or the tombstone 0 in remove(); (PR-capacity) every insert() is reached "
                   "with room: after `if (Size() == Capacity()) expand()` (must-pass on the CFG) or inside a merge whose "
                   "pre-size is Size() + src.Size() of the raw slot counts, guarded by `> Capacity()` -> resize, with at "
                   "most one insert per source slot; expand() doubles max(1, capacity); (BORROW) the link/item pointers "
                   "returned by find() are not used after a call that may reallocate the table; (PR-remove) remove() "
                   "unlinks, tombstones (Hash = Next = 0) and clears on the found path; (PR-rehash) Sort, resize and "
                   "copyTable end with generateHash() over zeroed/fresh bucket heads and move only items with Hash != 0; "
                   "generateHash numbers EVERY slot (position counter advanced unconditionally); (SB-bucket) find and "
                   "generateHash compute the bucket as hash & (Capacity() - 1) and allocate() rounds the capacity with "
                   "AlignSize; (PR-rename) Rename appends the item to the new chain before unlinking it from the old "
                   "one, then clears Next and stores the new hash, only when the source exists and the target does not.",
    "not_decided": "map semantics over operation histories (lookup results, iteration order)",
    "assumptions": ["Memory::AlignSize returns a power of two >= its argument (checked under C14's memory rules)"],
}
META["explanation"] += " " + '(SB-eqlen, shared with C15) key equality is length-checked.'
META["explanation"] += " " + '(SB-keypair) a key object is forwarded as (First(), Length()) of the same object, never as First() alone. PR-rehash additionally: copyTable records as size the counter stepped once per constructed item; after a range Dispose of items every path rebuilds or clears the chains.'
META["explanation"] += " " + "PR-capacity's guard form is decided on the CFG: the insert is dominated by the test Size() == Capacity() and reached over its false edge or, over its true edge, only after expand(). (HC-confirm) an equality with a stored hash decides a match only together with a key comparison."
META["explanation"] += " " + '(SB-scan) every pointer scan over a table ends at base + Size() of the same table. (PR-wipe) the bucket array is cleared over Capacity() entries. PR-rename additionally: on every path to `return true` the item received the new key and the new hash (must-analysis).'
META["explanation"] += " " + '(PR-resize) a member that gives a table a computed size rebuilds the bucket chains on every path before it returns.'

HT = "Qentem::HashTable::"


META["explanation"] += " " + 'Taken over unchanged from other modules because a seeded change to this property was reported by them (rules.common.shared): O12-descendant from C16; ASYM from C15.'

def stmts_text(f, root):
    return [f.text(s) for s in f.nodes[root].get("ch", [])]


def _run_own(ctx):
    m = ctx.pattern()
    rules = []

    # ---------------- TB-hash
    r = Rule("TB-hash", "StringUtils::Hash never returns 0: every return ORs the top bit", floor=1)
    h = m.fn("Qentem::StringUtils::Hash")
    ctx.note_fn(h)
    hb = [d for s in astq.nodes_of(h, "DeclStmt") for d in h.nodes[s]["decls"] if d.get("n") == "highest_bit"]
    hb_ok = bool(hb) and h.text(hb[0]["init"]).replace(" ", "") in ("(SizeT{1}<<((sizeof(Qentem::SizeT)*8)-SizeT{1}))",) or \
        (bool(hb) and "<<" in h.text(hb[0]["init"]) and "sizeof" in h.text(hb[0]["init"]) and "- " in h.text(hb[0]["init"]))
    for ret in astq.returns(h):
        v = h.nodes[h.strip(h.nodes[ret]["val"])]
        ok = v["k"] == "BinaryOperator" and v["op"] == "|" and any(h.nodes[h.strip(c)].get("n") == "highest_bit" for c in v["ch"]) and hb_ok
        r.ob(h.q, h.text(ret), ok, "return value must be (hash | highest_bit) with highest_bit = 1 << (bits-1)", h.loc(ret))
    rules.append(r)

    # ---------------- WHO-hash
    r = Rule("WHO-hash", "Hash/Next are written only by HashTable/HArray/HList; Hash only from a hash value or the tombstone", floor=6)
    owners = ("Qentem::HashTable", "Qentem::HArray", "Qentem::HList")
    for f in m.functions:
        if f.inst:
            continue
        for i in f.walk():
            n = f.nodes[i]
            if n["k"] in ("BinaryOperator", "CompoundAssignOperator") and n.get("op", "").endswith("=") and n["op"] not in ("==", "!=", "<=", ">="):
                lhs = f.nodes[f.strip(n["ch"][0])]
                if lhs["k"] in ("MemberExpr", "CXXDependentScopeMemberExpr") and lhs.get("n") in ("Hash", "Next") and not lhs.get("qual"):
                    in_owner = f.cls in owners
                    src = f.text(n["ch"][1])
                    if lhs["n"] == "Hash":
                        okv = src in ("hash", "to_hash", "0") or src.endswith("Hash") or src.endswith("->Hash")
                        if src == "0":
                            okv = f.name == "remove"
                    else:
                        okv = True
                    r.ob(f.q, f.text(i), in_owner and okv,
                         "%s written in %s from `%s`" % (lhs["n"], f.q, src) if in_owner else "field of the table written outside the table classes", f.loc(i))
    rules.append(r)

    # ---------------- PR-capacity
    r = Rule("PR-capacity", "every insert() happens with room in the storage", floor=9)
    for f in m.functions:
        if f.inst or f.cls not in owners or f.name == "insert":
            continue
        ins = astq.calls(f, "insert")
        if not ins:
            continue
        ctx.note_fn(f)
        # pattern A: a dominating test `Size() == Capacity()`: the insert is reached either over its false edge (there is room)
        # or over its true edge only after expand()
        guard = None
        for i in astq.nodes_of(f, "IfStmt"):
            n = f.nodes[i]
            ct = f.text(n["cond"]).replace("(", "").replace(")", "").replace(" ", "")
            if ct in ("Size==Capacity", "Capacity==Size") and guard is None:
                guard = i
        # pattern B: merge pre-size
        nsz = [d for s in astq.nodes_of(f, "DeclStmt") for d in f.nodes[s]["decls"] if d.get("n") == "n_size"]
        for c in ins:
            if guard is not None:
                # no reallocation-free path from entry to the insert that skips the guard: the guard's condition block dominates
                cond_n = f.nodes[guard]["cond"]
                cb = dataflow.block_of(f, f.strip(cond_n))
                tb = dataflow.block_of(f, c)
                reach = dataflow.reachable(f, lambda b, s, kind, payload: b["id"] == cb)
                ok = cb is not None and tb is not None and (tb not in reach or tb == cb)
                if ok:
                    # from the true edge (table full), the insert must not be reachable without passing an expand() call
                    blocks_ = f.blocks()
                    exp_blocks = {}
                    for x in astq.calls(f, "expand"):
                        exp_blocks.setdefault(dataflow.block_of(f, x), []).append(x)
                    start = [s_ for (s_, kind, payload) in dataflow.successors(f, blocks_[cb]) if kind == "true"]
                    seen_, work_ = set(), list(start)
                    while work_:
                        b_ = work_.pop()
                        if b_ in seen_:
                            continue
                        seen_.add(b_)
                        if b_ == tb and not (b_ in exp_blocks and min(exp_blocks[b_]) < c):
                            ok = False
                            break
                        if b_ in exp_blocks:
                            continue
                        work_ += [s_ for (s_, k_, p_) in dataflow.successors(f, blocks_[b_])]
                # and Size() does not grow between guard and insert: no other insert/++index_ before it on the path
                earlier = [x for x in ins if x < c]
                r.ob(f.sig, f.text(c)[:60], ok and not earlier, "dominated by the test `Size() == Capacity()`: reached with room, or after expand()%s" % (" but another insert precedes it" if earlier else ""), f.loc(c))
            elif nsz:
                init_t = f.text(nsz[0]["init"]).replace(" ", "")
                ok_init = init_t in ("(Size()+src.Size())", "(src.Size()+Size())")
                resz = [i for i in astq.nodes_of(f, "IfStmt") if f_text(f, i) == "n_size>Capacity" and
                        [f.text(x) for x in astq.calls(f, "resize", f.nodes[i]["then"])] == ["resize(n_size)"]]
                loop = astq.enclosing(f, c, ("WhileStmt", "DoStmt", "ForStmt"))
                one_per_slot = False
                if loop is not None:
                    body = f.nodes[loop]["body"]
                    incs = [x for x in f.walk(body) if f.nodes[x]["k"] == "UnaryOperator" and f.nodes[x]["op"] == "++" and f.text(f.nodes[x]["ch"][0]) == "src_item"]
                    inner_ins = astq.calls(f, "insert", body)
                    lc = f.text(f.nodes[loop]["cond"]).replace(" ", "").replace("(", "").replace(")", "")
                    one_per_slot = len(incs) == 1 and len(inner_ins) == 1 and lc == "src_item<src_end" and \
                        astq.enclosing(f, incs[0], ("IfStmt",)) is None
                end_def = [d for s in astq.nodes_of(f, "DeclStmt") for d in f.nodes[s]["decls"] if d.get("n") == "src_end"]
                ok_end = bool(end_def) and f.text(end_def[0]["init"]).replace(" ", "").replace("(", "").replace(")", "") == "src_item+src.Size"
                ok = ok_init and len(resz) == 1 and resz[0] < (loop or 0) and one_per_slot and ok_end
                r.ob(f.sig, f.text(c)[:60], ok,
                     "merge: n_size = %s (want Size() + src.Size()), resize guard %s, one insert per source slot %s, src_end over src.Size() slots %s" % (
                         init_t, "ok" if len(resz) == 1 else "MISSING", one_per_slot, ok_end), f.loc(c))
            else:
                r.ob(f.sig, f.text(c)[:60], False, "insert() is not preceded by a capacity step", f.loc(c))
    ex = m.fn(HT + "expand")
    ctx.note_fn(ex)
    # expand() must ask resize() for more than the current capacity, whatever that is: the argument is evaluated as a linear
    # form a*c + b in c = Capacity(), once for c == 0 and once for c >= 1 (the test `Capacity() == 0` is the only non-linear atom)
    locals_init = {d["n"]: d["init"] for s_ in astq.nodes_of(ex, "DeclStmt") for d in ex.nodes[s_]["decls"] if d.get("init", -1) >= 0}

    def lin_c(nid, zero):
        n = ex.nodes[nid]
        k = n["k"]
        if k in ("ParenExpr", "ImplicitCastExpr", "CXXFunctionalCastExpr", "CXXUnresolvedConstructExpr", "InitListExpr", "CStyleCastExpr", "CXXStaticCastExpr") and len(n.get("ch", [])) == 1:
            return lin_c(n["ch"][0], zero)
        if k == "IntegerLiteral":
            return (0, n.get("cv", 0))
        if k in ("CallExpr", "CXXMemberCallExpr") and ex.call_simple_name(nid) == "Capacity" and not ex.call_args(nid):
            return (0, 0) if zero else (1, 0)
        if k == "DeclRefExpr" and n.get("n") in locals_init:
            return lin_c(locals_init[n["n"]], zero)
        if k == "BinaryOperator":
            op = n["op"]
            if op in ("==", "!="):
                x, y = lin_c(n["ch"][0], zero), lin_c(n["ch"][1], zero)
                if x is None or y is None:
                    return None
                # c == 0 / 0 == c
                if {x, y} == {(0, 0)} and zero:
                    return (0, 1 if op == "==" else 0)
                if (x, y) in (((1, 0), (0, 0)), ((0, 0), (1, 0))) and not zero:
                    return (0, 0 if op == "==" else 1)
                return None
            x, y = lin_c(n["ch"][0], zero), lin_c(n["ch"][1], zero)
            if x is None or y is None:
                return None
            if op == "+":
                return (x[0] + y[0], x[1] + y[1])
            if op == "*" and (x[0] == 0 or y[0] == 0):
                return (x[0] * y[1] + y[0] * x[1], x[1] * y[1])
            if op == "<<" and y[0] == 0:
                return (x[0] << y[1], x[1] << y[1])
            if op == "|" and not zero is False:
                return None
        if k == "ConditionalOperator":
            cnd = lin_c(n["ch"][0], zero)
            if cnd is not None and cnd[0] == 0:
                return lin_c(n["ch"][1] if cnd[1] else n["ch"][2], zero)
        return None
    rz = astq.calls(ex, "resize")
    ok = False
    why = "expand() does not call resize() exactly once"
    if len(rz) == 1:
        arg = ex.call_args(rz[0])[0]
        z0, z1 = lin_c(arg, True), lin_c(arg, False)
        if z0 is None or z1 is None:
            r.broke("expand(): the new capacity `%s` is not a linear form of Capacity()" % ex.text(arg))
        else:
            ok = z0[0] == 0 and z0[1] >= 1 and z1[0] >= 1 and (z1[0] - 1) + z1[1] >= 1
            why = "resize(%s): %d for an empty table, %d*Capacity()%+d otherwise -- %s the current capacity" % (ex.text(arg), z0[1], z1[0], z1[1], "always more than" if ok else "NOT always more than")
    r.ob(ex.q, "growth", ok, why, "Include/HashTable.hpp:%d" % ex.line)
    rules.append(r)

    # ---------------- BORROW (find -> link / item pointer)
    from rules.borrow import rule_borrow
    rb = rule_borrow(ctx, m, files=["HashTable.hpp", "HArray.hpp", "HList.hpp"], rid="PR-link")
    rb.text = "pointers returned by find()/Storage() are not used after a call that may reallocate the table"
    rules.append(rb)

    # ---------------- PR-remove   (matched by field names Next/Hash and data flow, not by variable names)
    r = Rule("PR-remove", "remove() unlinks, tombstones and clears the found item", floor=4)
    rm = m.fn(HT + "remove")
    ctx.note_fn(rm)
    fcalls = astq.calls(rm, "find")
    link_var = item_var = None
    if len(fcalls) == 1:
        a0 = rm.nodes[rm.strip(rm.call_args(fcalls[0])[0])]
        link_var = a0.get("n")
        for sdecl in astq.nodes_of(rm, "DeclStmt"):
            for d in rm.nodes[sdecl]["decls"]:
                if d.get("init", -1) >= 0 and fcalls[0] in set(rm.walk(d["init"])):
                    item_var = d["n"]
    found_if = [i for i in astq.nodes_of(rm, "IfStmt") if item_var and f_text(rm, i) in ("%s!=nullptr" % item_var,)]
    if not found_if:
        r.broke("remove(): found-branch `if (<find result> != nullptr)` not recognised")
    else:
        body = rm.nodes[found_if[0]]["then"]
        ass = assigns_in(rm, body)
        unlink = [i for (i, lhs, rhs) in ass if lhs == "*" + link_var and rhs == item_var + "->Next"]
        clr_next = [i for (i, lhs, rhs) in ass if lhs == item_var + "->Next" and rhs == "0"]
        clr_hash = [i for (i, lhs, rhs) in ass if lhs == item_var + "->Hash" and rhs == "0"]
        clear = [c for c in astq.calls(rm, "Clear", body) if rm.call_receiver(c) is not None and rm.text(rm.call_receiver(c)) == item_var]
        r.ob(rm.q, "unlink", len(unlink) == 1, "the link that pointed to the item takes the item's Next", rm.loc(body))
        r.ob(rm.q, "tombstone Next", len(clr_next) == 1 and bool(unlink) and unlink[0] < clr_next[0], "Next is cleared after it was used to patch the chain", rm.loc(body))
        r.ob(rm.q, "tombstone Hash", len(clr_hash) == 1, "Hash = 0 marks the slot as removed", rm.loc(body))
        r.ob(rm.q, "clear content", len(clear) == 1, "key/value are released", rm.loc(body))
    rules.append(r)

    # ---------------- PR-rehash
    r = Rule("PR-rehash", "Sort/resize/copyTable rebuild the chains; generateHash numbers every slot", floor=8)
    for name in ("Sort", "resize", "copyTable"):
        f = m.fn(HT + name)
        ctx.note_fn(f)
        gh = astq.calls(f, "generateHash")
        top = f.nodes[f.body].get("ch", [])
        last_stmt_calls = [c for c in gh if any(c in set(f.walk(s)) for s in top[-1:])] if name != "copyTable" else gh
        ok = len(gh) == 1 and bool(last_stmt_calls)
        if name == "copyTable":
            # generateHash is the last statement of the non-empty branch
            iff = astq.enclosing(f, gh[0], ("IfStmt",)) if gh else None
            ok = len(gh) == 1 and iff is not None and f.nodes[f.nodes[iff]["then"]]["ch"][-1] in [x for x in f.walk(f.nodes[iff]["then"]) if gh[0] in set(f.walk(x))][:2]
        r.ob(f.q, "generateHash() last", ok, "the rebuild is the final step", "Include/HashTable.hpp:%d" % f.line)
        if name == "Sort":
            z = astq.calls(f, "SetToZero")
            ok = len(z) == 1 and z[0] < gh[0] and "getHashTable()" in f.text(z[0]) and "Capacity()" in f.text(z[0]) if gh else False
            r.ob(f.q, "bucket heads zeroed", ok, "Memory::SetToZero(getHashTable(), size * Capacity()) precedes generateHash()", "Include/HashTable.hpp:%d" % f.line)
        else:
            a = astq.calls(f, "allocate")
            mv = [i for i in astq.nodes_of(f, "IfStmt") if f_text(f, i) in ("item->Hash!=0", "src_item->Hash!=0")]
            inits = astq.calls(f, "Initialize")
            ok = len(a) == 1 and len(mv) == 1 and len(inits) == 1 and inits[0] in set(f.walk(f.nodes[mv[0]]["then"]))
            r.ob(f.q, "only live items move", ok, "items are copied/moved into the fresh block only under Hash != 0", "Include/HashTable.hpp:%d" % f.line)
            # the size recorded afterwards is the number of items constructed: a counter stepped next to the Initialize call
            # (not the source's slot count, which includes removed entries)
            if inits and mv and name == "copyTable":
                guard_then = set(f.walk(f.nodes[mv[0]]["then"]))
                stepped = set(f.text(f.nodes[x]["ch"][0]) for x in guard_then if f.nodes[x]["k"] == "UnaryOperator" and f.nodes[x]["op"] == "++" and f.nodes[f.strip(f.nodes[x]["ch"][0])].get("tk") != "ptr")
                sets = [c for c in astq.calls(f, "setSize")]
                arg = f.text(f.strip_casts(f.call_args(sets[-1])[0])) if sets else None
                ok_sz = bool(sets) and arg in stepped
                r.ob(f.q, "size = items constructed", ok_sz, "setSize(%s): %s" % (arg, "a counter stepped once per constructed item" if ok_sz else
                     "not the count of constructed items (counters stepped with Initialize: %s): removed entries of the source would be counted as live, never-constructed slots" % sorted(stepped)),
                     f.loc(sets[-1]) if sets else "Include/HashTable.hpp:%d" % f.line)
    # items dropped from the storage may still be referenced by chain links: after a range Dispose every path rebuilds or clears
    # the chains (resize / generateHash / zeroed or released bucket heads) before the function returns
    REBUILD = {"resize", "generateHash", "SetToZero", "Deallocate", "clearHashTable", "Reset"}
    for f in m.functions:
        if f.inst or f.cls not in owners or not f.cfg or f.kind == "dtor":
            continue
        for c in astq.calls(f, "Dispose"):
            if len(f.call_args(c)) != 2:
                continue
            ctx.note_fn(f)
            blocks_ = f.blocks()
            rb = {}
            for x in astq.calls(f):
                if (f.call_simple_name(x) or "") in REBUILD:
                    rb.setdefault(dataflow.block_of(f, x), []).append(x)
            cb = dataflow.block_of(f, c)
            ok = cb in rb     # in the same straight-line block, before or after the drop (Clear zeroes the heads first)
            if not ok:
                seen_, work_ = set(), [s_ for (s_, k_, p_) in dataflow.successors(f, blocks_[cb])]
                ok = True
                while work_:
                    b_ = work_.pop()
                    if b_ in seen_ or b_ in rb:
                        continue
                    seen_.add(b_)
                    if b_ == f.cfg["exit"]:
                        ok = False
                        break
                    work_ += [s_ for (s_, k_, p_) in dataflow.successors(f, blocks_[b_])]
            r.ob(f.sig, f.text(c)[:60], ok, "after the items are dropped every path %s" % ("rebuilds or clears the chains" if ok else
                 "does NOT rebuild the chains: a link that still names a dropped slot survives, and a later insert into that slot is reached through the wrong chain"), f.loc(c))
    g = m.fn(HT + "generateHash")
    ctx.note_fn(g)
    loops = astq.nodes_of(g, "WhileStmt")
    outer = loops[0] if loops else None
    ok = False
    why = "outer loop not found"
    counters = [d for sd in astq.nodes_of(g, "DeclStmt") for d in g.nodes[sd]["decls"] if d.get("tk") == "uint" and d.get("init", -1) >= 0 and g.const_value(d["init"]) == 1]
    if outer is not None and len(counters) == 1:
        cname = counters[0]["n"]
        top = g.nodes[g.nodes[outer]["body"]].get("ch", [])
        texts = [g.text(x) for x in top]
        incs = [x for x in top if g.nodes[x]["k"] == "UnaryOperator" and g.nodes[x]["op"] == "++"]
        inc_names = [g.text(g.nodes[x]["ch"][0]) for x in incs]
        stores = [i for (i, lhs, rhs) in assigns_in(g, g.nodes[outer]["body"]) if lhs.startswith("*") and rhs == cname]
        cond_vars = [g.nodes[x].get("n") for x in g.walk(g.nodes[outer]["cond"]) if g.nodes[x]["k"] == "DeclRefExpr"]
        walker = [n_ for n_ in inc_names if n_ in cond_vars]
        ok = cname in inc_names and len(walker) == 1 and len(stores) == 1 and all(astq.enclosing(g, x, ("IfStmt",)) is None or astq.enclosing(g, x, ("IfStmt",)) < outer for x in incs) and \
            stores[0] < [x for x in incs if g.text(g.nodes[x]["ch"][0]) == cname][0]
        why = "counter `%s` (starts at 1) stored through the link, then it and the item pointer `%s` advance at the top level of the loop body" % (cname, walker[0] if walker else "?")
    r.ob(g.q, "every slot numbered", ok, "position counter and item pointer advance unconditionally once per slot; " + why, "Include/HashTable.hpp:%d" % g.line)
    r.ob(g.q, "positions start at 1", len(counters) == 1, "links hold index + 1 (0 terminates a chain)", "Include/HashTable.hpp:%d" % g.line, nontrivial=False)
    rules.append(r)

    # ---------------- SB-bucket
    r = Rule("SB-bucket", "find and generateHash use the same bucket formula; capacity is rounded by AlignSize", floor=4)
    fd = m.fn(HT + "find")
    ctx.note_fn(fd)
    def bucket_exprs(fn):
        """and-expressions `H & B` added to the bucket-head pointer and assigned to a SizeT* variable"""
        out = []
        for i in astq.nodes_of(fn, "BinaryOperator"):
            n = fn.nodes[i]
            if n["op"] == "&":
                par = fn.parents().get(i)
                while par is not None and fn.nodes[par]["k"] == "ParenExpr":
                    par = fn.parents().get(par)
                if par is not None and fn.nodes[par]["k"] == "BinaryOperator" and fn.nodes[par]["op"] == "+":
                    out.append((fn.text(n["ch"][0]), n["ch"][1]))
        return out
    fb = bucket_exprs(fd)
    ok = len(fb) == 1 and fd.nodes[fd.strip(fb[0][1])]["k"] in ("CallExpr", "CXXMemberCallExpr") and fd.call_simple_name(fd.strip(fb[0][1])) == "getBase"
    r.ob(fd.q, "bucket", ok, "bucket = heads + (%s & getBase())" % (fb[0][0] if fb else "?"), "Include/HashTable.hpp:%d" % fd.line)
    gb = bucket_exprs(g)
    ok = False
    if len(gb) == 1:
        bn = g.nodes[g.strip(gb[0][1])]
        if bn["k"] == "DeclRefExpr":
            bd = [d for sd in astq.nodes_of(g, "DeclStmt") for d in g.nodes[sd]["decls"] if d.get("d") == bn.get("d")]
            ok = bool(bd) and bd[0].get("constq") and g.call_simple_name(g.strip(bd[0]["init"])) == "getBase" and gb[0][0].endswith("->Hash")
        elif bn["k"] in ("CallExpr", "CXXMemberCallExpr"):
            ok = g.call_simple_name(g.strip(gb[0][1])) == "getBase" and gb[0][0].endswith("->Hash")
    r.ob(g.q, "bucket", ok, "bucket = heads + (item hash & getBase()) like find()", "Include/HashTable.hpp:%d" % g.line)
    gbf = m.fn(HT + "getBase")
    tx = stmts_text(gbf, gbf.body)
    rets = astq.returns(gbf)
    shape_a = len(tx) == 3 and tx[0].endswith("= Capacity()") and tx[1].startswith("--") and tx[2].startswith("return ")
    shape_b = len(rets) == 1 and gbf.text(gbf.nodes[rets[0]]["val"]).replace(" ", "") in ("(Capacity()-1)", "(Capacity()-fcast<Qentem::SizeT>({1}))")
    r.ob(gbf.q, "Capacity() - 1", shape_a or shape_b, "body %s" % tx, "Include/HashTable.hpp:%d" % gbf.line)
    al = m.fn(HT + "allocate")
    tx = stmts_text(al, al.body)
    al_calls = astq.calls(al, "AlignSize")
    sc_calls = astq.calls(al, "setCapacity")
    ok = False
    if len(al_calls) == 1 and len(sc_calls) == 1:
        # the value stored as capacity is the variable that received AlignSize's result
        tgt = [lhs for (i, lhs, rhs) in assigns_in(al, al.body) if i == al.parents().get(al_calls[0]) or al_calls[0] in set(al.walk(i))]
        ok = bool(tgt) and al.text(al.call_args(sc_calls[0])[0]) == tgt[0] and al_calls[0] < sc_calls[0]
    r.ob(al.q, "power-of-two capacity", ok, "capacity is passed through Memory::AlignSize before it is stored (mask needs 2^k)", "Include/HashTable.hpp:%d" % al.line)
    rules.append(r)

    # ---------------- PR-rename
    r = Rule("PR-rename", "Rename relinks the item: append to the new chain, then unlink, then clear Next and store the new hash", floor=4)
    rn = [f for f in m.fns(HT + "Rename") if f.params[1]["rref"]]
    if len(rn) != 1:
        raise AnalysisBroken("HashTable::Rename(const Key_T &, Key_T &&) not found")
    rn = rn[0]
    ctx.note_fn(rn)
    finds = astq.calls(rn, "find")
    if len(finds) != 2:
        raise AnalysisBroken("Rename: expected two find() calls (source and target)")
    L = rn.text(rn.call_args(finds[0])[0])
    R = rn.text(rn.call_args(finds[1])[0])
    H = rn.text(rn.call_args(finds[1])[-1])
    inner = [i for i in astq.nodes_of(rn, "IfStmt") if f_text(rn, i) == "*%s==0" % R]
    outer = [i for i in astq.nodes_of(rn, "IfStmt") if f_text(rn, i) == "*%s!=0" % L]
    ok_guard = len(inner) == 1 and len(outer) == 1 and inner[0] in set(rn.walk(rn.nodes[outer[0]]["then"])) and finds[1] in set(rn.walk(rn.nodes[outer[0]]["then"]))
    r.ob(rn.q, "guards", ok_guard, "relink only when the source was found (*%s != 0) and the target was not (*%s == 0)" % (L, R), "Include/HashTable.hpp:%d" % rn.line)
    if inner:
        ass = assigns_in(rn, rn.nodes[inner[0]]["then"])
        app = [i for (i, lhs, rhs) in ass if lhs == "*" + R and rhs == "*" + L]
        unl = [i for (i, lhs, rhs) in ass if lhs == "*" + L and rhs.endswith("->Next")]
        clr = [i for (i, lhs, rhs) in ass if lhs.endswith("->Next") and rhs == "0"]
        hsh = [i for (i, lhs, rhs) in ass if lhs.endswith("->Hash") and rhs == H]
        r.ob(rn.q, "chain writes present", len(app) == 1 and len(unl) == 1 and len(clr) == 1 and len(hsh) == 1,
             "append *%s = *%s: %d, unlink *%s = item->Next: %d, Next = 0: %d, Hash = %s: %d" % (R, L, len(app), L, len(unl), len(clr), H, len(hsh)), rn.loc(inner[0]))
        r.ob(rn.q, "append before unlink", bool(app) and bool(unl) and app[0] < unl[0], "the item is linked into the target chain before it leaves the source chain "
             "(the target link may be the item's own Next when both keys share a bucket)", rn.loc(inner[0]))
        r.ob(rn.q, "clear Next after unlink", bool(unl) and bool(clr) and unl[0] < clr[0], "Next is cleared after its old value was used to patch the source chain", rn.loc(inner[0]))
    # every path that reports success stored the new key AND the new hash in the item (must-pass on the CFG): find() compares
    # the stored hash first, so a renamed item that keeps its old hash is never found again
    must = {}
    blocks = rn.blocks()
    work = [rn.cfg["entry"]]
    must[rn.cfg["entry"]] = frozenset()
    succ_returns = []
    it = 0
    while work and it < 5000:
        it += 1
        bid = work.pop()
        st = set(must[bid])
        for e in blocks[bid]["el"]:
            x = e.get("n")
            if not isinstance(x, int) or e.get("k"):
                continue
            n_ = rn.nodes[x]
            if n_["k"] == "BinaryOperator" and n_["op"] == "=":
                lhs = rn.text(n_["ch"][0]).replace(" ", "")
                if lhs.endswith("->Hash") and rn.text(n_["ch"][1]) == H:
                    st.add("hash")
                if lhs.endswith("->Key"):
                    st.add("key")
            if n_["k"] == "ReturnStmt" and n_.get("val", -1) >= 0 and rn.const_value(n_["val"]) not in (None, 0):
                succ_returns.append((x, frozenset(st)))
        for (s_, k_, p_) in dataflow.successors(rn, blocks[bid]):
            new_ = frozenset(st) if s_ not in must else (must[s_] & frozenset(st))
            if s_ not in must or new_ != must[s_]:
                must[s_] = new_
                work.append(s_)
    final = {}
    for (x, st) in succ_returns:
        final[x] = st if x not in final else (final[x] & st)
    if not final:
        r.broke("Rename: no `return true` found")
    for x, st in sorted(final.items()):
        r.ob(rn.q, "return true", st >= {"hash", "key"}, "on every path to this return the item received %s" % (
            "the new key and the new hash" if st >= {"hash", "key"} else ("the new key but NOT the new hash: find() compares the stored hash first and never finds the renamed item" if "key" in st else "neither the key nor the hash")), rn.loc(x))
    rules.append(r)
    rules.append(rule_hash_confirm(ctx, m))
    rules.append(rule_key_pair(ctx, m))
    from rules.common import rule_equal_lengths
    rules.append(rule_equal_lengths(ctx, m))
    rules.append(rule_scan_extent(ctx, m))
    rules.append(rule_bucket_wipe(ctx, m))
    from rules.common import rule_size_rebuild
    rules.append(rule_size_rebuild(ctx, m))
    return rules


def rule_key_pair(ctx, m, files=("HashTable.hpp", "HArray.hpp", "HList.hpp", "Value.hpp")):
    """SB-keypair: keys are arbitrary unit sequences (embedded NULs included), so a key object is handed on as the pair
    (key.First(), key.Length()) -- or as the object itself -- never as key.First() alone (the callee would measure it again up to
    the first NUL)."""
    r = Rule("SB-keypair", "a key object is forwarded as (First(), Length()) of the same object, never as First() alone", floor=20)
    for f in m.functions:
        if f.inst or not any(f.file.endswith("/" + x) for x in files):
            continue
        pn = {p_["n"] for p_ in f.params if p_.get("ref") and re.search(r"Key_T|String|StringView|StringT|StringViewT", p_["t"])}
        if not pn:
            continue
        for c in astq.calls(f):
            args = f.call_args(c)
            texts = [f.text(f.strip_casts(a)).replace(" ", "") for a in args]
            for t in texts:
                mm = re.match(r"^(\w+)\.First\(\)$", t)
                if mm and mm.group(1) in pn:
                    ctx.note_fn(f)
                    ok = (mm.group(1) + ".Length()") in texts
                    r.ob(f.sig, f.text(c)[:70], ok, "`%s.First()` is passed %s" % (mm.group(1), "together with its Length()" if ok else
                         "without its Length(): the callee measures the text again and stops at the first NUL, so \"ab\\0cd\" is taken for \"ab\""), f.loc(c))
    return r


def rule_hash_confirm(ctx, m):
    """a match by stored hash must be confirmed by comparing the key: hashes collide (StringUtils::Hash ignores nothing a
    caller could rely on), so `item->Hash == h` alone identifies a chain, not a key.  Comparisons with 0 are tombstone tests."""
    r = Rule("HC-confirm", "equality with a stored hash is confirmed by a key comparison in the same condition", floor=1)
    for f in m.functions:
        if f.inst or f.file.endswith("QTest.hpp"):
            continue
        for i in astq.nodes_of(f, "BinaryOperator"):
            n = f.nodes[i]
            if n["op"] not in ("==", "!="):
                continue
            sides = [f.nodes[f.strip_casts(c)] for c in n["ch"]]
            hs = [x for x in sides if x["k"] in ("MemberExpr", "CXXDependentScopeMemberExpr") and x.get("n") == "Hash"]
            if not hs:
                continue
            other = [x for x in sides if x is not hs[0]]
            if other and other[0]["k"] == "IntegerLiteral" and other[0].get("cv") == 0:
                continue
            ctx.note_fn(f)
            # the enclosing condition: climb through && (for ==) / || (for !=) and parentheses
            top = i
            par = f.parents()
            join = "&&" if n["op"] == "==" else "||"
            while par.get(top) is not None and (f.nodes[par[top]]["k"] == "ParenExpr" or (f.nodes[par[top]]["k"] == "BinaryOperator" and f.nodes[par[top]]["op"] == join)):
                top = par[top]

            def key_cmp(root):
                return [c for c in astq.calls(f, None, root) if (f.call_simple_name(c) or "") in ("IsEqual", "operator==", "operator!=") and
                        f.call_receiver(c) is not None and f.text(f.call_receiver(c)).endswith("Key")]
            confirm = key_cmp(top)
            if n["op"] == "==" and not confirm:
                # `if (Hash == h) { if (Key.IsEqual(..)) {..} }`: everything the hash test guards sits under a key comparison
                ifs = [x for x in astq.nodes_of(f, "IfStmt") if f.nodes[x]["cond"] == top or top in set(f.walk(f.nodes[x]["cond"]))]
                if ifs and f.nodes[ifs[-1]]["else"] < 0:
                    body = f.nodes[ifs[-1]]["then"]
                    stmts = f.nodes[body].get("ch", []) if f.nodes[body]["k"] == "CompoundStmt" else [body]
                    if len(stmts) == 1 and f.nodes[stmts[0]]["k"] == "IfStmt" and key_cmp(f.nodes[stmts[0]]["cond"]):
                        confirm = key_cmp(f.nodes[stmts[0]]["cond"])
            if n["op"] == "!=" and not confirm:
                # `Hash != h` alone is a sound pre-filter; it decides a match only through the else branch of its if
                ifs = [x for x in astq.nodes_of(f, "IfStmt") if f.nodes[x]["cond"] == top or top in set(f.walk(f.nodes[x]["cond"]))]
                if not ifs or f.nodes[ifs[-1]]["else"] < 0:
                    continue
                confirm = key_cmp(f.nodes[ifs[-1]]["else"])
            r.ob(f.q, f.text(i)[:60], bool(confirm), "condition `%s` %s" % (f.text(top)[:90], "also compares the key" if confirm else
                 "accepts any key with the same hash: two different keys that collide are treated as one"), f.loc(i))
    return r


def assigns_in(f, root):
    """[(node id, lhs text, rhs text)] of plain assignments under root, in source order"""
    out = []
    for i in f.walk(root):
        n = f.nodes[i]
        if n["k"] == "BinaryOperator" and n["op"] == "=":
            out.append((i, f.text(n["ch"][0]), f.text(n["ch"][1])))
    return out


def f_text(f, ifn):
    return f.text(f.nodes[ifn]["cond"]).replace(" ", "").replace("(", "").replace(")", "")



def _local_inits(f):
    out = {}
    for x in astq.nodes_of(f, "DeclStmt"):
        for dd in f.nodes[x]["decls"]:
            if "d" in dd and dd.get("init", -1) >= 0:
                out[dd["d"]] = dd["init"]
    return out


def _resolve(f, x, inits, depth=0):
    x = f.strip_casts(x)
    n = f.nodes[x]
    if n["k"] == "DeclRefExpr" and n.get("d") in inits and depth < 4:
        return _resolve(f, inits[n["d"]], inits, depth + 1)
    return x


def rule_scan_extent(ctx, m):
    """SB-scan: the storage of a table holds Size() slots, live or removed (ActualSize() counts the live ones only).  Every loop
    of the hash-table family that walks a table's items with a pointer runs to  base + Size()  of the SAME table the base pointer
    came from; a bound taken from another quantity (the live count, the other table) skips trailing items or runs past the end."""
    r = Rule("SB-scan", "a pointer scan over a table's items ends at base + Size() of that same table", floor=7)
    for f in m.functions:
        if f.inst or not f.cfg or f.cls not in ("Qentem::HashTable", "Qentem::HArray", "Qentem::HList"):
            continue
        inits = _local_inits(f)
        for w in astq.nodes_of(f, ("WhileStmt", "DoStmt", "ForStmt")):
            c = f.nodes[w].get("cond", -1)
            if c is None or c < 0:
                continue
            for y in f.walk(c):
                n = f.nodes[y]
                if n["k"] != "BinaryOperator" or n["op"] not in ("<", "!="):
                    continue
                l_, r_ = n["ch"]
                if f.nodes[f.strip_casts(l_)].get("tk") != "ptr" or f.nodes[f.strip_casts(r_)].get("tk") != "ptr":
                    continue
                base = _resolve(f, l_, inits)
                end = _resolve(f, r_, inits)
                bn, en = f.nodes[base], f.nodes[end]
                if bn["k"] not in ("CallExpr", "CXXMemberCallExpr") or (f.call_simple_name(base) or "") not in ("First", "Storage"):
                    continue
                ctx.note_fn(f)
                recv = f.call_receiver(base)
                recv_t = f.text(recv) if recv is not None else "this"
                ok, why = False, "the bound `%s` is not base + Size()" % f.text(end)[:60]
                if en["k"] == "CallExpr" or en["k"] == "CXXMemberCallExpr":
                    if (f.call_simple_name(end) or "") == "End":
                        r2 = f.call_receiver(end)
                        same = (f.text(r2) if r2 is not None else "this") == recv_t
                        ok, why = same, "bound End() of %s" % ("the same table" if same else "ANOTHER table")
                elif en["k"] == "BinaryOperator" and en["op"] == "+":
                    a, b = en["ch"]
                    if f.nodes[f.strip_casts(a)].get("tk") != "ptr":
                        a, b = b, a
                    pa = _resolve(f, a, inits)
                    cnt = _resolve(f, b, inits)
                    cn = f.nodes[cnt]
                    pa_ok = f.nodes[pa]["k"] in ("CallExpr", "CXXMemberCallExpr") and (f.call_simple_name(pa) or "") in ("First", "Storage") and \
                        (f.text(f.call_receiver(pa)) if f.call_receiver(pa) is not None else "this") == recv_t
                    if cn["k"] in ("CallExpr", "CXXMemberCallExpr") and (f.call_simple_name(cnt) or "") == "Size":
                        r2 = f.call_receiver(cnt)
                        same = (f.text(r2) if r2 is not None else "this") == recv_t
                        ok = same and pa_ok
                        why = "runs to base + Size() of %s" % ("the same table (%s)" % recv_t if ok else "a DIFFERENT table or base")
                    else:
                        nm = f.call_simple_name(cnt) if cn["k"] in ("CallExpr", "CXXMemberCallExpr") else None
                        why = "runs to base + %s: %s" % (f.text(cnt)[:40], "the number of live items, not of slots -- trailing items after a removed one are never visited" if nm == "ActualSize" else "not the slot count Size() of the table the base pointer came from")
                r.ob(f.sig if len(m.fns(f.q, required=False)) > 1 else f.q, "%s %s %s" % (f.text(l_), n["op"], f.text(r_)), ok, why, f.loc(y))
    return r


def rule_bucket_wipe(ctx, m):
    """PR-wipe: the bucket array has Capacity() entries and any of them may head a chain; where it is cleared
    (Memory::SetToZero on the pointer obtained from getHashTable()) the extent is sizeof(entry) * Capacity().  A smaller extent
    leaves heads that point at disposed or moved items."""
    r = Rule("PR-wipe", "the bucket array is cleared over its whole capacity", floor=2)
    for f in m.functions:
        if f.inst or not f.cfg or f.cls not in ("Qentem::HashTable", "Qentem::HArray", "Qentem::HList"):
            continue
        inits = _local_inits(f)
        for c in astq.calls(f, "SetToZero"):
            a = f.call_args(c)
            if len(a) != 2:
                continue
            p0 = _resolve(f, a[0], inits)
            if f.nodes[p0]["k"] not in ("CallExpr", "CXXMemberCallExpr") or (f.call_simple_name(p0) or "") != "getHashTable":
                continue
            ctx.note_fn(f)
            ext = _resolve(f, a[1], inits)
            calls_in = set()
            stack = [ext]
            seen = set()
            while stack:
                z = stack.pop()
                if z in seen:
                    continue
                seen.add(z)
                for y in f.walk(z):
                    yn = f.nodes[y]
                    if yn["k"] in ("CallExpr", "CXXMemberCallExpr") and f.call_simple_name(y):
                        calls_in.add(f.call_simple_name(y))
                    if yn["k"] == "DeclRefExpr" and yn.get("d") in inits:
                        stack.append(inits[yn["d"]])
            ok = "Capacity" in calls_in and not (calls_in & {"Size", "ActualSize"})
            r.ob(f.sig if len(m.fns(f.q, required=False)) > 1 else f.q, f.text(c)[:70], ok,
                 "extent derives from %s" % (", ".join(sorted(calls_in)) or "no table quantity") + ("" if ok else ": buckets beyond it keep chain heads into items that no longer exist"), f.loc(c))
    return r


def run(ctx):
    rules_ = list(_run_own(ctx) or [])
    from rules.common import shared
    have = set(r_.rid for r_ in rules_)
    rules_ += [r_ for r_ in shared(ctx, 'C16', ['O12-descendant']) if r_.rid not in have]
    rules_ += [r_ for r_ in shared(ctx, 'C15', ['ASYM']) if r_.rid not in have]
    return rules_
