import re
"""Rules shared by several properties."""
from qlib import astq, dataflow
from qlib.report import Rule


def rule_narrow_units(ctx, m, files, rid="NARROW-unit"):
    """A value derived from a code unit (Char_T) must not be cast to an 8/16-bit integer: for char16_t/char32_t/
    wchar_t the cast discards the high bits before any range test, so distinct characters collapse (the library's
    behaviour must be the same for every character width)."""
    r = Rule(rid, "no code-unit-derived value is narrowed below 32 bits (behaviour must not depend on the character width)", floor=0)
    scanned = 0
    for f in m.functions:
        if f.inst or not any(f.file.endswith(x) for x in files):
            continue
        scanned += 1
        for i in f.walk():
            n = f.nodes[i]
            if n["k"] in ("CXXFunctionalCastExpr", "CXXStaticCastExpr", "CStyleCastExpr", "CXXUnresolvedConstructExpr") and \
                    n.get("tw") in (8, 16) and n.get("tk") in ("uint", "sint"):
                sub = [f.nodes[x] for x in f.walk(i) if x != i]
                if any("Char_T" in (x.get("t") or "") for x in sub):
                    r.ob(f.q, f.text(i), False, "code unit narrowed to %d bits: wide characters whose low bits match are confused" % n["tw"], f.loc(i))
        # declarations of 8/16-bit locals initialised from a code unit without a cast
        for i in astq.nodes_of(f, "DeclStmt"):
            for d in f.nodes[i]["decls"]:
                if d.get("tk") in ("uint", "sint") and d.get("init", -1) >= 0 and ("SizeT8" in d["t"] or "SizeT16" in d["t"] or d["t"].replace("const ", "") in ("char", "unsigned char", "short", "unsigned short")):
                    sub = [f.nodes[x] for x in f.walk(d["init"])]
                    if any("Char_T" in (x.get("t") or "") for x in sub):
                        r.ob(f.q, f.text(i), False, "code unit stored in a %s: wide characters whose low bits match are confused" % d["t"], f.loc(i))
    r.notes.append("%d function definitions scanned in %s" % (scanned, ", ".join(files)))
    if scanned == 0:
        r.broke("no function scanned")
    # keep a positive instance count for evidence: one obligation per file scanned
    for x in files:
        r.ob("(scan)", x, True, "no narrowing cast of a code unit found" , x, nontrivial=False)
    return r


def rule_finder_all_words(ctx, m):
    r = Rule("PR-finder-words", "Finder::Next tries every word of the group: no early exit from the word loop except a match", floor=1)
    f = m.fn("Qentem::Finder::Next")
    dos = astq.nodes_of(f, "DoStmt")
    if len(dos) != 1:
        r.broke("expected one do-while over the words of a group, found %d" % len(dos))
        return r
    bad = []
    for b in astq.nodes_of(f, ("BreakStmt", "GotoStmt"), f.nodes[dos[0]]["body"]):
        enc = astq.enclosing(f, b, ("DoStmt", "WhileStmt", "ForStmt", "SwitchStmt"))
        if enc == dos[0]:
            bad.append(f.loc(b))
    r.ob(f.q, "word loop exits", not bad, "early exit at %s skips the remaining words of the group" % bad if bad else "only `return` on a match or the loop condition leave the loop", f.loc(dos[0]))
    cond = f.text(f.nodes[dos[0]]["cond"])
    r.ob(f.q, "word loop condition", "group_count" in cond and "++id" in cond, "condition `%s` walks all group_count entries" % cond, f.loc(dos[0]), nontrivial=False)
    return r


def rule_copy_kind(ctx, m):
    """X-copykind: copying a tag record keeps its kind.  The copy constructor of TagBit takes the discriminant from the source in
    its initialiser list; an arm that (re)sets it -- directly or through a Make<K>Tag() helper, whose kind is read from the
    helper's own body -- may only do so to the kind of every label of that arm (a shared Variable/RawVariable arm must not call
    MakeVariableTag: a copied {raw:} tag would be rendered escaped)."""
    r = Rule("X-copykind", "the copy of a tag record has the kind of its source in every arm", floor=6)
    makers = {}
    for f in m.functions:
        if f.inst or f.cls != "Qentem::Tags::TagBit" or not (f.name.startswith("Make") and f.name.endswith("Tag")):
            continue
        for i in astq.nodes_of(f, "BinaryOperator"):
            n = f.nodes[i]
            if n["op"] == "=" and f.text(n["ch"][0]).replace("this.", "") == "type_":
                makers[f.name] = f.text(n["ch"][1]).split("::")[-1]
    cc = [f for f in m.functions if not f.inst and f.cls == "Qentem::Tags::TagBit" and f.kind == "copyctor"]
    if len(cc) != 1 or len(makers) < 7:
        r.broke("TagBit copy constructor / Make*Tag helpers not found (%d, %d)" % (len(cc), len(makers)))
        return r
    f = cc[0]
    ctx.note_fn(f)
    inits = {i_["field"]: f.text(i_["n"]) for i_ in (f.d.get("inits") or []) if i_.get("n", -1) >= 0}
    from_src = "type_" in inits and inits["type_"].replace(" ", "").strip("{}()") .endswith(".type_")
    sws = astq.nodes_of(f, "SwitchStmt")
    if len(sws) != 1:
        r.broke("TagBit copy constructor: expected one switch over the source kind")
        return r
    for labels, stmts in astq.switch_arms(f, sws[0]):
        names = [(l[0] or "").split("::")[-1] for l in labels]
        if "default" in names:
            continue
        sets = []
        for s_ in stmts:
            for c in astq.calls(f, None, s_):
                nm = f.call_simple_name(c)
                if nm in makers:
                    sets.append(makers[nm])
            for i in astq.nodes_of(f, "BinaryOperator", s_):
                n = f.nodes[i]
                if n["op"] == "=" and f.text(n["ch"][0]).replace("this.", "") == "type_":
                    t = f.text(n["ch"][1])
                    sets.append("src" if t.replace(" ", "").endswith(".type_") else t.split("::")[-1])
        if not sets:
            ok = from_src
            why = "kind taken from the source in the initialiser list (%s)" % inits.get("type_", "MISSING")
        else:
            ok = all(x == "src" or names == [x] for x in sets)
            why = "arm sets the kind to %s for the labels %s" % (sorted(set(sets)), names)
        r.ob(f.q, "case " + ",".join(names), ok, why, f.loc(stmts[0]) if stmts else "Include/Tags.hpp:%d" % f.line)
    return r


def rule_case_pairs(ctx, m, files=("Digit.hpp",), pairs=(("E", "UE"),)):
    """TB-casepair: RFC 8259 writes the exponent marker as e / E.  Wherever the number scanner tests one spelling of a
    case-insensitive marker (a case label of a switch arm, or an equality inside a condition) it tests the other one in the
    same arm / the same condition."""
    r = Rule("TB-casepair", "a test for one spelling of a case-insensitive marker (e/E) also tests the other", floor=3)

    def marker(fn, nid):
        n = fn.nodes[fn.strip_casts(nid)]
        nm = n.get("n") or ""
        t = fn.text(fn.strip_casts(nid))
        if "DigitChar" in t or "DigitChar" in (n.get("q") or ""):
            return (nm or t).split("::")[-1]
        return None
    for f in m.functions:
        if f.inst or not any(f.file.endswith("/" + x) for x in files):
            continue
        tests = []
        for sw in astq.nodes_of(f, "SwitchStmt"):
            for labels, stmts in astq.switch_arms(f, sw):
                names = set((l[0] or "").split("::")[-1] for l in labels)
                tests.append((names, stmts[0] if stmts else sw, "switch arm"))
        for i in f.walk():
            n = f.nodes[i]
            if n["k"] == "BinaryOperator" and n["op"] in ("==", "!="):
                mk = marker(f, n["ch"][1]) or marker(f, n["ch"][0])
                if mk is None:
                    continue
                # the whole condition this comparison belongs to
                top = i
                par = f.parents()
                while par.get(top) is not None and f.nodes[par[top]]["k"] in ("ParenExpr", "BinaryOperator") and \
                        (f.nodes[par[top]]["k"] == "ParenExpr" or f.nodes[par[top]]["op"] in ("||", "&&")):
                    top = par[top]
                names = set()
                for x in f.walk(top):
                    nx = f.nodes[x]
                    if nx["k"] == "BinaryOperator" and nx["op"] in ("==", "!="):
                        mm = marker(f, nx["ch"][1]) or marker(f, nx["ch"][0])
                        if mm:
                            names.add(mm)
                if (names, top) not in [(t[0], t[1]) for t in tests]:
                    tests.append((names, top, "condition"))
        for (names, where, what) in tests:
            for (lo, up) in pairs:
                if (lo in names) != (up in names):
                    ctx.note_fn(f)
                    r.ob(f.q, "%s testing %s" % (what, sorted(names & {lo, up})), False, "%s is tested without %s: the other spelling of the marker is treated as a foreign character" % (
                        lo if lo in names else up, up if lo in names else lo), f.loc(where))
                elif lo in names:
                    ctx.note_fn(f)
                    r.ob(f.q, "%s testing %s/%s" % (what, lo, up), True, "both spellings are tested together", f.loc(where))
    return r


def rule_stream_past(ctx, m, files=("Digit.hpp",)):
    """ZB-past: raw accesses to a stream's buffer (stream.Storage()[i], *p with p walking the buffer) in the number formatter.
    The formatter's index arithmetic is beyond what the difference-bound domain can *prove* in range, so this rule reports only
    the converse: an access for which some path establishes index >= stream.Length() (one step of path sensitivity at the join
    in front of the access).  Such an access lies outside the content of the stream -- and outside its allocation when the stream
    is full.  First()/Last()/End() are read as Storage(), Storage() + Length() - 1, Storage() + Length()."""
    from qlib.zone import ContractTable, Contract
    from qlib import zonecheck
    from tables.contracts import CONTRACTS
    r = Rule("ZB-past", "no raw access to the stream's buffer is provably at or beyond Length(), or in front of the number being formatted, on some path", floor=10)
    for f in m.functions:
        if f.inst or not f.cfg or not any(f.file.endswith("/" + x) for x in files):
            continue
        ps = [p for p in f.params if p.get("ref") and ("Stream" in p["t"]) and not p.get("pconst")]
        if not ps:
            continue
        tab = dict(CONTRACTS)
        bufs = {}
        for p in ps:
            bufs["x:%s.Storage()" % p["n"]] = "%s.Length()" % p["n"]
        lows = {}
        if any(p_["n"] == "started_at" for p_ in f.params):
            for p_ in ps:
                lows["x:%s.Storage()" % p_["n"]] = "started_at"
        tab[f.q + "/%d" % len(f.params)] = Contract(buffers=bufs, accessor_model="Length", lower_bounds=lows)
        try:
            obs, stats, _ = zonecheck.analyse(m, f, ContractTable(tab))
        except Exception as e:   # noqa
            r.broke("%s: %s" % (f.q, str(e)[:200]))
            continue
        n_acc = 0
        for o in obs:
            if o.rule != "ZB-read":
                continue
            n_acc += 1
            ctx.note_fn(f)
            past = bool(o.detail.get("past"))
            below = bool(o.detail.get("below"))
            r.ob(f.sig, o.construct, not (past or below), ("index is proven >= Length() on a path: " + o.why) if past else
                 (("the access lies in front of the number being formatted (what the stream held before the call): " + o.why) if below else
                  "no path proves the index outside [started_at, Length()) (in-range not decided)"), o.loc, nontrivial=past or below)
    return r


def rule_out_params(ctx, m, files):
    """OUT-def: an arm of a kind dispatch (if (type == K) / isK() / switch (Type())) that assigns a reference-to-pointer
    out-parameter on some path assigns it on every path through that arm.  A caller that keeps the slot across calls -- the loop
    item of the renderer -- would otherwise see the pointer stored by the previous call (possibly into a destroyed working copy).
    Structural definite assignment: a statement list assigns if one of its statements does before any return; an if assigns if
    both branches do; handing the reference to a callee that assigns it counts."""
    r = Rule("OUT-def", "a kind arm that assigns a pointer out-parameter assigns it on every path through the arm", floor=3)
    for f in m.functions:
        if f.inst or not f.cfg or not any(f.file.endswith("/" + x) for x in files):
            continue
        outs = [p for p in f.params if p.get("ref") and not p.get("rref") and p["t"].replace(" ", "").endswith("*&")]
        if not outs:
            continue

        def mentions_assign(root, p):
            for x in f.walk(root):
                n = f.nodes[x]
                if n["k"] == "BinaryOperator" and n["op"] == "=" and f.nodes[f.strip(n["ch"][0])].get("d") == p["d"]:
                    return True
                if n["k"] in ("CallExpr", "CXXMemberCallExpr") and any(f.nodes[f.strip(a)].get("d") == p["d"] and f.nodes[f.strip(a)]["k"] == "DeclRefExpr" for a in f.call_args(x)):
                    return True
            return False

        def da(st, p):
            n = f.nodes[st]
            k = n["k"]
            if k == "CompoundStmt":
                for c in n.get("ch", []):
                    if f.nodes[c]["k"] == "ReturnStmt":
                        return mentions_assign(c, p)
                    if da(c, p):
                        return True
                return False
            if k == "IfStmt":
                return n["else"] >= 0 and da(n["then"], p) and da(n["else"], p)
            if k in ("WhileStmt", "ForStmt", "DoStmt", "SwitchStmt"):
                return False if k != "DoStmt" else da(n["body"], p)
            return mentions_assign(st, p)

        def is_kind_test(cond):
            t = f.text(cond).replace(" ", "")
            return bool(re.search(r"(type|Type\(\))(==|!=)|\bis[A-Z]\w*\(\)|\bIs[A-Z]\w*\(\)", t))
        for p in outs:
            # the out-parameter whose null-ness tells the caller "nothing here": the function stores nullptr in it somewhere
            signals = False
            for x in astq.nodes_of(f, "BinaryOperator"):
                n = f.nodes[x]
                if n["op"] == "=" and f.nodes[f.strip(n["ch"][0])].get("d") == p["d"] and \
                        any(f.nodes[y]["k"] in ("CXXNullPtrLiteralExpr", "GNUNullExpr") for y in f.walk(n["ch"][1])):
                    signals = True
            forwarded = any(f.nodes[f.strip(a)].get("d") == p["d"] for c in astq.calls(f) for a in f.call_args(c))
            if not signals:
                continue
            arms = []
            for i_ in astq.nodes_of(f, "IfStmt"):
                n = f.nodes[i_]
                if is_kind_test(n["cond"]):
                    arms.append((n["then"], f.text(n["cond"])[:40]))
                    if n["else"] >= 0 and f.nodes[n["else"]]["k"] != "IfStmt":
                        arms.append((n["else"], "else of " + f.text(n["cond"])[:34]))
            for sw in astq.nodes_of(f, "SwitchStmt"):
                if "Type" in f.text(f.nodes[sw]["cond"]) or "type" in f.text(f.nodes[sw]["cond"]):
                    for labels, stmts in astq.switch_arms(f, sw):
                        for s_ in stmts:
                            arms.append((s_, "case " + ",".join((l[0] or "").split("::")[-1] for l in labels)))
            for (arm, label) in arms:
                if not mentions_assign(arm, p):
                    continue
                ctx.note_fn(f)
                ok = da(arm, p)
                r.ob(f.sig, "`%s` in the arm `%s`" % (p["n"], label), ok, "assigned on every path through the arm" if ok else
                     "some path through this arm leaves `%s` as the previous call left it (for the renderer's loop slot: a pointer into data "
                     "that may be gone)" % p["n"], f.loc(arm))
    return r


NULL_FIRST_EXCEPTIONS = {
    ("Qentem::TemplateCore::parse", "tag_bit"): "the parent level's storage received the opening tag just before it was pushed on the parent stack, so Last() exists",
    ("Qentem::Value::Compress", "src_val"): "reached only with size != 0, which was counted over the same array",
}


def rule_null_first(ctx, m, files):
    """NULL-first: First() / Last() / Storage() of another container is null when that container is empty (or never allocated).
    A local pointer initialised from such a call is dereferenced (->, *, [i]) only where a dominating branch excludes null:
    a test of the pointer against nullptr, a comparison of the pointer with another pointer (the end of the same range: for
    an empty container both are null and the comparison fails), or a non-emptiness / size test of that container.  Sites that
    rest on a data-structure invariant are listed with their reason (NULL_FIRST_EXCEPTIONS)."""
    from qlib import dataflow
    r = Rule("NULL-first", "a pointer taken from First()/Last()/Storage() of another container is dereferenced only where null is excluded", floor=40)
    SRC = {"First", "Last", "Storage"}
    for f in m.functions:
        if f.inst or not f.cfg or not any(f.file.endswith("/" + x) for x in files):
            continue
        srcs = {}
        for st_ in astq.nodes_of(f, "DeclStmt"):
            for d in f.nodes[st_]["decls"]:
                if d.get("tk") == "ptr" and d.get("init", -1) >= 0 and "d" in d:
                    i0 = f.strip_casts(d["init"])
                    n0 = f.nodes[i0]
                    if n0["k"] in ("CallExpr", "CXXMemberCallExpr") and f.call_simple_name(i0) in SRC and not f.call_args(i0) and f.call_receiver(i0) is not None:
                        srcs[d["d"]] = (d["n"], f.text(f.call_receiver(i0)))
        if not srcs:
            continue
        par = f.parents()
        conds = [b.get("cond") for b in f.cfg["blocks"] if b.get("cond") is not None]
        for i in f.walk():
            n = f.nodes[i]
            if n["k"] != "DeclRefExpr" or n.get("d") not in srcs:
                continue
            p = par.get(i)
            while p is not None and f.nodes[p]["k"] in ("ImplicitCastExpr", "ParenExpr"):
                p = par.get(p)
            pn = f.nodes[p] if p is not None else {}
            deref = (pn.get("k") in ("MemberExpr", "CXXDependentScopeMemberExpr") and pn.get("arrow")) or \
                (pn.get("k") == "UnaryOperator" and pn.get("op") == "*") or \
                (pn.get("k") == "ArraySubscriptExpr" and f.strip(pn["ch"][0]) == f.strip(i))
            if not deref:
                continue
            ctx.note_fn(f)
            name, cont = srcs[n["d"]]
            how = None
            for c in conds:
                t = f.text(c).replace(" ", "")
                if "%s!=nullptr" % name in t and dataflow.dominated_by_branch(f, i, c, True):
                    how = "dominated by `%s != nullptr`" % name
                elif "%s==nullptr" % name in t and dataflow.dominated_by_branch(f, i, c, False):
                    how = "dominated by the false edge of `%s == nullptr`" % name
                elif re.search(r"(?<![\w.>])%s(<|!=|<=)" % re.escape(name), t) and "nullptr" not in t and dataflow.dominated_by_branch(f, i, c, True):
                    how = "dominated by the range test `%s`" % f.text(c)[:40]
                elif (cont + ".IsNotEmpty()" in t or re.search(re.escape(cont) + r"\.(Size|Length)\(\)(!=0|>)", t)) and dataflow.dominated_by_branch(f, i, c, True):
                    how = "dominated by a non-emptiness test of `%s`" % cont
                if how:
                    break
            exc = NULL_FIRST_EXCEPTIONS.get((f.q, name))
            if how is None and exc:
                r.ob(f.q, "%s at %s" % (f.text(par.get(p, p))[:40], f.loc(i)), True, "rests on an invariant: " + exc, f.loc(i), nontrivial=False)
                continue
            r.ob(f.q, f.text(par.get(p, p))[:50], how is not None, how or ("`%s` comes from %s.%s and is null when that container is empty; nothing on the way here excludes it" % (
                name, cont, "First()/Last()/Storage()")), f.loc(i))
    return r


def rule_equal_lengths(ctx, m):
    """SB-eqlen: StringUtils::IsEqual(a, b, n) compares n units; the equality members of String / StringView / StringStream
    may reach it only where the two lengths are known to be EQUAL (with >= it answers "starts with", and every key comparison
    built on it -- hash-table lookups, GroupBy's key test -- accepts keys that merely share a prefix), and they may answer "equal"
    only there.  Must-analysis on the CFG: the fact "lengths equal" is established on the true edge of a length == test and on the
    false edge of a length != test (short-circuit operators are edges of the CFG, so `a == b && IsEqual(..)` and an early
    `if (a != b) return false;` are the same thing); it must hold at every call of IsEqual and at every return whose value is not
    false once the length tests are taken as false."""
    r = Rule("SB-eqlen", "the equality members compare contents, and answer 'equal', only where the two lengths were tested equal", floor=8)
    for f in m.functions:
        if f.inst or f.cls not in ("Qentem::String", "Qentem::StringView", "Qentem::StringStream") or not f.cfg:
            continue
        base = f.name.split("<")[0]
        calls = [c for c in astq.calls(f, "IsEqual") if len(f.call_args(c)) == 3 and f.call_receiver(c) is None]
        is_eq_member = base in ("operator==", "IsEqual") and len(f.params) >= 1
        if not calls:
            continue

        def len_atom(x):
            n = f.nodes[f.strip(x)]
            return n["k"] == "BinaryOperator" and n["op"] in ("==", "!=") and "Length()" in f.text(x) and not any(y in calls for y in f.walk(x))

        def ev3(x):
            x = f.strip(x)
            n = f.nodes[x]
            if n["k"] == "UnaryOperator" and n["op"] == "!":
                v = ev3(n["ch"][0])
                return None if v is None else (not v)
            if n["k"] == "BinaryOperator" and n["op"] in ("&&", "||"):
                a_, b_ = ev3(n["ch"][0]), ev3(n["ch"][1])
                if n["op"] == "&&":
                    return False if (a_ is False or b_ is False) else (True if (a_ and b_) else None)
                return True if (a_ or b_) else (False if (a_ is False and b_ is False) else None)
            if len_atom(x):
                return n["op"] == "!="
            v = f.const_value(x)
            if v is not None:
                return bool(v)
            return None
        ctx.note_fn(f)
        blocks = f.blocks()
        fact = {f.cfg["entry"]: False}
        work = [f.cfg["entry"]]
        it = 0
        at_node = {}
        while work and it < 4000:
            it += 1
            bid = work.pop()
            st = fact[bid]
            for e in blocks[bid]["el"]:
                x = e.get("n")
                if isinstance(x, int) and not e.get("k"):
                    at_node[x] = st if x not in at_node else (at_node[x] and st)
            for (s_, kind, payload) in dataflow.successors(f, blocks[bid]):
                out = st
                if kind in ("true", "false") and payload is not None and len_atom(payload):
                    op = f.nodes[f.strip(payload)]["op"]
                    if (op == "==") == (kind == "true"):
                        out = True
                new_ = out if s_ not in fact else (fact[s_] and out)
                if s_ not in fact or new_ != fact[s_]:
                    fact[s_] = new_
                    work.append(s_)
        for c in calls:
            top = c
            par = f.parents()
            while par.get(top) is not None and (f.nodes[par[top]]["k"] in ("ParenExpr", "ImplicitCastExpr") or (f.nodes[par[top]]["k"] == "BinaryOperator" and f.nodes[par[top]]["op"] in ("&&", "||"))):
                top = par[top]
            ok = bool(at_node.get(c))
            r.ob(f.sig, f.text(top)[:80], ok, "every path to the comparison of contents passed an equality test of the two lengths" if ok else
                 "the contents are compared on a path on which the two lengths were not tested equal (a shared prefix compares equal)", f.loc(c))
        if not is_eq_member or base != "operator==":
            continue
        for ret in astq.nodes_of(f, "ReturnStmt"):
            val = f.nodes[ret].get("val", -1)
            if val is None or val < 0:
                continue
            v = ev3(val)
            ok = (v is False) or bool(at_node.get(ret))
            if v is False and f.const_value(val) is not None:
                continue      # a literal `return false`
            r.ob(f.sig, "return " + f.text(val)[:70], ok, "for operands of different length this return answers false or is not reached" if ok else
                 "this return can answer 'equal' for operands of different length (decided by other operands only)", f.loc(ret))
    return r


def rule_inline_if_ranges(ctx, m):
    """PR-subrange: the renderer prints the sub-tags of an inline-if as part of its true or false value and computes slice lengths
    as differences of tag offsets; a sub-tag outside both values (another attribute, text after the values) or offsets that do not
    fit the record's 16-bit fields make such a difference wrap (a heap overflow in StringStream::Write).  In the code that completes
    an inline-if record, (a) a value derived from each sub-tag's offsets is compared with bounds derived from TrueOffset/TrueLength
    and from FalseOffset/FalseLength, (b) the span of the tag is compared with the 16-bit limit, and (c) the record is dropped
    (storage->Drop) on a path of that code.  Decided by taint flow inside the arm, not by the text of the comparisons."""
    r = Rule("PR-subrange", "an inline-if record is kept only if its span fits 16 bits and every sub-tag lies inside the true or the false value", floor=3)
    pf = m.fn("Qentem::TemplateCore::parse")
    ctx.note_fn(pf)
    arm = None
    for sw in astq.nodes_of(pf, "SwitchStmt"):
        for labels, stmts in astq.switch_arms(pf, sw):
            if [(l[0] or "").split("::")[-1] for l in labels] == ["InLineIf"] and "GetType" in pf.text(pf.nodes[sw]["cond"]):
                if any(astq.calls(pf, "GetInLineIfTag", s_) for s_ in stmts):
                    arm = stmts
    if arm is None:
        r.broke("parse: the code that completes an inline-if record (case TagType::InLineIf under the tag-end match) was not found")
        return r
    nodes = [x for s_ in arm for x in pf.walk(s_)]
    decls = {}
    for x in nodes:
        if pf.nodes[x]["k"] == "DeclStmt":
            for d in pf.nodes[x]["decls"]:
                if "d" in d and d.get("init", -1) >= 0:
                    decls[d["d"]] = d
    assigns = [(pf.nodes[x]["ch"][0], pf.nodes[x]["ch"][1]) for x in nodes if pf.nodes[x]["k"] == "BinaryOperator" and pf.nodes[x]["op"] == "="]

    def derived(seed_fields, via_subtag=False):
        """decl ids of locals whose value derives from member accesses named in seed_fields"""
        def mentions(nid, tainted):
            for y in pf.walk(nid):
                n = pf.nodes[y]
                if n["k"] in ("MemberExpr", "CXXDependentScopeMemberExpr") and n.get("n") in seed_fields:
                    base_t = pf.text(n["ch"][0]) if n.get("ch") else ""
                    is_sub = "GetVariableTag()" in base_t or "GetMathTag()" in base_t or any(pf.nodes[z].get("d") in sub_refs for z in pf.walk(y))
                    if via_subtag == is_sub:
                        return True
                if n["k"] == "DeclRefExpr" and n.get("d") in tainted:
                    return True
            return False
        tainted = set()
        changed = True
        while changed:
            changed = False
            for did, d in decls.items():
                if did not in tainted and mentions(d["init"], tainted):
                    tainted.add(did)
                    changed = True
            for (lhs, rhs) in assigns:
                ln = pf.nodes[pf.strip(lhs)]
                if ln["k"] == "DeclRefExpr" and ln.get("d") not in tainted and mentions(rhs, tainted):
                    tainted.add(ln["d"])
                    changed = True
        return tainted, mentions
    # references to sub-tag records: locals initialised from Get*Tag() of a pointer walking SubTags
    sub_refs = set(did for did, d in decls.items() if any(pf.call_simple_name(c) in ("GetVariableTag", "GetMathTag") for c in astq.calls(pf, None, d["init"])))
    t_sub, men_sub = derived({"Offset", "EndOffset", "Length"}, via_subtag=True)
    t_true, men_true = derived({"TrueOffset", "TrueLength"})
    t_false, men_false = derived({"FalseOffset", "FalseLength"})
    cmps = [x for x in nodes if pf.nodes[x]["k"] == "BinaryOperator" and pf.nodes[x]["op"] in ("<", "<=", ">", ">=")]

    def side_in(nid, tainted, men):
        return men(nid, tainted)
    pairs_true = [x for x in cmps if any(side_in(a, t_sub, men_sub) for a in pf.nodes[x]["ch"]) and any(side_in(a, t_true, men_true) for a in pf.nodes[x]["ch"])]
    pairs_false = [x for x in cmps if any(side_in(a, t_sub, men_sub) for a in pf.nodes[x]["ch"]) and any(side_in(a, t_false, men_false) for a in pf.nodes[x]["ch"])]
    drops = [c for c in nodes if pf.nodes[c]["k"] in ("CallExpr", "CXXMemberCallExpr") and pf.call_simple_name(c) == "Drop"]
    where = pf.loc(arm[0])
    r.ob(pf.q, "sub-tags against the true value", len(pairs_true) >= 2 and bool(drops), "%d comparison(s) relate a sub-tag's offsets to bounds derived from TrueOffset/TrueLength%s" % (
        len(pairs_true), "" if len(pairs_true) >= 2 else ": a sub-tag outside the value is rendered with a wrapped slice length"), where)
    r.ob(pf.q, "sub-tags against the false value", len(pairs_false) >= 2 and bool(drops), "%d comparison(s) relate a sub-tag's offsets to bounds derived from FalseOffset/FalseLength" % len(pairs_false), where)
    wide = []
    for x in cmps:
        for a, b in (pf.nodes[x]["ch"], pf.nodes[x]["ch"][::-1]):
            bv = m.eval_nodes(pf.nodes, pf.strip_casts(b))
            if bv in (0xFFFF, 0x10000, 65535, 65536) and "Offset" in pf.text(a):
                wide.append(x)
    r.ob(pf.q, "span fits the 16-bit fields", bool(wide) and bool(drops), "%s" % ("the span of the tag is compared with the 16-bit limit" if wide else
         "nothing compares the span of the tag with 65535 before it is stored in SizeT16 fields: the offsets of a longer tag are truncated"), where)
    return r


def rule_dispose_target(ctx, m, files=None, rid="O14-target"):
    """O14-target: Memory::Dispose(&x) runs x's destructor in place.  The language runs the destructor of a parameter, of a local
    object and of an ordinary data member a second time when its scope / owner ends, so the only objects that may be disposed in
    place are (a) members of a union of *this (their lifetime is managed by hand), and (b) objects reached through a pointer into
    raw storage (container elements).  The root of the address-of expression decides: a parameter, a reference parameter, a local
    object or a non-union member is a double destruction (double free of the block it owns)."""
    r = Rule(rid, "Memory::Dispose(&x): x is a union member of this object or an element reached through a storage pointer, never a parameter, local or ordinary member", floor=4)
    for f in m.functions:
        if f.inst or not f.cfg or (files and not any(f.file.endswith("/" + x) for x in files)):
            continue
        for c in astq.calls(f, "Dispose"):
            a = f.call_args(c)
            if len(a) != 1:
                continue
            x = f.strip(a[0])
            an = f.nodes[x]
            if not (an["k"] == "UnaryOperator" and an["op"] == "&"):
                continue
            ctx.note_fn(f)
            cur = f.strip(an["ch"][0])
            via_union = False
            via_ptr = False
            verdict = None
            hops = 0
            while hops < 12:
                hops += 1
                n = f.nodes[cur]
                if n["k"] in ("MemberExpr", "CXXDependentScopeMemberExpr"):
                    if n.get("anon") or "(anon" in (n.get("rec") or ""):
                        via_union = True
                    if n.get("arrow"):
                        base = f.strip(n["ch"][0]) if n.get("ch") else -1
                        if base >= 0 and f.nodes[base]["k"] != "CXXThisExpr":
                            via_ptr = True
                            break
                    if not n.get("ch"):
                        break
                    cur = f.strip(n["ch"][0])
                    continue
                if n["k"] == "CXXThisExpr":
                    verdict = "this"
                    break
                if n["k"] == "UnaryOperator" and n["op"] == "*":
                    via_ptr = True
                    break
                if n["k"] == "ArraySubscriptExpr":
                    via_ptr = True
                    break
                if n["k"] == "DeclRefExpr":
                    verdict = n.get("dk")
                    if n.get("tk") == "ptr":
                        via_ptr = True
                    break
                break
            what = f.text(an["ch"][0])
            if via_ptr:
                ok, why = True, "`%s` is reached through a pointer into storage: its lifetime is managed by the container" % what
            elif verdict == "this" and via_union:
                ok, why = True, "`%s` is a union member of this object: no destructor runs for it implicitly" % what
            elif verdict == "this":
                ok, why = False, "`%s` is an ordinary member: the destructor of the enclosing object destroys it a second time" % what
            elif verdict in ("param", "var"):
                ok, why = False, "`%s` is a %s of %s: its destructor runs again when %s (the block it owns is released twice)" % (
                    what, "parameter" if verdict == "param" else "local object", f.name, "the caller's object dies" if verdict == "param" else "the scope ends")
            else:
                r.broke("%s: the object disposed by %s could not be classified" % (f.q, f.text(c)[:60]))
                continue
            r.ob(f.sig if len(m.fns(f.q, required=False)) > 1 else f.q, "Dispose(&%s)" % what, ok, why, f.loc(c))
    return r


def rule_overload_pairs(ctx, m, cls="Qentem::Value", rid="SB-overload", floor=2):
    """SB-overload: the copying (const T &) and the moving (T &&) overload of one operation are two implementations of one
    document operation and must make the same kind decisions: the kind predicates they apply to this value, to the source and to
    the source's elements agree (a pair in which one overload forwards to the other is one implementation and is skipped).  Sibling
    cross-check: the copying Merge that stops filtering Undefined elements disagrees with the moving one."""
    import re
    r = Rule(rid, "the const& and && overloads of one Value operation apply the same kind tests to this value, the source and its elements", floor=floor)
    groups = {}
    for f in m.functions:
        if f.inst or not f.cfg or f.cls != cls or len(f.params) != 1 or not f.params[0].get("ref"):
            continue
        base = re.sub(r"\s*&&?$", "", f.params[0]["t"]).replace("const ", "").strip()
        groups.setdefault((f.name, base), []).append(f)

    def kind_tests(f):
        p = f.params[0]
        src = {p["d"]}
        for x in astq.nodes_of(f, "DeclStmt"):
            for d in f.nodes[x]["decls"]:
                if "d" in d and d.get("init", -1) >= 0 and f.nodes[d["init"]].get("tk") != "ptr" and any(f.nodes[y].get("d") in src for y in f.walk(d["init"])):
                    src.add(d["d"])
        out = set()
        for c in astq.calls(f):
            nm = f.call_simple_name(c) or ""
            if not re.match(r"^[iI]s[A-Z]\w*$", nm) or nm in ("IsEqual", "IsNotEmpty", "IsEmpty"):
                continue
            rc = f.call_receiver(c)
            if rc is None or f.nodes[f.strip(rc)]["k"] == "CXXThisExpr":
                who = "this"
            elif f.nodes[f.strip(rc)].get("d") in src:
                who = "source"
            else:
                who = "element"
            pol = ""    # the sense of the test is a matter of layout (if (!x) {..} against if (x) continue;): only who is asked what counts
            out.add("%s.%s%s" % (who, pol, nm))
        return out
    for (name, base), fs in sorted(groups.items()):
        if len(fs) != 2 or sorted(bool(f.params[0].get("rref")) for f in fs) != [False, True]:
            continue
        forwards = any(any(f.call_simple_name(c) == g.name.split("<")[0] or (f.call_simple_name(c) or "") == name for c in astq.calls(f)) for f in fs for g in fs if g is not f)
        if name.startswith("operator") and not forwards:
            sym = name[len("operator"):]
            for f in fs:
                for x in f.walk():
                    n = f.nodes[x]
                    if n.get("op") == sym and n.get("ch") and f.text(n["ch"][0]).replace("(", "").replace(")", "").replace(" ", "") == "*this":
                        forwards = True
        if forwards:
            continue
        a, b = (kind_tests(f) for f in sorted(fs, key=lambda f: bool(f.params[0].get("rref"))))
        if not a and not b:
            continue
        for f in fs:
            ctx.note_fn(f)
        only_c, only_m = sorted(a - b), sorted(b - a)
        ok = not only_c and not only_m
        if not ok and any("ValueType::" in f.text(x) for f in fs for x in f.walk() if f.nodes[x]["k"] == "BinaryOperator" and f.nodes[x]["op"] in ("==", "!=")):
            r.broke("%s::%s(%s): one overload tests kinds by comparing Type() with enumerators; the predicate sets are not comparable" % (cls, name, base))
            continue
        why = "both apply {%s}" % ", ".join(sorted(a)) if ok else "the copying overload alone tests {%s}; the moving overload alone tests {%s}: the two treat the same document differently" % (
            ", ".join(only_c), ", ".join(only_m))
        r.ob("%s::%s(%s)" % (cls, name, base), "const& against &&", ok, why, "Include/%s:%d" % (fs[0].file.split("/Include/")[-1], fs[0].line))
    return r


def rule_exponent_marker(ctx, m, fq="Qentem::Digit::stringToNumber", consumer="parseExponent"):
    """PR-expmarker: where the number scanner looks at the unit under the cursor and finds an exponent marker (a switch arm
    labelled 'e' / 'E'), the numeral continues with an exponent: every path from that arm to a return that reports a number must
    pass through the exponent scanner (which moves the cursor past the exponent), whatever the mantissa was.  Abstract paths
    from each such arm over the domain (value set of the unit under the cursor, "cursor is inside the buffer", literal values of
    boolean locals, exponent scanner reached): conditions on those are evaluated, every other condition takes both edges; a write
    to the cursor forgets the unit.  A returning path on which the unit is still known to be the marker and the exponent scanner
    was not called leaves the exponent unread (the JSON parser then rejects 0e1, 0.0E-5)."""
    r = Rule("PR-expmarker", "an exponent marker seen under the cursor is consumed by the exponent scanner before a number is returned", floor=4)
    fs = m.fns(fq, required=False)
    fs = [f for f in fs if not f.inst and f.cfg]
    if not fs:
        r.broke("%s not found" % fq)
        return r
    f = fs[0]
    ctx.note_fn(f)
    blocks = f.blocks()
    cursor = [p["n"] for p in f.params if p.get("ref") and not p.get("pconst") and p.get("tk") in ("uint", "sint")]
    buf = [p["n"] for p in f.params if p.get("ptr")]
    if len(cursor) != 1 or len(buf) != 1:
        r.broke("%s: expected one by-reference cursor and one buffer parameter" % fq)
        return r
    cursor, buf = cursor[0], buf[0]
    bound = [p["n"] for p in f.params if not p.get("ref") and p.get("tk") in ("uint", "sint")]

    def is_unit_read(x):
        x = f.strip_casts(x)
        n = f.nodes[x]
        return n["k"] == "ArraySubscriptExpr" and f.nodes[f.strip_casts(n["ch"][0])].get("n") == buf and f.nodes[f.strip_casts(n["ch"][1])].get("n") == cursor

    def cval(x):
        x = f.strip_casts(x)
        v = f.const_value(x)
        if v is None:
            v = m.eval_nodes(f.nodes, x)
        return v
    MARKERS = {ord("e"), ord("E")}
    # instances: case arms labelled with a marker, in a switch over the unit under the cursor
    inst = []
    for b in f.cfg["blocks"]:
        if b.get("termk") != "SwitchStmt":
            continue
        succ = dataflow.successors(f, b)
        labs = [(s_, p_) for (s_, k_, p_) in succ if k_ == "case" and isinstance(p_, dict) and p_.get("case") in MARKERS]
        if not labs:
            continue
        cond = f.strip_casts(b["cond"]) if "cond" in b else None
        alias = None
        ok = False
        if cond is not None and is_unit_read(cond):
            ok = True
        elif cond is not None and f.nodes[cond]["k"] == "DeclRefExpr":
            # the switched local holds the unit under the cursor if its last assignment before the switch is content[cursor]
            var = f.nodes[cond]["d"]
            seen_blocks = set()
            cur_b = b
            found = None
            hops = 0
            while cur_b is not None and found is None and hops < 6:
                hops += 1
                for e in reversed(cur_b["el"]):
                    x = e.get("n")
                    if not isinstance(x, int) or e.get("k"):
                        continue
                    n = f.nodes[x]
                    if n["k"] == "BinaryOperator" and n["op"] == "=" and f.nodes[f.strip(n["ch"][0])].get("d") == var:
                        found = is_unit_read(n["ch"][1])
                        break
                    if n["k"] == "DeclStmt" and any(d.get("d") == var for d in n["decls"]):
                        d0 = [d for d in n["decls"] if d.get("d") == var][0]
                        found = d0.get("init", -1) >= 0 and is_unit_read(d0["init"])
                        break
                    if (n["k"] == "UnaryOperator" and n["op"] in ("++", "--") or n["k"] == "CompoundAssignOperator") and f.nodes[f.strip(n["ch"][0])].get("n") == cursor:
                        found = False
                        break
                if found is None:
                    ps = [p for p in f.cfg["blocks"] if any(s_ == cur_b["id"] for (s_, _, _) in dataflow.successors(f, p))]
                    cur_b = ps[0] if len(ps) == 1 and ps[0]["id"] not in seen_blocks else None
                    if cur_b is not None:
                        seen_blocks.add(cur_b["id"])
            ok = bool(found)
            alias = var if ok else None
        if not ok:
            continue
        for (s_, lab) in labs:
            inst.append((b, s_, lab, alias))
    if not inst:
        r.broke("%s: no switch over the unit under the cursor has an arm for the exponent markers" % fq)
        return r

    def evaluate(x, st):
        """True/False/None"""
        x = f.strip(x)
        n = f.nodes[x]
        S, inb, flags, alias = st["S"], st["inb"], st["flags"], st["alias"]
        if n["k"] == "UnaryOperator" and n["op"] == "!":
            v = evaluate(n["ch"][0], st)
            return None if v is None else (not v)
        if n["k"] == "DeclRefExpr" and n.get("tk") == "bool":
            return flags.get(n.get("d"))
        if n["k"] == "BinaryOperator" and n["op"] in ("&&", "||"):
            a, b_ = evaluate(n["ch"][0], st), evaluate(n["ch"][1], st)
            if n["op"] == "&&":
                return False if (a is False or b_ is False) else (True if (a and b_) else None)
            return True if (a or b_) else (False if (a is False and b_ is False) else None)
        if n["k"] == "BinaryOperator" and n["op"] in ("<", "<=", ">", ">=", "==", "!="):
            l_, r_ = n["ch"]
            ln, rn = f.nodes[f.strip_casts(l_)], f.nodes[f.strip_casts(r_)]
            if n["op"] == "<" and ln.get("n") == cursor and rn.get("n") in bound and inb:
                return True
            if n["op"] == ">" and rn.get("n") == cursor and ln.get("n") in bound and inb:
                return True
            for (a, b_, op) in ((l_, r_, n["op"]), (r_, l_, {"<": ">", "<=": ">=", ">": "<", ">=": "<=", "==": "==", "!=": "!="}[n["op"]])):
                an = f.nodes[f.strip_casts(a)]
                is_u = is_unit_read(a) or (alias is not None and an["k"] == "DeclRefExpr" and an.get("d") == alias)
                k = cval(b_)
                if is_u and S is not None and k is not None:
                    import operator
                    fn = {"<": operator.lt, "<=": operator.le, ">": operator.gt, ">=": operator.ge, "==": operator.eq, "!=": operator.ne}[op]
                    res = set(fn(v, k) for v in S)
                    return True if res == {True} else (False if res == {False} else None)
        return None

    def refine(x, truth, st):
        """narrow S on the edge of a unit comparison"""
        x = f.strip(x)
        n = f.nodes[x]
        if n["k"] == "BinaryOperator" and n["op"] in ("==", "!=") and st["S"] is not None:
            for (a, b_) in (n["ch"], n["ch"][::-1]):
                an = f.nodes[f.strip_casts(a)]
                is_u = is_unit_read(a) or (st["alias"] is not None and an["k"] == "DeclRefExpr" and an.get("d") == st["alias"])
                k = cval(b_)
                if is_u and k is not None:
                    eq = (n["op"] == "==") == truth
                    st["S"] = frozenset(v for v in st["S"] if (v == k) == eq)
        return st

    def transfer(b, st):
        """returns list of ('ret', node) events; mutates st"""
        events = []
        for e in b["el"]:
            x = e.get("n")
            if not isinstance(x, int) or e.get("k"):
                continue
            n = f.nodes[x]
            k = n["k"]
            if k in ("CallExpr", "CXXMemberCallExpr"):
                nm = f.call_simple_name(x)
                if nm == consumer:
                    st["passed"] = True
                if any(f.nodes[f.strip(a)].get("n") == cursor and f.nodes[f.strip(a)]["k"] == "DeclRefExpr" for a in f.call_args(x)):
                    st["S"], st["inb"] = None, False
            tgt = None
            if k == "UnaryOperator" and n["op"] in ("++", "--"):
                tgt = f.nodes[f.strip(n["ch"][0])]
            elif k in ("CompoundAssignOperator",) or (k == "BinaryOperator" and n["op"] == "="):
                tgt = f.nodes[f.strip(n["ch"][0])]
            if tgt is not None and tgt["k"] == "DeclRefExpr":
                if tgt.get("n") == cursor:
                    st["S"], st["inb"] = None, False
                elif tgt.get("d") == st["alias"]:
                    if k == "BinaryOperator" and is_unit_read(n["ch"][1]):
                        pass
                    else:
                        st["alias"] = None
                elif k == "BinaryOperator" and is_unit_read(n["ch"][1]) and st["alias"] is None and tgt.get("dk") == "var":
                    st["alias"] = tgt["d"]
                if tgt.get("tk") == "bool" and tgt.get("dk") == "var":
                    fl = dict(st["flags"])
                    if k == "BinaryOperator":
                        v = f.const_value(n["ch"][1])
                        v = bool(v) if v is not None else evaluate(n["ch"][1], st)
                        if v is None:
                            fl.pop(tgt["d"], None)
                        else:
                            fl[tgt["d"]] = v
                    else:
                        fl.pop(tgt["d"], None)
                    st["flags"] = fl
            if k == "DeclStmt":
                for d in n["decls"]:
                    if d.get("tk") == "bool" and "d" in d and d.get("init", -1) >= 0:
                        v = f.const_value(d["init"])
                        v = bool(v) if v is not None else evaluate(d["init"], st)
                        fl = dict(st["flags"])
                        if v is None:
                            fl.pop(d["d"], None)
                        else:
                            fl[d["d"]] = v
                        st["flags"] = fl
            if k == "ReturnStmt":
                events.append(x)
        return events

    for (swb, start, lab, alias) in inst:
        init = {"S": frozenset([lab["case"]]), "inb": True, "flags": {}, "alias": alias, "passed": False}
        work = [(start, init)]
        seen = set()
        bad = None
        nret = 0
        steps = 0
        while work and steps < 20000:
            steps += 1
            bid, st = work.pop()
            key = (bid, st["S"], st["inb"], tuple(sorted(st["flags"].items())), st["alias"], st["passed"])
            if key in seen:
                continue
            seen.add(key)
            b = blocks[bid]
            st = dict(st)
            rets = transfer(b, st)
            if rets:
                nret += 1
                x = rets[0]
                txt = f.text(x)
                if "NotANumber" not in txt and not st["passed"] and st["S"] is not None and st["S"] and st["S"] <= MARKERS:
                    bad = (x, st)
                    break
                continue
            succ = dataflow.successors(f, b)
            if not succ:
                continue
            if succ[0][1] in ("true", "false"):
                cond = succ[0][2]
                v = evaluate(cond, st)
                for (s_, kind, _) in succ:
                    truth = kind == "true"
                    if v is not None and v != truth:
                        continue
                    st2 = refine(cond, truth, dict(st))
                    if st2["S"] is not None and not st2["S"]:
                        continue
                    work.append((s_, st2))
            elif succ[0][1] in ("case", "default") or b.get("termk") == "SwitchStmt":
                cnd = f.strip_casts(b["cond"]) if "cond" in b else None
                on_unit = cnd is not None and (is_unit_read(cnd) or (st["alias"] is not None and f.nodes[cnd].get("d") == st["alias"]))
                labels = [p_["case"] for (_, k_, p_) in succ if k_ == "case" and isinstance(p_, dict) and "case" in p_]
                for (s_, kind, p_) in succ:
                    st2 = dict(st)
                    if on_unit and st["S"] is not None:
                        if kind == "case" and isinstance(p_, dict) and "case" in p_:
                            if p_["case"] not in st["S"]:
                                continue
                            st2["S"] = frozenset([p_["case"]])
                        else:
                            rest = frozenset(v for v in st["S"] if v not in labels)
                            if not rest:
                                continue
                            st2["S"] = rest
                    work.append((s_, st2))
            else:
                for (s_, kind, _) in succ:
                    work.append((s_, dict(st)))
        if steps >= 20000:
            r.broke("%s: the abstract paths from the arm at %s were not exhausted" % (fq, f.loc(lab["n"]) if "n" in lab else "?"))
            continue
        where = f.loc(lab["n"]) if "n" in lab else f.loc(swb["cond"])
        r.ob(f.q, "case %r under the cursor" % chr(lab["case"]), bad is None,
             "%d returning path(s): each reports not-a-number or has called %s" % (nret, consumer) if bad is None else
             "a path reaches `%s` at %s with %r still under the cursor and %s never called: the exponent is left unread (flags on that path: %s)" % (
                 f.text(bad[0])[:50], f.loc(bad[0])[0] if isinstance(f.loc(bad[0]), tuple) else f.loc(bad[0]), chr(lab["case"]), consumer,
                 ", ".join("%s=%s" % (next((d_["n"] for s2 in astq.nodes_of(f, "DeclStmt") for d_ in f.nodes[s2]["decls"] if d_.get("d") == k_), k_), v_) for k_, v_ in sorted(bad[1]["flags"].items())) or "-"), where)
    return r


def rule_sign_unit(ctx, m, files, rid="SIGN-unit", floor=10):
    """SIGN-unit: Char_T is `char` (signed on the supported targets) in the UTF-8 build and an unsigned type in the wide builds, so
    an ordering comparison of a raw code unit with a constant is answered differently for the units 0x80..0xFF in the two builds
    unless the surrounding condition masks the difference (a two-sided range test does).  For every such comparison the smallest
    enclosing boolean formula, under the if-conditions that dominate it, is evaluated three-valued twice for "a unit >= 0x80":
    once as a negative value, once as a large positive one; other atoms are unknown.  The two results must be equal and
    determined, or the dominating conditions must exclude such units in both readings."""
    r = Rule(rid, "a raw code unit is ordered against a constant only where the result is the same for signed and unsigned units", floor=floor)
    ORD = ("<", "<=", ">", ">=")

    for f in m.functions:
        if f.inst or not f.cfg or not any(f.file.endswith("/" + x) for x in files):
            continue
        par = f.parents()

        def raw_unit(x):
            """text key of a raw Char_T operand (no explicit conversion in between), else None"""
            x = f.strip(x)
            n = f.nodes[x]
            if n["k"] in ("CXXFunctionalCastExpr", "CStyleCastExpr", "CXXStaticCastExpr", "CXXUnresolvedConstructExpr", "CXXTemporaryObjectExpr", "InitListExpr", "CallExpr"):
                return None
            t = (n.get("t") or "").replace("const ", "").strip()
            if t != "Char_T":
                return None
            return f.text(x)

        def const_of(x):
            x = f.strip_casts(x)
            v = f.const_value(x)
            if v is None:
                v = m.eval_nodes(f.nodes, x)
            return v

        def atom(x):
            """(unit key, op, K) for an ordering/equality of a raw unit against a constant"""
            n = f.nodes[x]
            if n["k"] != "BinaryOperator" or n["op"] not in ORD + ("==", "!="):
                return None
            a, b = n["ch"]
            for (l_, r_, op) in ((a, b, n["op"]), (b, a, {"<": ">", "<=": ">=", ">": "<", ">=": "<=", "==": "==", "!=": "!="}[n["op"]])):
                u = raw_unit(l_)
                k = const_of(r_)
                if u is not None and k is not None and 0 <= k <= 127:
                    return (u, op, k)
            return None

        def ev(x, unit, signed):
            """True / False / a residual formula over the other atoms (nested tuples)"""
            x = f.strip(x)
            n = f.nodes[x]
            if n["k"] == "UnaryOperator" and n["op"] == "!":
                v = ev(n["ch"][0], unit, signed)
                return (not v) if isinstance(v, bool) else ("not", v)
            if n["k"] == "BinaryOperator" and n["op"] in ("&&", "||"):
                a, b = ev(n["ch"][0], unit, signed), ev(n["ch"][1], unit, signed)
                if n["op"] == "&&":
                    if a is False or b is False:
                        return False
                    if a is True:
                        return b
                    if b is True:
                        return a
                    return ("and", a, b)
                if a is True or b is True:
                    return True
                if a is False:
                    return b
                if b is False:
                    return a
                return ("or", a, b)
            at = atom(x)
            if at and at[0] == unit:
                _, op, k = at
                # a unit >= 0x80: below every constant when read as signed, above every constant when read as unsigned
                if op in ("<", "<="):
                    return bool(signed)
                if op in (">", ">="):
                    return not signed
                return op == "!="
            return ("atom", f.text(x))

        for x in f.walk():
            at = atom(x)
            if not at or at[1] not in ORD:
                continue
            unit = at[0]
            # smallest enclosing boolean formula
            top = x
            while True:
                p_ = par.get(top)
                if p_ is None:
                    break
                pn = f.nodes[p_]
                if pn["k"] in ("ParenExpr", "ImplicitCastExpr") or (pn["k"] == "UnaryOperator" and pn["op"] == "!") or (pn["k"] == "BinaryOperator" and pn["op"] in ("&&", "||")):
                    top = p_
                    continue
                break
            # dominating if-conditions (then-branches; else-branches negated); a condition says nothing about the unit once
            # the variables the unit is read from are written inside the guarded branch
            unit_vars = set()
            for side in f.nodes[x]["ch"]:
                if raw_unit(side) == unit:
                    unit_vars = set(f.nodes[y].get("d") for y in f.walk(side) if f.nodes[y]["k"] == "DeclRefExpr")

            loops_over_x = set()
            up_ = par.get(x)
            while up_ is not None:
                if f.nodes[up_]["k"] in ("WhileStmt", "DoStmt", "ForStmt"):
                    loops_over_x.add(up_)
                up_ = par.get(up_)

            def mutated_in(root, dvars):
                inside = set(f.walk(root))
                loop_nodes = set()
                for lp in loops_over_x:
                    if lp in inside:
                        loop_nodes |= set(f.walk(lp))
                for y in f.walk(root):
                    if not (y < x or y in loop_nodes):
                        continue
                    yn = f.nodes[y]
                    tgt = None
                    if yn["k"] == "UnaryOperator" and yn["op"] in ("++", "--"):
                        tgt = yn["ch"][0]
                    elif yn["k"] == "CompoundAssignOperator" or (yn["k"] == "BinaryOperator" and yn["op"] == "="):
                        tgt = yn["ch"][0]
                    if tgt is not None and f.nodes[f.strip(tgt)].get("d") in dvars:
                        return True
                    if yn["k"] in ("CallExpr", "CXXMemberCallExpr") and any(f.nodes[f.strip(a)]["k"] == "DeclRefExpr" and f.nodes[f.strip(a)].get("d") in dvars and
                                                                            f.nodes[f.strip(a)].get("tk") != "ptr" for a in f.call_args(y)):
                        return True
                return False
            guards = []
            cur = top
            while True:
                p_ = par.get(cur)
                if p_ is None:
                    break
                pn = f.nodes[p_]
                if pn["k"] == "IfStmt" and pn.get("cond", -1) >= 0 and cur != pn["cond"] and not mutated_in(cur, unit_vars):
                    if cur == pn.get("then"):
                        guards.append((pn["cond"], True))
                    elif cur == pn.get("else"):
                        guards.append((pn["cond"], False))
                cur = p_

            def guard_val(signed):
                out = True
                for (c, pol) in guards:
                    v = ev(c, unit, signed)
                    if isinstance(v, bool):
                        v = v if pol else (not v)
                        if v is False:
                            return False
                    else:
                        out = None
                return out
            gs, gu = guard_val(True), guard_val(False)
            vs, vu = ev(top, unit, True), ev(top, unit, False)
            if vs == vu:
                ok, why = True, "`%s` %s for a unit >= 0x80 whether it is read as signed or unsigned" % (
                    f.text(top)[:70], ("is " + str(vs).lower()) if isinstance(vs, bool) else "depends on the same other operands in the same way")
            elif gs is False and gu is False:
                ok, why = True, "the dominating conditions exclude units >= 0x80 in both readings"
            else:
                ok, why = False, "`%s` is %s for a unit >= 0x80 when Char_T is signed (char) and %s when it is unsigned (char16_t, char32_t): the UTF-8 build and the wide builds disagree on non-ASCII text" % (
                    f.text(top)[:70], "true" if vs is True else ("false" if vs is False else "decided by the other operands"), "true" if vu is True else ("false" if vu is False else "decided by the other operands"))
            ctx.note_fn(f)
            r.ob(f.sig if len(m.fns(f.q, required=False)) > 1 else f.q, f.text(x)[:60], ok, why, f.loc(x))
    return r


def rule_accumulate(ctx, m, files=("Digit.hpp",), rid="PR-accumulate"):
    """PR-accumulate: in a digit loop every digit that is consumed is folded into the accumulator (acc *= 10; acc += digit):
    between the test that recognises the unit as a digit and the accumulation there is no further condition, except a bound on
    the accumulator itself (a saturating overflow guard).  A guard on anything else -- the number of digits seen, the cursor --
    drops digits that carry value (leading zeros use up a digit budget: 1e00005 read as 1e0)."""
    r = Rule(rid, "a recognised digit is accumulated unconditionally (or under a bound on the accumulator only)", floor=4)
    for f in m.functions:
        if f.inst or not f.cfg or not any(f.file.endswith("/" + x) for x in files):
            continue
        par = f.parents()
        for x in f.walk():
            n = f.nodes[x]
            if n["k"] != "CompoundAssignOperator" or n["op"] not in ("*=", "<<="):
                continue
            k = f.const_value(f.strip_casts(n["ch"][1]))
            if k is None:
                k = m.eval_nodes(f.nodes, f.strip_casts(n["ch"][1]))
            if (n["op"], k) not in (("*=", 10), ("<<=", 4)):
                continue
            acc = f.text(n["ch"][0])
            acc_decls = set(f.nodes[y].get("d") for y in f.walk(n["ch"][0]) if f.nodes[y]["k"] in ("DeclRefExpr", "MemberExpr"))
            between = []
            digit_test = None
            cur = x
            while True:
                p_ = par.get(cur)
                if p_ is None:
                    break
                pn = f.nodes[p_]
                if pn["k"] in ("WhileStmt", "DoStmt", "ForStmt") and digit_test is None and False:
                    break
                if pn["k"] == "IfStmt" and cur in (pn.get("then"), pn.get("else")):
                    cond = pn["cond"]
                    is_digit_test = False
                    for y in f.walk(cond):
                        yn = f.nodes[y]
                        if yn["k"] == "BinaryOperator" and yn["op"] in ("<", "<=", ">", ">="):
                            for side in yn["ch"]:
                                t = (f.nodes[f.strip(side)].get("t") or "").replace("const ", "").strip()
                                if t == "Char_T":
                                    is_digit_test = True
                    if is_digit_test:
                        digit_test = p_
                        break
                    between.append(p_)
                cur = p_
            if digit_test is None:
                continue
            ctx.note_fn(f)
            bad = None
            for g in between:
                cond = f.nodes[g]["cond"]
                others = [f.text(y) for y in f.walk(cond) if f.nodes[y]["k"] == "DeclRefExpr" and f.nodes[y].get("d") not in acc_decls and f.nodes[y].get("dk") in ("var", "param")]
                if others:
                    bad = (g, others)
                    break
            r.ob(f.sig if len(m.fns(f.q, required=False)) > 1 else f.q, "%s" % f.text(x)[:50], bad is None,
                 "every unit recognised as a digit at %s reaches the accumulation" % (f.loc(digit_test)[0] if isinstance(f.loc(digit_test), tuple) else f.loc(digit_test)) if bad is None else
                 "the accumulation of a recognised digit is skipped when `%s` is false, a condition on %s and not on `%s`: digits that carry value are consumed without being counted" % (
                     f.text(f.nodes[bad[0]]["cond"])[:60], ", ".join(sorted(set(bad[1]))), acc), f.loc(x))
    return r


def rule_rvalue_use(ctx, m, rid="RV-use", floor=100, files=None):
    """RV-use: a parameter taken by rvalue reference is the caller's object given away.  Inside the function it is an lvalue, so
    naming it where a value is wanted (constructor argument, right-hand side, plain call argument) COPIES it and leaves the caller's
    object full -- the move overload then behaves like the copy overload (GroupBy re-uses one scratch object and relies on the
    append emptying it).  Every use of such a parameter is one of: argument of Memory::Move / Forward, address-of, member access,
    or an argument of a helper when the function afterwards empties the parameter itself (p.Reset() / p.Clear())."""
    r = Rule(rid, "an rvalue-reference parameter is only moved from, inspected through its members, or emptied explicitly; it is never copied", floor=floor)
    for f in m.functions:
        if f.inst or not f.cfg or (files and not any(f.file.endswith("/" + x) for x in files)):
            continue
        rps = {p["d"]: p for p in f.params if p.get("rref")}
        if not rps:
            continue
        par = f.parents()
        emptied = set()
        for c in astq.calls(f):
            rc = f.call_receiver(c)
            if rc is not None and f.nodes[f.strip(rc)].get("d") in rps and (f.call_simple_name(c) or "") in ("Reset", "Clear"):
                emptied.add(f.nodes[f.strip(rc)]["d"])
        noted = False
        for x in f.walk():
            n = f.nodes[x]
            if n["k"] != "DeclRefExpr" or n.get("d") not in rps:
                continue
            up = par.get(x)
            while up is not None and f.nodes[up]["k"] in ("ParenExpr", "ImplicitCastExpr"):
                up = par.get(up)
            if up is None:
                continue
            un = f.nodes[up]
            k = un["k"]
            if k in ("MemberExpr", "CXXDependentScopeMemberExpr"):
                ok, why = True, "member access"
            elif k == "UnaryOperator" and un.get("op") == "&":
                ok, why = True, "address taken (identity test)"
            elif k in ("CallExpr", "CXXMemberCallExpr") and (f.call_simple_name(up) or "") in ("Move", "Forward"):
                ok, why = True, "moved"
            elif k in ("CallExpr", "CXXMemberCallExpr") and n["d"] in emptied:
                ok, why = True, "handed to %s and emptied by the function afterwards" % (f.call_simple_name(up) or "a helper")
            else:
                ok, why = False, "`%s` names the rvalue-reference parameter `%s` as a plain value: the caller's object is copied, not moved, and stays full" % (f.text(up)[:60], n["n"])
            if not noted:
                ctx.note_fn(f)
                noted = True
            r.ob(f.sig, "%s in %s" % (n["n"], f.text(up)[:50]), ok, why, f.loc(x))
    return r


def rule_dispose_order(ctx, m, rid="O15-order"):
    """O15-order: a range Dispose whose bounds are read from the container's own size (End(), Size()) must run while that size
    still describes the elements: on no path is the size written (setSize / setLength / index_ = ...) before the Dispose that
    reads it -- otherwise the range is empty (the dropped elements leak) or covers the wrong elements.  May-analysis on the CFG of
    every member of the owning containers."""
    r = Rule(rid, "a Dispose bounded by End()/Size() precedes every write of the size on its path", floor=5)
    OWN = ("Qentem::Array", "Qentem::HashTable", "Qentem::HArray", "Qentem::HList")
    for f in m.functions:
        if f.inst or not f.cfg or f.cls not in OWN:
            continue
        disp = []
        for c in astq.calls(f, "Dispose"):
            a = f.call_args(c)
            if len(a) != 2:
                continue
            reads = [y for y in f.walk(c) if y != c and f.nodes[y]["k"] in ("CallExpr", "CXXMemberCallExpr") and (f.call_simple_name(y) or "") in ("End", "Size", "Last") and
                     (f.call_receiver(y) is None or f.nodes[f.strip(f.call_receiver(y))]["k"] == "CXXThisExpr")]
            if reads:
                disp.append(c)
        if not disp:
            continue
        ctx.note_fn(f)
        blocks = f.blocks()
        # locals that captured the size before it was written are fine: only direct reads inside the Dispose count (above)
        state = {f.cfg["entry"]: None}
        work = [f.cfg["entry"]]
        bad = {}
        it = 0
        while work and it < 5000:
            it += 1
            bid = work.pop()
            st = state[bid]
            for e in blocks[bid]["el"]:
                x = e.get("n")
                if not isinstance(x, int) or e.get("k"):
                    continue
                n = f.nodes[x]
                if x in disp and st is not None:
                    bad[x] = st
                if n["k"] in ("CallExpr", "CXXMemberCallExpr") and (f.call_simple_name(x) or "") in ("setSize", "setLength") and \
                        (f.call_receiver(x) is None or f.nodes[f.strip(f.call_receiver(x))]["k"] == "CXXThisExpr"):
                    st = x
            for (s_, k_, p_) in dataflow.successors(f, blocks[bid]):
                if s_ not in state:
                    state[s_] = st
                    work.append(s_)
                elif state[s_] is None and st is not None:
                    state[s_] = st
                    work.append(s_)
        for c in disp:
            r.ob(f.sig if len(m.fns(f.q, required=False)) > 1 else f.q, f.text(c)[:70], c not in bad,
                 "no write of the size reaches this call" if c not in bad else
                 "`%s` at %s runs first on some path: the bounds of the Dispose are read from the size it has just written, so the elements that are being dropped are not destroyed" % (
                     f.text(bad[c])[:40], f.loc(bad[c])[0] if isinstance(f.loc(bad[c]), tuple) else f.loc(bad[c])), f.loc(c))
    return r


def rule_redispose(ctx, m, rid="O16-redispose"):
    """O16-redispose: a function that destroys parts of a container's elements by hand (Memory::Dispose on a pointer into that
    container's storage) has taken over their destruction; calling one of the container's own element-destroying members
    (Reset, Clear, Drop, the destructor ...) on it afterwards destroys them a second time."""
    from rules.borrow import destroys_elements_sets, owner_of_type
    r = Rule(rid, "after a manual Dispose of a container's elements none of its element-destroying members is called on it", floor=2)
    destroys = destroys_elements_sets(m)
    for f in m.functions:
        if f.inst or not f.cfg:
            continue
        inits = {}
        types = {p["n"]: p["t"] for p in f.params}
        for x in astq.nodes_of(f, "DeclStmt"):
            for dd in f.nodes[x]["decls"]:
                if "d" in dd and dd.get("init", -1) >= 0:
                    inits[dd["d"]] = dd["init"]
                if "n" in dd:
                    types[dd["n"]] = dd.get("t", "")
        manual = []   # (dispose call, container text)
        for c in astq.calls(f, "Dispose"):
            a = f.call_args(c)
            if len(a) != 1:
                continue
            # root pointer of the argument
            cur = f.strip(a[0])
            hops = 0
            root = None
            while hops < 10:
                hops += 1
                n = f.nodes[cur]
                if n["k"] == "UnaryOperator" and n["op"] in ("&", "*") and n.get("ch"):
                    cur = f.strip(n["ch"][0])
                elif n["k"] in ("MemberExpr", "CXXDependentScopeMemberExpr") and n.get("ch"):
                    cur = f.strip(n["ch"][0])
                elif n["k"] == "ParenExpr":
                    cur = f.strip(n["ch"][0])
                elif n["k"] == "DeclRefExpr":
                    root = n
                    break
                else:
                    break
            if root is None or root.get("tk") != "ptr" or root.get("d") not in inits:
                continue
            src = f.strip_casts(inits[root["d"]])
            sn = f.nodes[src]
            if sn["k"] in ("CallExpr", "CXXMemberCallExpr") and (f.call_simple_name(src) or "") in ("Storage", "First", "Last", "End") and f.call_receiver(src) is not None:
                rc = f.strip(f.call_receiver(src))
                if f.nodes[rc]["k"] == "DeclRefExpr":
                    manual.append((c, f.nodes[rc]["n"]))
        if not manual:
            continue
        ctx.note_fn(f)
        blocks = f.blocks()
        pos = {}
        for b in f.cfg["blocks"]:
            for i, e in enumerate(b["el"]):
                if isinstance(e.get("n"), int) and not e.get("k"):
                    pos[e["n"]] = (b["id"], i)
        for (c, cont) in manual:
            owner = owner_of_type(types.get(cont, ""))
            dset = destroys.get(owner, set()) | (destroys.get("Qentem::HashTable", set()) if owner in ("Qentem::HArray", "Qentem::HList") else set())
            if c not in pos:
                continue
            # calls reachable after c
            start_b, start_i = pos[c]
            seen = set()
            work = [(start_b, start_i + 1)]
            hit = None
            while work and hit is None:
                bid, i0 = work.pop()
                if (bid, i0 > 0) in seen:
                    continue
                seen.add((bid, i0 > 0))
                for e in blocks[bid]["el"][i0:]:
                    x = e.get("n")
                    if not isinstance(x, int) or e.get("k"):
                        continue
                    n = f.nodes[x]
                    if n["k"] in ("CXXMemberCallExpr", "CallExpr") and f.call_receiver(x) is not None and f.nodes[f.strip(f.call_receiver(x))].get("n") == cont and (f.call_simple_name(x) or "") in dset:
                        hit = x
                        break
                for (s_, k_, p_) in dataflow.successors(f, blocks[bid]):
                    work.append((s_, 0))
            r.ob(f.sig if len(m.fns(f.q, required=False)) > 1 else f.q, "%s ... %s" % (f.text(c)[:40], cont), hit is None,
                 "no element-destroying member of `%s` is called afterwards (its block is released without running destructors)" % cont if hit is None else
                 "`%s` at %s destroys the elements of `%s` again after parts of them were disposed by hand: the blocks they own are released twice" % (
                     f.text(hit)[:40], f.loc(hit)[0] if isinstance(f.loc(hit), tuple) else f.loc(hit), cont), f.loc(c))
    return r


def rule_accumulator_wrap(ctx, m, files=("Digit.hpp",), rid="ACC-wrap"):
    """ACC-wrap: a decimal accumulation (acc *= 10; acc += digit) in a loop that runs as long as the input has digits multiplies an
    unsigned accumulator once per input unit: after 10 (32-bit) or 20 (64-bit) digits it wraps and the value that the range test
    sees is unrelated to the numeral (1e4294967297 read as 1e1).  Such an accumulation is acceptable only when (a) its loop is
    bounded by a local window (the loop condition's bound is a local, not the end-of-input parameter -- the 19-digit window of the
    mantissa), or (b) the accumulation is guarded, inside the iteration, by a comparison of the accumulator itself with a
    constant (a saturating guard)."""
    r = Rule(rid, "a decimal accumulation bounded only by the end of the input is guarded by a bound on the accumulator", floor=2)
    # one named exception: the unchecked conversion (no digit test, no range decision is taken from its result; its only caller
    # bounds-checks the index it yields).  It is outside the numeral grammar C09 speaks about.
    EXEMPT = {"Qentem::Digit::FastStringToNumber": "documented unchecked conversion; IDX-digits (C02, C12) decides that every caller validates the text as at most nine decimal digits first"}
    for f in m.functions:
        if f.inst or not f.cfg or not any(f.file.endswith("/" + x) for x in files):
            continue
        if f.q in EXEMPT:
            r.suppressions.append({"rule": rid, "function": f.q, "construct": "*= 10", "reason": EXEMPT[f.q], "matched": 1})
            continue
        par = f.parents()
        params = set(p["d"] for p in f.params)
        for x in f.walk():
            n = f.nodes[x]
            if n["k"] != "CompoundAssignOperator" or n["op"] != "*=":
                continue
            k = f.const_value(f.strip_casts(n["ch"][1]))
            if k is None:
                k = m.eval_nodes(f.nodes, f.strip_casts(n["ch"][1]))
            if k != 10:
                continue
            acc_decls = set(f.nodes[y].get("d") for y in f.walk(n["ch"][0]) if f.nodes[y]["k"] in ("DeclRefExpr", "MemberExpr"))
            loop = None
            guards = []
            cur = x
            while True:
                p_ = par.get(cur)
                if p_ is None:
                    break
                pn = f.nodes[p_]
                if pn["k"] == "IfStmt" and cur in (pn.get("then"), pn.get("else")):
                    guards.append(pn["cond"])
                if pn["k"] in ("WhileStmt", "DoStmt", "ForStmt"):
                    loop = p_
                    break
                cur = p_
            if loop is None:
                continue
            ctx.note_fn(f)
            cond = f.nodes[loop].get("cond", -1)
            bound_is_input = False
            if cond is not None and cond >= 0:
                for y in f.walk(cond):
                    yn = f.nodes[y]
                    if yn["k"] == "BinaryOperator" and yn["op"] in ("<", "<=", "!=", ">", ">="):
                        for side in yn["ch"]:
                            sn = f.nodes[f.strip_casts(side)]
                            if sn["k"] == "DeclRefExpr" and sn.get("d") in params and not any(p["d"] == sn["d"] and p.get("ref") for p in f.params):
                                bound_is_input = True
            guarded = False
            for g in guards:
                for y in f.walk(g):
                    yn = f.nodes[y]
                    if yn["k"] == "BinaryOperator" and yn["op"] in ("<", "<=", ">", ">="):
                        sides = yn["ch"]
                        for a_, b_ in (sides, sides[::-1]):
                            if any(f.nodes[z].get("d") in acc_decls for z in f.walk(a_) if f.nodes[z]["k"] in ("DeclRefExpr", "MemberExpr")) and \
                                    (f.const_value(f.strip_casts(b_)) is not None or m.eval_nodes(f.nodes, f.strip_casts(b_)) is not None):
                                guarded = True
            if not bound_is_input:
                ok, why = True, "the loop is bounded by a local window (`%s`), not by the end of the input" % (f.text(cond)[:50] if cond is not None and cond >= 0 else "?")
            elif guarded:
                ok, why = True, "the accumulation is under a bound on the accumulator itself"
            else:
                ok, why = False, "the loop `%s` runs for as many digits as the input has and nothing bounds `%s`: it wraps after %s digits and the range test sees an unrelated value" % (
                    f.text(cond)[:50], f.text(n["ch"][0]), "10" if "32" in (f.nodes[f.strip(n["ch"][0])].get("t") or "") else "about 20")
            r.ob(f.sig if len(m.fns(f.q, required=False)) > 1 else f.q, f.text(x)[:60], ok, why, f.loc(x))
    return r


def rule_flush_first(ctx, m, fq, rid="PR-flush"):
    """PR-flush: the escapers copy their input in slices: a scan cursor runs ahead, a second cursor remembers how far the input has
    been written, and every special unit first flushes the pending slice  Write(in + flushed, scan - flushed)  and then emits its
    replacement and moves the flushed cursor past the unit.  Typestate per loop iteration on the CFG: (a) no other output to the
    stream precedes the flush in an iteration that produces output (else the replacement comes out BEFORE the text in front of it);
    (b) an iteration that flushed also moves the flushed cursor before it ends (else the slice is written twice)."""
    r = Rule(rid, "in the escaper's loop every replacement is emitted after the pending slice was flushed, and the flushed cursor moves on", floor=2)
    fs = [f for f in m.fns(fq, required=False) if not f.inst and f.cfg]
    if not fs:
        r.broke("%s not found" % fq)
        return r
    f = fs[0]
    ctx.note_fn(f)
    ptr_params = set(p["n"] for p in f.params if p.get("ptr"))
    stream_params = set(p["n"] for p in f.params if p.get("ref") and not p.get("pconst") and not p.get("ptr") and p.get("tk") not in ("uint", "sint", "bool", "char"))
    if not ptr_params or not stream_params:
        r.broke("%s: expected an input pointer and an output stream parameter" % fq)
        return r
    blocks = f.blocks()

    def is_flush(x):
        """Write(in + A, B - A): returns the name of A"""
        n = f.nodes[x]
        if n["k"] not in ("CallExpr", "CXXMemberCallExpr") or f.call_simple_name(x) != "Write":
            return None
        rc = f.call_receiver(x)
        if rc is None or f.nodes[f.strip(rc)].get("n") not in stream_params:
            return None
        a = f.call_args(x)
        if len(a) != 2:
            return None
        a0, a1 = f.nodes[f.strip_casts(a[0])], f.nodes[f.strip_casts(a[1])]
        if a0["k"] == "BinaryOperator" and a0["op"] == "+" and a1["k"] == "BinaryOperator" and a1["op"] == "-":
            base = f.nodes[f.strip_casts(a0["ch"][0])].get("n")
            A = f.nodes[f.strip_casts(a0["ch"][1])].get("n")
            A2 = f.nodes[f.strip_casts(a1["ch"][1])].get("n")
            if base in ptr_params and A and A == A2:
                return A
        return None

    def is_output(x):
        n = f.nodes[x]
        if n["k"] in ("CallExpr", "CXXMemberCallExpr"):
            rc = f.call_receiver(x)
            return rc is not None and f.nodes[f.strip(rc)].get("n") in stream_params and (f.call_simple_name(x) or "") in ("Write", "Append", "operator+=", "operator<<")
        if n["k"] in ("CompoundAssignOperator", "BinaryOperator", "CXXOperatorCallExpr") and n.get("op") in ("+=", "<<"):
            lhs = n["ch"][0] if n["k"] != "CXXOperatorCallExpr" else f.call_args(x)[0]
            return f.nodes[f.strip(lhs)].get("n") in stream_params
        return False
    loops = [w for w in astq.nodes_of(f, ("WhileStmt", "DoStmt", "ForStmt")) if any(is_flush(y) for y in f.walk(f.nodes[w].get("body", w)))]
    if not loops:
        r.broke("%s: no loop with a slice flush Write(in + flushed, scan - flushed) found" % fq)
        return r
    for w in loops:
        body = f.nodes[w].get("body", -1)
        region = set(f.walk(body))
        flushed_var = None
        for y in region:
            A = is_flush(y)
            if A:
                flushed_var = A
        lt = [b for b in f.cfg["blocks"] if b.get("looptarget") == w]
        in_region = set(b["id"] for b in f.cfg["blocks"] if any(isinstance(e.get("n"), int) and not e.get("k") and e["n"] in region for e in b["el"]))
        head = lt[0]["id"] if lt else None
        # entries: successors of the loop condition's true edge
        cond = f.nodes[w].get("cond", -1)
        entries = []
        for b in f.cfg["blocks"]:
            if "cond" in b and cond is not None and cond >= 0 and f.strip(b["cond"]) in set(f.walk(cond)) | {f.strip(cond)}:
                for (s_, k_, p_) in dataflow.successors(f, b):
                    if k_ == "true" and s_ in in_region:
                        entries.append(s_)
        if not entries:
            r.broke("%s: the body of the loop at %s was not located in the CFG" % (fq, f.loc(w)))
            continue
        bad_a, bad_b = None, None
        seen = set()
        work = [(e_, (False, False)) for e_ in entries]
        while work:
            bid, st = work.pop()
            if (bid, st) in seen:
                continue
            seen.add((bid, st))
            flushed, moved = st
            for e in blocks[bid]["el"]:
                x = e.get("n")
                if not isinstance(x, int) or e.get("k") or x not in region:
                    continue
                n = f.nodes[x]
                if is_flush(x):
                    flushed = True
                    moved = False
                elif is_output(x) and not flushed and bad_a is None:
                    bad_a = x
                tgt = None
                if n["k"] == "UnaryOperator" and n["op"] in ("++", "--"):
                    tgt = n["ch"][0]
                elif n["k"] == "CompoundAssignOperator" or (n["k"] == "BinaryOperator" and n["op"] == "="):
                    tgt = n["ch"][0]
                if tgt is not None and f.nodes[f.strip(tgt)].get("n") == flushed_var and flushed:
                    moved = True
            for (s_, k_, p_) in dataflow.successors(f, blocks[bid]):
                if s_ in in_region:
                    work.append((s_, (flushed, moved)))
                elif flushed and not moved and bad_b is None:
                    bad_b = bid
        r.ob(f.q, "flush before replacement", bad_a is None, "every output of an iteration comes after its slice flush" if bad_a is None else
             "`%s` writes to the stream before the pending slice was flushed in that iteration: the replacement comes out in front of the text that precedes it" % f.text(bad_a)[:50],
             f.loc(bad_a) if bad_a is not None else f.loc(w))
        r.ob(f.q, "flushed cursor moves on", bad_b is None, "every iteration that flushed moves `%s` before it ends" % flushed_var if bad_b is None else
             "an iteration flushes the slice and ends without moving `%s`: the same text is written again by the next flush" % flushed_var, f.loc(w))
    return r


def rule_fast_digits(ctx, m, rid="IDX-digits"):
    """IDX-digits: Digit::FastStringToNumber is the unchecked conversion: it neither tests that the units are digits nor that the
    value fits (':' counts as ten, ten digits wrap).  It may be applied only to text its caller has validated: before the call
    the same (pointer, length) pair is scanned by a loop that compares every unit with the digits '0' and '9' and is bounded both
    by the length and by a constant number of digits, and the function leaves (returns) unless the scan consumed the whole,
    non-empty text.  Otherwise {var:list[:]} renders element 10 and {var:list[4294967297]} element 1."""
    r = Rule(rid, "the unchecked digit conversion is applied only to text validated as a short run of decimal digits", floor=1)
    for f in m.functions:
        if f.inst or not f.cfg:
            continue
        for c in astq.calls(f, "FastStringToNumber"):
            if f.q.endswith("::FastStringToNumber"):
                continue
            args = f.call_args(c)
            if len(args) != 3:
                continue
            ctx.note_fn(f)
            ptr, ln = f.text(args[1]), f.text(args[2])
            scan = None
            for w in astq.nodes_of(f, ("WhileStmt", "ForStmt")):
                if w > c:
                    continue
                cond = f.nodes[w].get("cond", -1)
                if cond is None or cond < 0:
                    continue
                ct = f.text(cond)
                units = [y for y in f.walk(cond) if f.nodes[y]["k"] == "ArraySubscriptExpr" and f.text(f.nodes[y]["ch"][0]) == ptr]
                if not units or "Zero" not in ct or "Nine" not in ct:
                    continue
                counter = f.text(f.nodes[units[0]]["ch"][1])
                bounded_len = any(f.nodes[y]["k"] == "BinaryOperator" and f.nodes[y]["op"] == "<" and f.text(f.nodes[y]["ch"][0]) == counter and f.text(f.nodes[y]["ch"][1]) == ln for y in f.walk(cond))
                bounded_const = any(f.nodes[y]["k"] == "BinaryOperator" and f.nodes[y]["op"] in ("<", "<=") and f.text(f.nodes[y]["ch"][0]) == counter and
                                    (f.const_value(f.strip_casts(f.nodes[y]["ch"][1])) is not None or m.eval_nodes(f.nodes, f.strip_casts(f.nodes[y]["ch"][1])) is not None or
                                     f.nodes[f.strip_casts(f.nodes[y]["ch"][1])].get("dk") == "var") and f.text(f.nodes[y]["ch"][1]) != ln for y in f.walk(cond))
                if bounded_len and bounded_const:
                    scan = (w, counter)
            guard = None
            if scan:
                for i in astq.nodes_of(f, "IfStmt"):
                    if not (scan[0] < i < c):
                        continue
                    ct = f.text(f.nodes[i]["cond"]).replace(" ", "")
                    whole = ("%s!=%s" % (scan[1], ln)) in ct or ("%s!=%s" % (ln, scan[1])) in ct
                    nonempty = ("%s==0" % scan[1]) in ct or ("%s==0" % ln) in ct
                    leaves = any(f.nodes[y]["k"] == "ReturnStmt" for y in f.walk(f.nodes[i]["then"]))
                    if whole and nonempty and leaves:
                        guard = i
            ok = scan is not None and guard is not None
            r.ob(f.sig if len(m.fns(f.q, required=False)) > 1 else f.q, f.text(c)[:60], ok,
                 "`%s` is scanned for digits up to `%s` and a constant number of digits, and the function returns unless the scan consumed all of a non-empty text" % (ptr, ln) if ok else
                 "%s: any text reaches the unchecked conversion (':' counts as ten, more than nine digits wrap the index)" % (
                     "no loop validates `%s` as decimal digits before the call" % ptr if scan is None else "the digit scan is not followed by a return for a partial or empty match"), f.loc(c))
    return r


def rule_finder_resync(ctx, m, rid="PR-resync"):
    """PR-resync: parse() lets the finder deliver the next tag, but the heads of <if>, <elseif> and <else> are scanned by hand with
    a local cursor; the position after the head becomes the start of the block's content (case.Offset = cursor) and the tags found
    from then on are collected as the block's sub-tags.  The renderer copies the text between that start and each sub-tag, so
    every sub-tag must lie at or after it: before the finder is asked for the next match it has to be moved to the cursor
    (finder.SetOffset(cursor)) -- otherwise a tag inside the head (<else {var:n}>) is recorded in front of the content start and the
    copy length underflows.  Must-analysis on the CFG: at every finder.Next() that follows a `X.Offset = cursor` of a case record
    on its path, SetOffset(cursor) was called after the cursor's last change."""
    r = Rule(rid, "after a block's content start is taken from a hand-moved cursor the finder is moved to that cursor before it searches on", floor=2)
    pf = m.fn("Qentem::TemplateCore::parse")
    ctx.note_fn(pf)
    blocks = pf.blocks()
    # cursors: integer locals that are assigned to a field named Offset of a case record (a reference local / Insert result)
    starts = {}
    for x in pf.walk():
        n = pf.nodes[x]
        if n["k"] == "BinaryOperator" and n["op"] == "=":
            lh = pf.nodes[pf.strip(n["ch"][0])]
            rh = pf.nodes[pf.strip(n["ch"][1])]
            if lh["k"] in ("MemberExpr", "CXXDependentScopeMemberExpr") and lh.get("n") == "Offset" and rh["k"] == "DeclRefExpr" and rh.get("dk") == "var" and lh.get("ch") and \
                    "case" in pf.text(lh["ch"][0]).lower():
                starts[x] = rh["d"]
    if not starts:
        r.broke("parse: no content start of a case record is taken from a local cursor")
        return r
    cursors = set(starts.values())

    def is_next(x):
        n = pf.nodes[x]
        return n["k"] in ("CallExpr", "CXXMemberCallExpr") and pf.call_simple_name(x) == "Next" and pf.call_receiver(x) is not None and pf.text(pf.call_receiver(x)) == "finder"

    def sync_of(x):
        n = pf.nodes[x]
        if n["k"] in ("CallExpr", "CXXMemberCallExpr") and pf.call_simple_name(x) == "SetOffset" and pf.call_receiver(x) is not None and pf.text(pf.call_receiver(x)) == "finder":
            a = pf.call_args(x)
            if a:
                an = pf.nodes[pf.strip(a[0])]
                if an["k"] == "DeclRefExpr":
                    return an.get("d")
        return None
    # state: frozenset of ("need", d) / ("sync", d); must-analysis for sync (intersection), may for need (union): keep as pair
    entry = pf.cfg["entry"]
    state = {entry: (frozenset(), frozenset())}
    work = [entry]
    bad = {}
    ok_sites = set()
    it = 0
    while work and it < 20000:
        it += 1
        bid = work.pop()
        need, sync = state[bid]
        need, sync = set(need), set(sync)
        for e in blocks[bid]["el"]:
            x = e.get("n")
            if not isinstance(x, int) or e.get("k"):
                continue
            n = pf.nodes[x]
            tgt = None
            if n["k"] == "UnaryOperator" and n["op"] in ("++", "--"):
                tgt = n["ch"][0]
            elif n["k"] == "CompoundAssignOperator" or (n["k"] == "BinaryOperator" and n["op"] == "="):
                tgt = n["ch"][0]
            if tgt is not None and pf.nodes[pf.strip(tgt)].get("d") in cursors:
                sync.discard(pf.nodes[pf.strip(tgt)]["d"])
            if n["k"] == "DeclStmt":
                for d in n["decls"]:
                    if d.get("d") in cursors:
                        sync.discard(d["d"])
                        need.discard(d["d"])
            if n["k"] in ("CallExpr", "CXXMemberCallExpr"):
                # a cursor handed to a callee by reference may be moved by it
                if pf.call_simple_name(x) not in ("SetOffset",):
                    for a in pf.call_args(x):
                        an = pf.nodes[pf.strip(a)]
                        if an["k"] == "DeclRefExpr" and an.get("d") in cursors and an.get("lv"):
                            prm = None
                            sync.discard(an["d"])
                s_ = sync_of(x)
                if s_ in cursors:
                    sync.add(s_)
                if is_next(x):
                    for d in list(need):
                        if d not in sync:
                            bad.setdefault(d, x)
                    need.clear()
            if x in starts and starts[x] not in sync:
                need.add(starts[x])      # not yet in step with the finder: it has to be before the next search
        for (s_, k_, p_) in dataflow.successors(pf, blocks[bid]):
            if s_ not in state:
                state[s_] = (frozenset(need), frozenset(sync))
                work.append(s_)
            else:
                on, os_ = state[s_]
                nn, ns = on | frozenset(need), os_ & frozenset(sync)
                if (nn, ns) != (on, os_):
                    state[s_] = (nn, ns)
                    work.append(s_)
    for x, d in sorted(starts.items()):
        r.ob(pf.q, pf.text(x)[:50], d not in bad or False, "the finder is moved to this cursor before the next search on every path" if d not in bad else
             "`%s` at %s searches on from the finder's old position: a tag inside the head that was scanned by hand is collected as a sub-tag IN FRONT of this content start, and the renderer's copy length underflows" % (
                 pf.text(bad[d])[:20], pf.loc(bad[d])[0] if isinstance(pf.loc(bad[d]), tuple) else pf.loc(bad[d])), pf.loc(x))
    return r


def rule_narrow_index(ctx, m, rid="NARROW-index"):
    """NARROW-index: some fields of the parsed tag records are positions the renderer uses directly -- as a subscript or added to a
    pointer (the loop level into the stack of loop items, the first sub-tag of the true/false part of an inline if).  They are
    8 bits wide; the parser stores them through a narrowing conversion of a count it keeps in a wider local.  Truncated, such a
    position names a DIFFERENT object (level 256 is level 0: the inner loop overwrites the item of the outer one; sub-tag 256 is
    sub-tag 0: the slice lengths underflow).  The fields are found from the renderer (fields of tag records used as subscripts or
    pointer offsets); every narrowing store into one of them must be dominated by a comparison of the stored quantity with a
    constant that fits the field, on whose failing edge the store is not reached."""
    r = Rule(rid, "a count narrowed into an index field of a tag record was compared with the field's range first", floor=2)
    index_fields = set()
    for f in m.functions:
        if f.inst or not f.cfg or f.cls != "Qentem::TemplateCore":
            continue
        for x in f.walk():
            n = f.nodes[x]
            idx = None
            if n["k"] == "ArraySubscriptExpr":
                idx = n["ch"][1]
            elif n["k"] in ("BinaryOperator", "CompoundAssignOperator") and n.get("op") in ("+", "+=") and f.nodes[f.strip_casts(n["ch"][0])].get("tk") == "ptr":
                idx = n["ch"][1]
            if idx is not None:
                base_t = (f.nodes[f.strip_casts(n["ch"][0])].get("t") or "")
                if "Char_T" in base_t or "char" in base_t.replace("unsigned char", ""):
                    continue      # a position in the template text: truncated it is still inside the tag (a different text, not a different object)
                for y in f.walk(idx):
                    yn = f.nodes[y]
                    if yn["k"] in ("MemberExpr", "CXXDependentScopeMemberExpr") and yn.get("ch") and (yn.get("t") or "").replace("const ", "") in ("Qentem::SizeT8", "SizeT8", "unsigned char"):
                        index_fields.add(yn["n"])
    if not index_fields:
        r.broke("no 8-bit field of a tag record is used as a subscript or pointer offset by the renderer")
        return r
    r.notes.append("index fields found in the renderer: %s" % sorted(index_fields))
    for f in m.functions:
        if f.inst or not f.cfg or f.cls != "Qentem::TemplateCore":
            continue
        par = f.parents()
        for x in f.walk():
            n = f.nodes[x]
            if n["k"] != "BinaryOperator" or n["op"] != "=":
                continue
            lh = f.nodes[f.strip(n["ch"][0])]
            if lh["k"] not in ("MemberExpr", "CXXDependentScopeMemberExpr") or lh.get("n") not in index_fields:
                continue
            rh = f.nodes[f.strip(n["ch"][1])]
            if rh["k"] not in ("CXXFunctionalCastExpr", "CStyleCastExpr", "CXXStaticCastExpr") or not rh.get("ch"):
                continue       # a copy of another record's field of the same width
            src = rh["ch"][0]
            src_t = f.text(src)
            srcs = set(f.nodes[y].get("d") for y in f.walk(src) if f.nodes[y]["k"] == "DeclRefExpr")
            ctx.note_fn(f)
            guarded = None
            up = par.get(x)
            child = x
            while up is not None:
                un = f.nodes[up]
                if un["k"] == "IfStmt":
                    for y in f.walk(un["cond"]):
                        yn = f.nodes[y]
                        if yn["k"] == "BinaryOperator" and yn["op"] in ("<", "<=", ">", ">="):
                            a, b = yn["ch"]
                            for (l_, r_, op) in ((a, b, yn["op"]), (b, a, {"<": ">", "<=": ">=", ">": "<", ">=": "<="}[yn["op"]])):
                                k = f.const_value(f.strip_casts(r_))
                                if k is None:
                                    k = m.eval_nodes(f.nodes, f.strip_casts(r_))
                                same = f.text(l_) == src_t or (srcs and set(f.nodes[z].get("d") for z in f.walk(l_) if f.nodes[z]["k"] == "DeclRefExpr") == srcs)
                                if same and k is not None:
                                    fits_then = (op == "<" and k <= 256) or (op == "<=" and k <= 255)
                                    fits_else = (op == ">" and k <= 255) or (op == ">=" and k <= 256)
                                    if (child == un.get("then") and fits_then) or (child == un.get("else") and fits_else):
                                        guarded = up
                    # `if (too big) { drop; break/return; }` in front of the store, same compound
                child = up
                up = par.get(up)
            if guarded is None:
                # an earlier sibling statement that leaves when the quantity does not fit
                up = par.get(x)
                child = x
                while up is not None and guarded is None:
                    un = f.nodes[up]
                    if un["k"] == "CompoundStmt":
                        ch = un.get("ch", [])
                        if child in ch:
                            for sib in ch[:ch.index(child)]:
                                sn = f.nodes[sib]
                                if sn["k"] == "IfStmt" and any(f.nodes[z]["k"] in ("ReturnStmt", "BreakStmt", "ContinueStmt") for z in f.walk(sn["then"])):
                                    for y in f.walk(sn["cond"]):
                                        yn = f.nodes[y]
                                        if yn["k"] == "BinaryOperator" and yn["op"] in (">", ">="):
                                            k = f.const_value(f.strip_casts(yn["ch"][1]))
                                            if k is None:
                                                k = m.eval_nodes(f.nodes, f.strip_casts(yn["ch"][1]))
                                            same = f.text(yn["ch"][0]) == src_t or (srcs and set(f.nodes[z].get("d") for z in f.walk(yn["ch"][0]) if f.nodes[z]["k"] == "DeclRefExpr") == srcs)
                                            if same and k is not None and ((yn["op"] == ">" and k <= 255) or (yn["op"] == ">=" and k <= 256)):
                                                guarded = sib
                    child = up
                    up = par.get(up)
            r.ob(f.q, f.text(x)[:60], guarded is not None, "`%s` was compared with the range of the 8-bit field before the store" % src_t[:30] if guarded is not None else
                 "`%s` is narrowed to 8 bits and nothing on the way compared it with 255: the renderer uses `%s` as a position, and position 256 is position 0" % (src_t[:30], lh["n"]), f.loc(x))
    return r


def rule_size_rebuild(ctx, m, rid="PR-resize"):
    """PR-resize (clause of the rehash discipline): the bucket chains of a hash table name slots by position.  A member that
    sets the table's own size to a computed value (not the literal 0 of Clear/Reset, not the adoption of another table's size in
    a move) changes which slots exist; before it returns the chains must be rebuilt (generateHash / resize) on every path, or
    stale links from Sort-ed or reused slots cut a chain when the slot is filled again."""
    r = Rule(rid, "a member that gives a hash table a computed size rebuilds the bucket chains before it returns", floor=2)
    for f in m.functions:
        if f.inst or not f.cfg or f.cls not in ("Qentem::HashTable", "Qentem::HArray", "Qentem::HList"):
            continue
        blocks = f.blocks()
        for c in astq.calls(f, "setSize"):
            rc = f.call_receiver(c)
            if rc is not None and f.nodes[f.strip(rc)]["k"] != "CXXThisExpr":
                continue
            a = f.call_args(c)
            if not a or f.const_value(f.strip_casts(a[0])) is not None:
                continue
            at = f.text(a[0])
            if "src" in at or "other" in at:
                continue      # a move adopts the other table together with its chains
            ctx.note_fn(f)
            start = dataflow.block_of(f, c)
            bad = False
            seen = set()
            work = [(start, True)]
            while work and not bad:
                bid, first = work.pop()
                if (bid, first) in seen:
                    continue
                seen.add((bid, first))
                after = not first
                rebuilt = False
                for e in blocks[bid]["el"]:
                    x = e.get("n")
                    if not isinstance(x, int) or e.get("k"):
                        continue
                    if x == c:
                        after = True
                        continue
                    if after and f.nodes[x]["k"] in ("CallExpr", "CXXMemberCallExpr") and (f.call_simple_name(x) or "") in ("generateHash", "resize", "Reset", "Clear", "clearHashTable"):
                        rebuilt = True
                        break
                if rebuilt:
                    continue
                succ = dataflow.successors(f, blocks[bid])
                if not succ or any(s_ == f.cfg.get("exit") for (s_, _, _) in succ):
                    bad = True
                for (s_, k_, p_) in succ:
                    work.append((s_, False))
            r.ob(f.sig if len(m.fns(f.q, required=False)) > 1 else f.q, f.text(c)[:50], not bad, "every path from here to the end of the member rebuilds the chains" if not bad else
                 "a path returns after `%s` without rebuilding the bucket chains: links that still name the slots beyond the new size are followed when those slots are filled again" % f.text(c)[:40], f.loc(c))
    return r


def rule_capacity_size(ctx, m, rid="SB-capsize"):
    """SB-capsize: the copying members of Array allocate storage only when the source is not empty, for exactly the elements it
    holds.  The capacity they record is therefore the source's SIZE -- the quantity the emptiness test is about -- never its
    capacity: an empty source with spare capacity (after Clear() or Reserve()) would leave a copy that claims room it does not
    have, and the next append writes through a null pointer."""
    r = Rule(rid, "Array's copying members record the source's size as capacity (the storage is allocated for exactly that)", floor=2)
    for f in m.functions:
        if f.inst or not f.cfg or f.cls != "Qentem::Array":
            continue
        base = f.name.split("<")[0]
        if not ((base == "Array" or base == "operator=") and len(f.params) == 1 and f.params[0].get("ref") and not f.params[0].get("rref") and "Array" in f.params[0]["t"]):
            continue
        pn = f.params[0]["n"]
        exprs = []
        for i in f.d.get("inits", []):
            if i.get("f") == "capacity_" or i.get("name") == "capacity_" or "capacity_" in str(i.get("n_name", "")):
                exprs.append((i.get("n", -1), f.text(i["n"]) if i.get("n", -1) >= 0 else ""))
        for c in astq.calls(f, "setCapacity"):
            rc = f.call_receiver(c)
            if rc is None or f.nodes[f.strip(rc)]["k"] == "CXXThisExpr":
                exprs.append((c, f.text(f.call_args(c)[0])))
        if not exprs:
            # constructor initialiser not exported with a name: take every initialiser expression that mentions the parameter
            for i in f.d.get("inits", []):
                if i.get("n", -1) >= 0 and pn in f.text(i["n"]):
                    exprs.append((i["n"], f.text(i["n"])))
        for (node, t) in exprs:
            ctx.note_fn(f)
            ok = ("%s.Size()" % pn) in t and "Capacity" not in t
            r.ob(f.sig, "capacity := %s" % t[:40], ok, "the recorded capacity is the size the storage is allocated for" if ok else
                 "the recorded capacity is `%s`, but storage is only allocated for %s.Size() elements and only when that is not zero: a copy of an empty array with spare capacity has capacity and no storage" % (t[:40], pn),
                 f.loc(node) if isinstance(node, int) and node >= 0 else "Include/Array.hpp:%d" % f.line)
    return r


def rule_append_keeps(ctx, m, rid="PR-keep"):
    """PR-keep: the members that ADD to a sequence (Expect, Write, the appending operators, Buffer, InsertAt, Insert, expand) must
    keep what it holds.  None of them reaches, through the class's own members, one that throws the content away (a member whose
    body calls Reset()/Clear() or sets the length to the literal 0 before anything is copied: Reserve, Reset, Clear).  Call-graph
    rule over the resolved members of StringStream, String and Array."""
    r = Rule(rid, "the appending members of the sequences never reach a member that discards the content", floor=6)
    GROW = ("Expect", "Write", "write", "operator+=", "operator<<", "Buffer", "InsertAt", "Insert", "expand", "Append")
    for cls in ("Qentem::StringStream", "Qentem::String", "Qentem::Array"):
        methods = [f for f in m.functions if not f.inst and f.cls == cls and f.cfg]
        byname = {}
        for f in methods:
            byname.setdefault(f.name.split("<")[0], []).append(f)
        droppers = set()
        for f in methods:
            nm = f.name.split("<")[0]
            if nm in ("Reset", "Clear"):
                droppers.add(nm)
                continue
            own_calls = [f.call_simple_name(c) for c in astq.calls(f) if f.call_receiver(c) is None or f.nodes[f.strip(f.call_receiver(c))]["k"] == "CXXThisExpr"]
            if any(x in ("Reset", "Clear") for x in own_calls) and nm not in GROW and not nm.startswith("~") and not nm.startswith("operator=") and nm != cls.split("::")[-1]:
                droppers.add(nm)
        calls_own = {}
        for f in methods:
            nm = f.name.split("<")[0]
            own = set(f.call_simple_name(c) for c in astq.calls(f) if (f.call_receiver(c) is None or f.nodes[f.strip(f.call_receiver(c))]["k"] == "CXXThisExpr") and f.call_simple_name(c) in byname)
            calls_own[nm] = calls_own.get(nm, set()) | own
        for nm in sorted(set(GROW) & set(byname)):
            seen = set()
            stack = [(nm, [nm])]
            hit = None
            while stack and hit is None:
                cur, path = stack.pop()
                if cur in seen:
                    continue
                seen.add(cur)
                for nx in sorted(calls_own.get(cur, ())):
                    if nx in droppers:
                        hit = path + [nx]
                        break
                    stack.append((nx, path + [nx]))
            for f in byname[nm][:1]:
                ctx.note_fn(f)
            r.ob("%s::%s" % (cls, nm), "calls among the class's own members", hit is None, "reaches none of the discarding members %s" % sorted(droppers) if hit is None else
                 "reaches %s, which discards what the sequence holds: %s on a non-empty %s loses its content" % (" -> ".join(hit), nm, cls.split("::")[-1]),
                 "Include/%s:%d" % (byname[nm][0].file.split("/Include/")[-1], byname[nm][0].line))
    return r


def rule_none_owns_nothing(ctx, m, rid="O18-none"):
    """O18-none: a TagBit whose kind is None releases nothing (Clear() dispatches on the kind).  A member that marks an object None
    must therefore not have handed it a block in the same breath: in every member of TagBit, an object (this / the parameter)
    whose type_ is assigned TagType::None is not assigned a storage_ other than nullptr -- the block parked there would never be
    released."""
    r = Rule(rid, "a TagBit that is marked None is not given a block to hold", floor=1)
    for f in m.functions:
        if f.inst or not f.cfg or f.cls != "Qentem::Tags::TagBit":
            continue
        none_of, stor_of = {}, {}
        for x in f.walk():
            n = f.nodes[x]
            if n["k"] == "BinaryOperator" and n["op"] == "=":
                lh = f.nodes[f.strip(n["ch"][0])]
                if lh["k"] in ("MemberExpr",) and lh.get("n") in ("type_", "storage_"):
                    base = f.text(lh["ch"][0]) if lh.get("ch") and f.nodes[f.strip(lh["ch"][0])]["k"] != "CXXThisExpr" else "this"
                    rt = f.text(n["ch"][1])
                    if lh["n"] == "type_" and rt.endswith("None"):
                        none_of[base] = x
                    if lh["n"] == "storage_" and rt not in ("nullptr", "0"):
                        stor_of[base] = (x, rt)
        for base, x in sorted(none_of.items()):
            ctx.note_fn(f)
            bad = stor_of.get(base)
            r.ob(f.sig, "%s.type_ = None" % base, bad is None, "`%s` is marked None and holds no block" % base if bad is None else
                 "`%s` is marked None but `%s` parks a block in it: a TagBit of kind None releases nothing, the block and everything below it is lost" % (base, f.text(bad[0])[:50]), f.loc(x))
    return r


def rule_attr_siblings(ctx, m, rid="SB-attr"):
    """SB-attr: parseLoopAttributes recognises the four attribute names (set, sort, value, group) with the same test, one copy per
    name.  With the pattern constants of each copy abstracted (name, its length) the conditions must be identical: a copy
    that is stricter or laxer than its siblings recognises its attribute in fewer or more spellings than the others
    (`group = "k"` with blanks was not taken for the group attribute while `value = "v"` was)."""
    r = Rule(rid, "the four attribute-name tests of parseLoopAttributes are the same test up to the attribute's name", floor=4)
    fs = [f for f in m.functions if not f.inst and f.cfg and f.q == "Qentem::TemplateCore::parseLoopAttributes"]
    if not fs:
        r.broke("TemplateCore::parseLoopAttributes not found")
        return r
    f = fs[0]
    ctx.note_fn(f)
    inits = {}
    for x in astq.nodes_of(f, "DeclStmt"):
        for d in f.nodes[x]["decls"]:
            if "d" in d and d.get("init", -1) >= 0:
                inits[d["n"]] = f.text(d["init"])
    forms = {}
    for i in astq.nodes_of(f, "IfStmt"):
        cond = f.nodes[i]["cond"]
        eq = [c for c in astq.calls(f, "IsEqual", cond)]
        if not eq:
            continue
        names = [nm for nm in ("Set", "Sort", "Value", "Group") if ("TagPatterns::%s," % nm) in f.text(eq[0]).replace(" ", "") or ("TagPatterns::%s)" % nm) in f.text(eq[0]).replace(" ", "") or
                 ("::%s," % nm) in f.text(eq[0]).replace(" ", "")]
        if len(names) != 1:
            continue
        t = f.text(cond)
        for _ in range(3):      # locals defined through other locals
            for k, v in inits.items():
                t = re.sub(r"\b%s\b" % re.escape(k), "(" + v + ")", t)
        t = t.replace(names[0] + "Length", "NAMELength").replace("::" + names[0] + ",", "::NAME,").replace("::" + names[0] + ")", "::NAME)")
        t = re.sub(r"\s+", "", t)
        while "((" in t and t.count("(") == t.count(")"):
            t2 = t.replace("((", "(", 1)
            break
        forms[names[0]] = (t, i)
    if len(forms) < 4:
        r.broke("parseLoopAttributes: found the name test of %s only" % sorted(forms))
        return r
    # majority form
    from collections import Counter
    def canon(t):
        return t.replace("(", "").replace(")", "")
    cnt = Counter(canon(v[0]) for v in forms.values())
    major = cnt.most_common(1)[0][0]
    for nm, (t, i) in sorted(forms.items()):
        ok = canon(t) == major
        r.ob(f.q, "name test of `%s`" % nm.lower(), ok, "the same test as its siblings" if ok else "differs from the test the other attribute names use: `%s` is recognised in other spellings than they are" % nm.lower(), f.loc(i))
    return r


def rule_pointer_value_makers(ctx, m, rid="WHO-ptrvalue"):
    """WHO-ptrvalue: a Value of the pointer kind borrows another Value: it is the caller's business to keep the target alive, which
    is why only the two public entry points create one (SetPointerToValue, and AddPointerToValue through it).  No other code of
    the library may call them: a library routine that builds its RESULT out of pointer values (GroupBy filling the grouped
    value with pointers into its source) hands out borrows that die with an object the caller does not know it must keep."""
    r = Rule(rid, "inside the library pointer-kind Values are created only by the two public entry points", floor=1)
    for f in m.functions:
        if f.inst or not f.cfg:
            continue
        for c in astq.calls(f):
            nm = f.call_simple_name(c)
            if nm not in ("SetPointerToValue", "AddPointerToValue"):
                continue
            ctx.note_fn(f)
            ok = f.cls == "Qentem::Value" and f.name in ("AddPointerToValue", "SetPointerToValue")
            r.ob(f.sig if len(m.fns(f.q, required=False)) > 1 else f.q, f.text(c)[:60], ok, "the public entry point itself" if ok else
                 "a library routine stores a borrowed pointer (`%s`) in a Value it hands to its caller: the result is only valid while the object it points into lives" % f.text(f.call_args(c)[0])[:40] if f.call_args(c) else "", f.loc(c))
    return r


def rule_null_store(ctx, m, classes=("Qentem::String", "Qentem::StringStream"), rid="NULL-store"):
    """NULL-store: a default-constructed or reset String / StringStream has no storage: Storage() is null and Length() is 0.  A
    member that writes through its own Storage() without having allocated in the same call must have excluded that state: on
    every path to the store a test established that the sequence is not empty or that the pointer is not null (must-analysis:
    true edge of IsNotEmpty(), Length() != 0, Length() > k, x < Length(), p != nullptr; false edge of their negations).  A
    non-strict bound (len <= Length()) does not exclude it: StepBack(0) on an empty String stored the terminator through null."""
    r = Rule(rid, "a member writes through its own Storage() only where an empty (storage-less) object was excluded", floor=2)
    for f in m.functions:
        if f.inst or not f.cfg or f.cls not in classes or f.kind in ("ctor", "copyctor", "movector", "dtor"):
            continue
        if any((f.call_simple_name(c) or "") in ("allocate", "Allocate", "expand", "Expect", "Reserve", "Write", "write", "Buffer") for c in astq.calls(f)):
            continue       # the member (re)allocates: covered by the ownership rules
        ptrs = {}
        for st_ in astq.nodes_of(f, "DeclStmt"):
            for d in f.nodes[st_]["decls"]:
                if d.get("tk") == "ptr" and d.get("init", -1) >= 0 and "d" in d:
                    i0 = f.strip_casts(d["init"])
                    n0 = f.nodes[i0]
                    if n0["k"] in ("CallExpr", "CXXMemberCallExpr") and (f.call_simple_name(i0) or "") in ("Storage", "First") and \
                            (f.call_receiver(i0) is None or f.nodes[f.strip(f.call_receiver(i0))]["k"] == "CXXThisExpr") and "const" not in (d.get("t") or "").split("*")[0]:
                        ptrs[d["d"]] = d["n"]
        # locals that start as the length (and, being only decremented or compared, never exceed it)
        len_locals = set()
        for st_ in astq.nodes_of(f, "DeclStmt"):
            for d in f.nodes[st_]["decls"]:
                if "d" in d and d.get("init", -1) >= 0 and f.text(d["init"]).replace("this.", "") in ("Length()", "Size()"):
                    grows = any((f.nodes[y]["k"] == "UnaryOperator" and f.nodes[y]["op"] == "++" or f.nodes[y]["k"] == "CompoundAssignOperator" and f.nodes[y]["op"] == "+=" or
                                 f.nodes[y]["k"] == "BinaryOperator" and f.nodes[y]["op"] == "=") and f.nodes[f.strip(f.nodes[y]["ch"][0])].get("d") == d["d"] for y in f.walk())
                    if not grows:
                        len_locals.add(d["n"])
        stores = []
        for x in f.walk():
            n = f.nodes[x]
            if n["k"] == "BinaryOperator" and n["op"] == "=":
                lh = f.nodes[f.strip(n["ch"][0])]
                base = None
                if lh["k"] == "ArraySubscriptExpr":
                    base = f.nodes[f.strip_casts(lh["ch"][0])]
                elif lh["k"] == "UnaryOperator" and lh["op"] == "*":
                    base = f.nodes[f.strip_casts(lh["ch"][0])]
                if base is not None and base["k"] == "DeclRefExpr" and base.get("d") in ptrs:
                    stores.append((x, base["d"]))
        if not stores:
            continue
        ctx.note_fn(f)
        blocks = f.blocks()

        def establishes(c):
            """True: the condition true means non-empty / non-null; False: the condition false means it; None"""
            c = f.strip(c)
            n = f.nodes[c]
            if n["k"] == "UnaryOperator" and n["op"] == "!":
                v = establishes(n["ch"][0])
                return None if v is None else (not v)
            t = f.text(c).replace(" ", "").replace("this.", "")
            if n["k"] in ("CallExpr", "CXXMemberCallExpr") and (f.call_simple_name(c) or "") == "IsNotEmpty":
                return True
            if n["k"] in ("CallExpr", "CXXMemberCallExpr") and (f.call_simple_name(c) or "") == "IsEmpty":
                return False
            if n["k"] == "BinaryOperator":
                a, b = n["ch"]
                ta, tb = f.text(a).replace("this.", ""), f.text(b).replace("this.", "")
                op = n["op"]
                def is_len(s_):
                    return s_ in ("Length()", "Size()") or s_ in len_locals
                if op == "!=" and ((is_len(ta) and f.const_value(f.strip_casts(b)) == 0) or (f.nodes[f.strip_casts(a)].get("d") in ptrs and tb == "nullptr")):
                    return True
                if op == "==" and ((is_len(ta) and f.const_value(f.strip_casts(b)) == 0) or (f.nodes[f.strip_casts(a)].get("d") in ptrs and tb == "nullptr")):
                    return False
                if op == ">" and is_len(ta):
                    return True
                if op == "<" and is_len(tb):
                    return True
                if op == ">=" and is_len(ta) and (f.const_value(f.strip_casts(b)) or 0) >= 1:
                    return True
            return None
        def nonzero_of(c, truth):
            """name known to be non-zero on this edge"""
            c = f.strip(c)
            n = f.nodes[c]
            while n["k"] == "UnaryOperator" and n["op"] == "!":
                c = f.strip(n["ch"][0])
                n = f.nodes[c]
                truth = not truth
            if n["k"] == "BinaryOperator" and n["op"] in ("!=", "==", ">") and f.const_value(f.strip_casts(n["ch"][1])) == 0:
                if (n["op"] in ("!=", ">")) == truth:
                    return f.text(n["ch"][0])
            return None

        def le_len_of(c, truth):
            """X when the edge says X <= Length()"""
            c = f.strip(c)
            n = f.nodes[c]
            while n["k"] == "UnaryOperator" and n["op"] == "!":
                c = f.strip(n["ch"][0])
                n = f.nodes[c]
                truth = not truth
            if n["k"] == "BinaryOperator":
                ta, tb = f.text(n["ch"][0]).replace("this.", ""), f.text(n["ch"][1]).replace("this.", "")
                if n["op"] == "<=" and tb in ("Length()", "Size()") and truth:
                    return f.text(n["ch"][0])
                if n["op"] == ">=" and ta in ("Length()", "Size()") and truth:
                    return f.text(n["ch"][1])
                if n["op"] == ">" and tb in ("Length()", "Size()") and not truth:
                    return f.text(n["ch"][0])
            return None
        fact = {f.cfg["entry"]: (False, frozenset())}
        work = [f.cfg["entry"]]
        at = {}
        it = 0
        while work and it < 6000:
            it += 1
            bid = work.pop()
            st = fact[bid]
            for e in blocks[bid]["el"]:
                x = e.get("n")
                if isinstance(x, int) and not e.get("k"):
                    at[x] = st[0] if x not in at else (at[x] and st[0])
            for (s_, kind, payload) in dataflow.successors(f, blocks[bid]):
                ne, nz = st
                if kind in ("true", "false") and payload is not None:
                    t = establishes(payload)
                    if t is not None and (kind == "true") == t:
                        ne = True
                    z_ = nonzero_of(payload, kind == "true")
                    if z_:
                        nz = nz | {z_}
                    l_ = le_len_of(payload, kind == "true")
                    if l_ and l_ in nz:
                        ne = True      # 0 < X <= Length()
                if s_ not in fact:
                    fact[s_] = (ne, nz)
                    work.append(s_)
                else:
                    new_ = (fact[s_][0] and ne, fact[s_][1] & nz)
                    if new_ != fact[s_]:
                        fact[s_] = new_
                        work.append(s_)
        for (x, d) in stores:
            ok = bool(at.get(x))
            r.ob(f.sig if len(m.fns(f.q, required=False)) > 1 else f.q, f.text(x)[:50], ok, "the empty, storage-less state is excluded on every path to this store" if ok else
                 "no test on the way here excludes an empty object whose Storage() is null (a bound such as `len <= Length()` lets 0 <= 0 through): the store goes through a null pointer", f.loc(x))
    return r


def rule_out_alias(ctx, m, rid="OUT-alias"):
    """OUT-alias: a const member of Value that delivers its result through a `Value &` parameter reads this object while it
    writes the parameter; called as v.GroupBy(v, ...) the first write (reset) destroys what it is about to read.  Such a member
    separates the two cases first: every mutation of the parameter is reached only over the "distinct" edge of an identity test
    of the parameter's address against this (must-analysis on the CFG), or after the member has finished (a move of a
    local result into the parameter followed by a return)."""
    r = Rule(rid, "a const Value member that fills a Value & parameter has excluded `&parameter == this` before it writes it", floor=1)
    for f in m.functions:
        if f.inst or not f.cfg or f.cls != "Qentem::Value" or not f.d.get("const", f.sig.rstrip().endswith("const")):
            continue
        outs = [p for p in f.params if p.get("ref") and not p.get("rref") and not p.get("pconst") and "*" not in p["t"] and
                p["t"].replace("&", "").strip().split("<")[0].split("::")[-1] == "Value"]
        if not outs:
            continue
        for p in outs:
            muts = []
            for c in astq.calls(f):
                rc = f.call_receiver(c)
                if rc is not None and f.nodes[f.strip(rc)].get("d") == p["d"] and (f.call_simple_name(c) or "") in ("reset", "Reset", "setTypeToObject", "setTypeToArray", "Clear"):
                    muts.append(c)
            for x in f.walk():
                n = f.nodes[x]
                if n["k"] in ("BinaryOperator", "CXXOperatorCallExpr") and n.get("op") == "=":
                    lhs = f.call_args(x)[0] if n["k"] == "CXXOperatorCallExpr" else n["ch"][0]
                    if f.nodes[f.strip(lhs)].get("d") == p["d"]:
                        muts.append(x)
            if not muts:
                continue
            ctx.note_fn(f)
            blocks = f.blocks()

            def ident(c):
                """True if the condition true means &p == this; False if true means distinct; None"""
                c = f.strip(c)
                n = f.nodes[c]
                if n["k"] == "UnaryOperator" and n["op"] == "!":
                    v = ident(n["ch"][0])
                    return None if v is None else (not v)
                if n["k"] == "BinaryOperator" and n["op"] in ("==", "!="):
                    t = f.text(c).replace(" ", "")
                    if "this" in t and ("&" + p["n"]) in t:
                        return n["op"] == "=="
                return None
            fact = {f.cfg["entry"]: None}      # None unknown, "same", "distinct"
            work = [f.cfg["entry"]]
            at = {}
            it = 0
            while work and it < 6000:
                it += 1
                bid = work.pop()
                st = fact[bid]
                for e in blocks[bid]["el"]:
                    x = e.get("n")
                    if isinstance(x, int) and not e.get("k"):
                        at.setdefault(x, set()).add(st)
                for (s_, kind, payload) in dataflow.successors(f, blocks[bid]):
                    out = st
                    if kind in ("true", "false") and payload is not None:
                        v = ident(payload)
                        if v is not None:
                            out = "same" if (kind == "true") == v else "distinct"
                    if s_ not in fact:
                        fact[s_] = out
                        work.append(s_)
                    elif fact[s_] != out and fact[s_] is not None:
                        fact[s_] = None
                        work.append(s_)
            for x in sorted(muts):
                states = at.get(x, {None})
                # on the "same" edge only a whole-result move into the parameter is fine (nothing of this is read afterwards)
                ok = all(s_ == "distinct" or (s_ == "same" and f.nodes[x]["k"] != "CXXMemberCallExpr" and f.nodes[x]["k"] != "CallExpr") for s_ in states)
                r.ob(f.sig, f.text(x)[:50], ok, "reached only where the parameter was found to be a different object (or as the final move of a finished result)" if ok else
                     "`%s` is written while this object is still to be read and nothing excludes `&%s == this`: v.%s(v, ...) destroys its own input" % (p["n"], p["n"], f.name), f.loc(x))
    return r


def rule_recursion_bound(ctx, m, file_suffix, rid="REC-bound", floor=1, known_ok=()):
    """REC-bound: the parsers recurse once per level of nesting in the TEXT they are given (a `[` inside a `[`, a `(` inside a
    `(`), so the depth of the machine stack is chosen by whoever wrote the text.  For every cycle of the call graph among the
    functions of one file that take the text (a pointer-to-const-character parameter): the cycle is cut by calls that pass
    `depth + k` (k > 0) for an integer parameter `depth` and are reached only on the true edge of `depth < CONST` /
    `depth <= CONST` -- i.e. removing those guarded, incrementing calls leaves no cycle.  Reported per strongly connected
    component with one offending call named."""
    from qlib import dataflow
    r = Rule(rid, "every recursion on the nesting of the text carries a depth that is compared with a constant before it recurses", floor=floor)
    fs = [f for f in m.functions if not f.inst and f.file.endswith(file_suffix) and f.cfg and
          any(p.get("ptr") and p.get("pconst") and "Char_T" in (p.get("t") or "") for p in f.params)]
    if not fs:
        r.broke("no text-taking function found in %s" % file_suffix)
        return r
    by_name = {}
    for f in fs:
        by_name.setdefault((f.q.rsplit("::", 1)[0], f.q.rsplit("::", 1)[-1]), []).append(f)
    idx = {id(f): f for f in fs}

    def guarded_increment(f, c, g):
        """call c in f (to g) passes P + k for an integer parameter P of f under the true edge of P < CONST"""
        args = f.call_args(c)
        for a in args:
            an = f.nodes[f.strip_casts(a)]
            while an["k"] == "ParenExpr":
                an = f.nodes[f.strip_casts(an["ch"][0])]
            if an["k"] == "BinaryOperator" and an["op"] == "+":
                l_, r_ = f.nodes[f.strip_casts(an["ch"][0])], an["ch"][1]
                k = f.const_value(r_)
                if l_["k"] == "DeclRefExpr" and k is not None and k > 0 and any(p["n"] == l_.get("n") and p.get("tk") in ("uint", "sint") for p in f.params):
                    pd = l_.get("d")
                    # a dominating branch  P < CONST / P <= CONST  taken on its true edge
                    for i in f.walk():
                        cn = f.nodes[i]
                        if cn["k"] == "BinaryOperator" and cn["op"] in ("<", "<=") and f.nodes[f.strip_casts(cn["ch"][0])].get("d") == pd and \
                                m.eval_nodes(f.nodes, f.strip_casts(cn["ch"][1])) is not None:
                            try:
                                if dataflow.dominated_by_branch(f, c, i, True):
                                    return True
                            except Exception:
                                pass
        return False
    edges = {}       # id(f) -> [(id(g), call, guarded)]
    for f in fs:
        ctx.note_fn(f)
        rec = f.q.rsplit("::", 1)[0]
        out = []
        for c in astq.calls(f):
            nm = f.call_simple_name(c)
            if not nm:
                continue
            # which record: an explicit qualifier  X<...>::name(  or a receiver object names it; otherwise the caller's own
            txt = f.text(c)
            head = txt.split("(", 1)[0]
            target = rec
            if "::" in head:
                qual = re.sub(r"<[^()]*>", "", head.rsplit("::", 1)[0]).split("::")[-1].strip()
                cands_rec = [k[0] for k in by_name if k[1] == nm and k[0].split("::")[-1] == qual]
                if not cands_rec:
                    continue
                target = cands_rec[0]
            elif f.nodes[c]["k"] == "CXXMemberCallExpr" or "." in head or "->" in head:
                rc = f.call_receiver(c)
                if rc is None and f.nodes[c].get("ch"):
                    # a dependent member call: the object is the first name below the callee expression
                    refs = [y for y in f.walk(f.nodes[c]["ch"][0]) if f.nodes[y]["k"] in ("DeclRefExpr", "CXXThisExpr")]
                    rc = refs[0] if refs else None
                if rc is not None and f.nodes[f.strip(rc)]["k"] != "CXXThisExpr":
                    rt = re.sub(r"<[^()]*>", "", f.nodes[f.strip(rc)].get("t") or "")
                    cands_rec = [k[0] for k in by_name if k[1] == nm and k[0].split("::")[-1] in re.findall(r"\w+", rt)]
                    if not cands_rec:
                        continue
                    target = cands_rec[0]
            cands = by_name.get((target, nm), [])
            na = len(f.call_args(c))
            exact = [g for g in cands if len(g.params) == na]
            for g in (exact or [g for g in cands if len(g.params) > na]):
                out.append((id(g), c, guarded_increment(f, c, g)))
        edges[id(f)] = out
    # strongly connected components of the graph WITHOUT the guarded edges (Tarjan)
    index, low, onst, st, comps = {}, {}, set(), [], []
    counter = [0]

    def strong(v):
        work = [(v, 0)]
        index[v] = low[v] = counter[0]
        counter[0] += 1
        st.append(v)
        onst.add(v)
        while work:
            v_, pi = work[-1]
            succ = [g for g, _, gd in edges[v_] if not gd]
            if pi < len(succ):
                work[-1] = (v_, pi + 1)
                w = succ[pi]
                if w not in index:
                    index[w] = low[w] = counter[0]
                    counter[0] += 1
                    st.append(w)
                    onst.add(w)
                    work.append((w, 0))
                elif w in onst:
                    low[v_] = min(low[v_], index[w])
            else:
                work.pop()
                if work:
                    low[work[-1][0]] = min(low[work[-1][0]], low[v_])
                if low[v_] == index[v_]:
                    comp = []
                    while True:
                        w = st.pop()
                        onst.discard(w)
                        comp.append(w)
                        if w == v_:
                            break
                    comps.append(comp)
    for f in fs:
        if id(f) not in index:
            strong(id(f))
    # all cycles of the full graph, for the count of what was looked at
    any_rec = False
    full_cyc = set()
    for f in fs:
        # reachable from f's successors back to f in the full graph?
        seen, work = set(), [g for g, _, _ in edges[id(f)]]
        while work:
            x = work.pop()
            if x in seen:
                continue
            seen.add(x)
            work.extend(g for g, _, _ in edges[x])
        if id(f) in seen:
            full_cyc.add(id(f))
    bad_fns = set()
    for comp in comps:
        cs = set(comp)
        cyc = len(comp) > 1 or any(g == comp[0] and not gd for g, _, gd in edges[comp[0]])
        if cyc:
            bad_fns |= cs
            names = sorted(idx[x].q.rsplit("::", 1)[-1] for x in comp)
            f0 = sorted((idx[x] for x in comp), key=lambda f_: f_.line)[0]
            off = [(idx[x], c) for x in comp for g, c, gd in edges[x] if g in cs and not gd]
            fo, co = sorted(off, key=lambda t: (t[0].line, t[1]))[0]
            r.ob(f0.q, "cycle " + " -> ".join(names), False,
                 "the call `%s` in %s recurses with no depth that is compared with a constant: a text nested deeply enough (one level per `[`, `{` or `(`) exhausts the stack"
                 % (fo.text(co)[:60], fo.q.rsplit("::", 1)[-1]), fo.loc(co))
    for x in sorted(full_cyc - bad_fns, key=lambda x_: idx[x_].line):
        f = idx[x]
        r.ob(f.q, "recursion through " + f.q.rsplit("::", 1)[-1], True, "every cycle through this function passes a call of depth + k guarded by depth < CONST", "Include/%s:%d" % (f.file.split("/Include/")[-1], f.line))
    if not full_cyc:
        r.broke("%s: no recursion among the text-taking functions was found (the parsers are known to recurse)" % file_suffix)
    return r


def rule_after_countdown(ctx, m, files, rid="ZERO-after", floor=1):
    """ZERO-after: `while (v != 0) { ... }` without a break leaves v == 0.  A later test of v (a comparison, or a mask with &)
    before v is assigned again is therefore a constant -- whatever it was meant to ask about the ORIGINAL count (its parity, its
    size) has to be asked before the loop consumed it ((-1.5)^3 came out positive when `num_right & 1` moved behind the
    square-and-multiply loop).  CFG: from the false edge of the loop condition, forward until an assignment of v."""
    r = Rule(rid, "a counter that a loop ran down to zero is not tested afterwards as if it still held the count", floor=floor)
    n_loops = 0
    for f in m.functions:
        if f.inst or not f.cfg or not any(f.file.endswith("/" + x) for x in files):
            continue
        blocks = f.blocks()
        par = f.parents()
        for w in astq.nodes_of(f, "WhileStmt"):
            cn = f.nodes[f.strip(f.nodes[w]["cond"])]
            v = None
            if cn["k"] == "BinaryOperator" and cn["op"] in ("!=", ">"):
                a_, b_ = f.nodes[f.strip_casts(cn["ch"][0])], cn["ch"][1]
                if a_["k"] == "DeclRefExpr" and a_.get("tk") in ("uint", "sint") and f.const_value(f.strip_casts(b_)) == 0 and (cn["op"] == "!=" or a_.get("tk") == "uint"):
                    v = a_
            if v is None or v.get("dk") not in ("var", "parm", "param", None):
                continue
            body = f.nodes[w].get("body", -1)
            # a break that leaves THIS loop: not decided
            def own_break(x):
                up = par.get(x)
                while up is not None and up != w:
                    if f.nodes[up]["k"] in ("WhileStmt", "DoStmt", "ForStmt", "SwitchStmt"):
                        return False
                    up = par.get(up)
                return up == w
            if any(f.nodes[x]["k"] in ("BreakStmt", "ReturnStmt", "GotoStmt") and (f.nodes[x]["k"] != "BreakStmt" or own_break(x)) and f.nodes[x]["k"] == "BreakStmt" for x in f.walk(body)):
                continue
            # modified in the loop?
            def writes_v(x):
                n_ = f.nodes[x]
                if n_["k"] == "UnaryOperator" and n_["op"] in ("++", "--"):
                    return f.nodes[f.strip(n_["ch"][0])].get("d") == v["d"]
                if n_["k"] in ("BinaryOperator", "CompoundAssignOperator") and n_.get("op", "").endswith("=") and n_["op"] not in ("==", "!=", "<=", ">="):
                    return f.nodes[f.strip(n_["ch"][0])].get("d") == v["d"]
                return False
            if not any(writes_v(x) for x in f.walk(body)):
                continue
            # exit edge
            exits = []
            cond_id = f.strip(f.nodes[w]["cond"])
            for b in blocks.values():
                for (s_, kind, payload) in dataflow.successors(f, b):
                    if kind == "false" and payload is not None and f.strip(payload) == cond_id:
                        exits.append(s_)
            if not exits:
                continue
            n_loops += 1
            ctx.note_fn(f)
            bad = None
            seen, work = set(), list(exits)
            while work and bad is None:
                bid = work.pop()
                if bid in seen:
                    continue
                seen.add(bid)
                killed = False
                for e in blocks[bid]["el"]:
                    x = e.get("n")
                    if not isinstance(x, int) or e.get("k"):
                        continue
                    if x in set(f.walk(w)):
                        # back inside the loop (an enclosing loop iterates): v is live again
                        killed = True
                        break
                    if writes_v(x):
                        killed = True
                        break
                    n_ = f.nodes[x]
                    if n_["k"] == "BinaryOperator" and n_["op"] in ("==", "!=", "<", "<=", ">", ">=", "&"):
                        for o in n_["ch"]:
                            on = f.nodes[f.strip_casts(o)]
                            while on["k"] == "ParenExpr":
                                on = f.nodes[f.strip_casts(on["ch"][0])]
                            if on["k"] == "DeclRefExpr" and on.get("d") == v["d"]:
                                bad = x
                    if bad is not None:
                        break
                if bad is not None or killed:
                    continue
                for (s_, k_, p_) in dataflow.successors(f, blocks[bid]):
                    work.append(s_)
            r.ob(f.q, "after `while (%s)`" % f.text(f.nodes[w]["cond"])[:40], bad is None, "%s is not tested again before it is assigned" % v["n"] if bad is None else
                 "`%s` is evaluated after the loop ran %s down to zero: it is a constant there, not a statement about the count the loop started with"
                 % (f.text(bad)[:60], v["n"]), f.loc(bad) if bad is not None else f.loc(w))
    if n_loops == 0:
        r.broke("no count-down loop found in %s" % ", ".join(files))
    return r


def rule_scanner_result(ctx, m, files, rid="ERR-scan", floor=2):
    """ERR-scan: the scanners of this code base report "the text here is not what I was asked to read" through a bool result
    while they move the caller's cursor (a by-reference integer parameter).  A caller that throws the result away accepts whatever
    the scanner stopped at ("0e" and "0e+" became numbers once the result of parseExponent was ignored for a zero mantissa).
    Rule: every call of a bool-returning function of these files that takes a cursor by non-const reference is used: it is not an
    expression statement of its own and not cast to void."""
    r = Rule(rid, "the bool result of a scanner that moves the caller's cursor is never discarded", floor=floor)
    scanners = {}
    for g in m.functions:
        if g.inst or not any(g.file.endswith("/" + x) for x in files):
            continue
        if (g.d.get("ret") or "").strip() != "bool":
            continue
        if any(p_.get("ref") and not p_.get("pconst") and p_.get("tk") in ("uint", "sint") and "const" not in (p_.get("t") or "") for p_ in g.params):
            scanners.setdefault(g.name.split("<")[0], []).append(g)
    if not scanners:
        r.broke("no bool scanner with a by-reference cursor found in %s" % ", ".join(files))
        return r
    for f in m.functions:
        if f.inst or not f.cfg or not any(f.file.endswith("/" + x) for x in files):
            continue
        par = f.parents()
        for c in astq.calls(f):
            nm = f.call_simple_name(c)
            if nm not in scanners or not any(len(g.params) >= len(f.call_args(c)) for g in scanners[nm]):
                continue
            ctx.note_fn(f)
            up, child = par.get(c), c
            while up is not None and f.nodes[up]["k"] in ("ParenExpr", "ImplicitCastExpr", "ExprWithCleanups"):
                child, up = up, par.get(up)
            un = f.nodes[up] if up is not None else None
            discarded = un is None or un["k"] in ("CompoundStmt",) or \
                (un["k"] in ("IfStmt", "WhileStmt", "ForStmt", "DoStmt") and child != f.strip(un.get("cond", -1)) and child != un.get("cond", -1) and child in (un.get("then"), un.get("else"), un.get("body"), un.get("inc"), un.get("init"))) or \
                (un["k"] in ("CStyleCastExpr", "CXXStaticCastExpr", "CXXFunctionalCastExpr") and "void" in (un.get("t") or "")) or \
                un["k"] in ("CaseStmt", "DefaultStmt", "LabelStmt")
            r.ob(f.q, f.text(c)[:60], not discarded, "the result is used (%s)" % un["k"] if not discarded else
                 "the result of %s is thrown away: the caller goes on with whatever the scanner stopped at" % nm, f.loc(c))
    return r


def rule_pointer_follow(ctx, m, rid="PTR-follow", floor=30):
    """PTR-follow: a Value of kind ValuePtr stands for the value it points to, and that value may be a pointer again.  Every
    public member of Value answers for a pointer by asking the pointee -- `value_->m(...)` -- and the answer is only right for a
    chain of pointers when m follows pointers itself.  Sibling cross-check over all delegations through value_: the member called
    on the pointee has a ValuePtr case of its own (its body reads value_), or is the caller itself.  (IsUndefined() asked the
    one-level private predicate: a member pointing to a pointer to an Undefined value was stringified as `"b":,`.)"""
    r = Rule(rid, "what a Value asks of its pointee follows pointers as well", floor=floor)
    members = {}
    for g in m.functions:
        if not g.inst and g.cls == "Qentem::Value":
            members.setdefault(g.name.split("<")[0], []).append(g)

    def follows(name):
        gs = members.get(name, [])
        return bool(gs) and all(any(g.nodes[x].get("n") == "value_" for x in g.walk()) for g in gs if g.cfg)
    for f in m.functions:
        if f.inst or f.cls != "Qentem::Value" or not f.cfg or f.d.get("access") not in ("public", None):
            continue
        for c in astq.calls(f):
            rc = f.call_receiver(c)
            base = None
            if rc is not None:
                base = f.nodes[f.strip(rc)].get("n")
            else:
                head = f.text(c).split("(", 1)[0]
                if "value_->" in head.replace(" ", "") or "value_." in head:
                    base = "value_"
            if base != "value_":
                continue
            nm = (f.call_simple_name(c) or "").split("<")[0]
            if not nm or nm not in members:
                continue
            ctx.note_fn(f)
            ok = nm == f.name.split("<")[0] or follows(nm)
            r.ob(f.sig, f.text(c)[:50], ok, "%s follows pointers itself" % nm if ok else
                 "%s looks at the pointee's own kind only: for a pointer to a pointer the answer is about the inner pointer, not about the value (a member pointing to a pointer to an Undefined value is stringified as `\"b\":,`)" % nm, f.loc(c))
    return r


def shared(ctx, module, rids):
    """Rules of another property's module that state a necessary condition of this property as well (a seeded change to this
    property was reported by them): the other module is run on the same models and the named rules are taken over unchanged,
    with their floors.  Not nested: a module that is itself being borrowed from does not borrow."""
    if getattr(ctx, "_sharing", False):
        return []
    import importlib
    ctx._sharing = True
    try:
        mod = importlib.import_module("rules." + module)
        out = [r_ for r_ in (mod.run(ctx) or []) if r_.rid in rids]
    finally:
        ctx._sharing = False
    return out
