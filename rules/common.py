"""Rules shared by several properties."""
from qlib import astq
from qlib.report import Rule


def rule_narrow_units(ctx, m, files, rid="NARROW-unit"):
    """A value derived from a code unit (Char_T) must not be cast to an 8/16-bit integer: for char16_t/char32_t/
    wchar_t the cast discards the high bits before any range test, so distinct characters collapse (the library's
    behaviour must be the same for every character width)."""
    r = Rule(rid, "no code-unit-derived value is narrowed below 32 bits (behaviour must not depend on the character width)", floor=0)
    scanned = 0
    for f in m.functions:
        if f.inst or not any(f.file.endswith(x) for x in files):
            continue
        scanned += 1
        for i in f.walk():
            n = f.nodes[i]
            if n["k"] in ("CXXFunctionalCastExpr", "CXXStaticCastExpr", "CStyleCastExpr", "CXXUnresolvedConstructExpr") and \
                    n.get("tw") in (8, 16) and n.get("tk") in ("uint", "sint"):
                sub = [f.nodes[x] for x in f.walk(i) if x != i]
                if any("Char_T" in (x.get("t") or "") for x in sub):
                    r.ob(f.q, f.text(i), False, "code unit narrowed to %d bits: wide characters whose low bits match are confused" % n["tw"], f.loc(i))
        # declarations of 8/16-bit locals initialised from a code unit without a cast
        for i in astq.nodes_of(f, "DeclStmt"):
            for d in f.nodes[i]["decls"]:
                if d.get("tk") in ("uint", "sint") and d.get("init", -1) >= 0 and ("SizeT8" in d["t"] or "SizeT16" in d["t"] or d["t"].replace("const ", "") in ("char", "unsigned char", "short", "unsigned short")):
                    sub = [f.nodes[x] for x in f.walk(d["init"])]
                    if any("Char_T" in (x.get("t") or "") for x in sub):
                        r.ob(f.q, f.text(i), False, "code unit stored in a %s: wide characters whose low bits match are confused" % d["t"], f.loc(i))
    r.notes.append("%d function definitions scanned in %s" % (scanned, ", ".join(files)))
    if scanned == 0:
        r.broke("no function scanned")
    # keep a positive instance count for evidence: one obligation per file scanned
    for x in files:
        r.ob("(scan)", x, True, "no narrowing cast of a code unit found" , x, nontrivial=False)
    return r


def rule_finder_all_words(ctx, m):
    r = Rule("PR-finder-words", "Finder::Next tries every word of the group: no early exit from the word loop except a match", floor=1)
    f = m.fn("Qentem::Finder::Next")
    dos = astq.nodes_of(f, "DoStmt")
    if len(dos) != 1:
        r.broke("expected one do-while over the words of a group, found %d" % len(dos))
        return r
    bad = []
    for b in astq.nodes_of(f, ("BreakStmt", "GotoStmt"), f.nodes[dos[0]]["body"]):
        enc = astq.enclosing(f, b, ("DoStmt", "WhileStmt", "ForStmt", "SwitchStmt"))
        if enc == dos[0]:
            bad.append(f.loc(b))
    r.ob(f.q, "word loop exits", not bad, "early exit at %s skips the remaining words of the group" % bad if bad else "only `return` on a match or the loop condition leave the loop", f.loc(dos[0]))
    cond = f.text(f.nodes[dos[0]]["cond"])
    r.ob(f.q, "word loop condition", "group_count" in cond and "++id" in cond, "condition `%s` walks all group_count entries" % cond, f.loc(dos[0]), nontrivial=False)
    return r
