import re
"""Rules shared by several properties."""
from qlib import astq
from qlib.report import Rule


def rule_narrow_units(ctx, m, files, rid="NARROW-unit"):
    """A value derived from a code unit (Char_T) must not be cast to an 8/16-bit integer: for char16_t/char32_t/
    wchar_t the cast discards the high bits before any range test, so distinct characters collapse (the library's
    behaviour must be the same for every character width)."""
    r = Rule(rid, "no code-unit-derived value is narrowed below 32 bits (behaviour must not depend on the character width)", floor=0)
    scanned = 0
    for f in m.functions:
        if f.inst or not any(f.file.endswith(x) for x in files):
            continue
        scanned += 1
        for i in f.walk():
            n = f.nodes[i]
            if n["k"] in ("CXXFunctionalCastExpr", "CXXStaticCastExpr", "CStyleCastExpr", "CXXUnresolvedConstructExpr") and \
                    n.get("tw") in (8, 16) and n.get("tk") in ("uint", "sint"):
                sub = [f.nodes[x] for x in f.walk(i) if x != i]
                if any("Char_T" in (x.get("t") or "") for x in sub):
                    r.ob(f.q, f.text(i), False, "code unit narrowed to %d bits: wide characters whose low bits match are confused" % n["tw"], f.loc(i))
        # declarations of 8/16-bit locals initialised from a code unit without a cast
        for i in astq.nodes_of(f, "DeclStmt"):
            for d in f.nodes[i]["decls"]:
                if d.get("tk") in ("uint", "sint") and d.get("init", -1) >= 0 and ("SizeT8" in d["t"] or "SizeT16" in d["t"] or d["t"].replace("const ", "") in ("char", "unsigned char", "short", "unsigned short")):
                    sub = [f.nodes[x] for x in f.walk(d["init"])]
                    if any("Char_T" in (x.get("t") or "") for x in sub):
                        r.ob(f.q, f.text(i), False, "code unit stored in a %s: wide characters whose low bits match are confused" % d["t"], f.loc(i))
    r.notes.append("%d function definitions scanned in %s" % (scanned, ", ".join(files)))
    if scanned == 0:
        r.broke("no function scanned")
    # keep a positive instance count for evidence: one obligation per file scanned
    for x in files:
        r.ob("(scan)", x, True, "no narrowing cast of a code unit found" , x, nontrivial=False)
    return r


def rule_finder_all_words(ctx, m):
    r = Rule("PR-finder-words", "Finder::Next tries every word of the group: no early exit from the word loop except a match", floor=1)
    f = m.fn("Qentem::Finder::Next")
    dos = astq.nodes_of(f, "DoStmt")
    if len(dos) != 1:
        r.broke("expected one do-while over the words of a group, found %d" % len(dos))
        return r
    bad = []
    for b in astq.nodes_of(f, ("BreakStmt", "GotoStmt"), f.nodes[dos[0]]["body"]):
        enc = astq.enclosing(f, b, ("DoStmt", "WhileStmt", "ForStmt", "SwitchStmt"))
        if enc == dos[0]:
            bad.append(f.loc(b))
    r.ob(f.q, "word loop exits", not bad, "early exit at %s skips the remaining words of the group" % bad if bad else "only `return` on a match or the loop condition leave the loop", f.loc(dos[0]))
    cond = f.text(f.nodes[dos[0]]["cond"])
    r.ob(f.q, "word loop condition", "group_count" in cond and "++id" in cond, "condition `%s` walks all group_count entries" % cond, f.loc(dos[0]), nontrivial=False)
    return r


def rule_copy_kind(ctx, m):
    """X-copykind: copying a tag record keeps its kind.  The copy constructor of TagBit takes the discriminant from the source in
    its initialiser list; an arm that (re)sets it -- directly or through a Make<K>Tag() helper, whose kind is read from the
    helper's own body -- may only do so to the kind of every label of that arm (a shared Variable/RawVariable arm must not call
    MakeVariableTag: a copied {raw:} tag would be rendered escaped)."""
    r = Rule("X-copykind", "the copy of a tag record has the kind of its source in every arm", floor=6)
    makers = {}
    for f in m.functions:
        if f.inst or f.cls != "Qentem::Tags::TagBit" or not (f.name.startswith("Make") and f.name.endswith("Tag")):
            continue
        for i in astq.nodes_of(f, "BinaryOperator"):
            n = f.nodes[i]
            if n["op"] == "=" and f.text(n["ch"][0]).replace("this.", "") == "type_":
                makers[f.name] = f.text(n["ch"][1]).split("::")[-1]
    cc = [f for f in m.functions if not f.inst and f.cls == "Qentem::Tags::TagBit" and f.kind == "copyctor"]
    if len(cc) != 1 or len(makers) < 7:
        r.broke("TagBit copy constructor / Make*Tag helpers not found (%d, %d)" % (len(cc), len(makers)))
        return r
    f = cc[0]
    ctx.note_fn(f)
    inits = {i_["field"]: f.text(i_["n"]) for i_ in (f.d.get("inits") or []) if i_.get("n", -1) >= 0}
    from_src = "type_" in inits and inits["type_"].replace(" ", "").strip("{}()") .endswith(".type_")
    sws = astq.nodes_of(f, "SwitchStmt")
    if len(sws) != 1:
        r.broke("TagBit copy constructor: expected one switch over the source kind")
        return r
    for labels, stmts in astq.switch_arms(f, sws[0]):
        names = [(l[0] or "").split("::")[-1] for l in labels]
        if "default" in names:
            continue
        sets = []
        for s_ in stmts:
            for c in astq.calls(f, None, s_):
                nm = f.call_simple_name(c)
                if nm in makers:
                    sets.append(makers[nm])
            for i in astq.nodes_of(f, "BinaryOperator", s_):
                n = f.nodes[i]
                if n["op"] == "=" and f.text(n["ch"][0]).replace("this.", "") == "type_":
                    t = f.text(n["ch"][1])
                    sets.append("src" if t.replace(" ", "").endswith(".type_") else t.split("::")[-1])
        if not sets:
            ok = from_src
            why = "kind taken from the source in the initialiser list (%s)" % inits.get("type_", "MISSING")
        else:
            ok = all(x == "src" or names == [x] for x in sets)
            why = "arm sets the kind to %s for the labels %s" % (sorted(set(sets)), names)
        r.ob(f.q, "case " + ",".join(names), ok, why, f.loc(stmts[0]) if stmts else "Include/Tags.hpp:%d" % f.line)
    return r


def rule_case_pairs(ctx, m, files=("Digit.hpp",), pairs=(("E", "UE"),)):
    """TB-casepair: RFC 8259 writes the exponent marker as e / E.  Wherever the number scanner tests one spelling of a
    case-insensitive marker (a case label of a switch arm, or an equality inside a condition) it tests the other one in the
    same arm / the same condition."""
    r = Rule("TB-casepair", "a test for one spelling of a case-insensitive marker (e/E) also tests the other", floor=3)

    def marker(fn, nid):
        n = fn.nodes[fn.strip_casts(nid)]
        nm = n.get("n") or ""
        t = fn.text(fn.strip_casts(nid))
        if "DigitChar" in t or "DigitChar" in (n.get("q") or ""):
            return (nm or t).split("::")[-1]
        return None
    for f in m.functions:
        if f.inst or not any(f.file.endswith("/" + x) for x in files):
            continue
        tests = []
        for sw in astq.nodes_of(f, "SwitchStmt"):
            for labels, stmts in astq.switch_arms(f, sw):
                names = set((l[0] or "").split("::")[-1] for l in labels)
                tests.append((names, stmts[0] if stmts else sw, "switch arm"))
        for i in f.walk():
            n = f.nodes[i]
            if n["k"] == "BinaryOperator" and n["op"] in ("==", "!="):
                mk = marker(f, n["ch"][1]) or marker(f, n["ch"][0])
                if mk is None:
                    continue
                # the whole condition this comparison belongs to
                top = i
                par = f.parents()
                while par.get(top) is not None and f.nodes[par[top]]["k"] in ("ParenExpr", "BinaryOperator") and \
                        (f.nodes[par[top]]["k"] == "ParenExpr" or f.nodes[par[top]]["op"] in ("||", "&&")):
                    top = par[top]
                names = set()
                for x in f.walk(top):
                    nx = f.nodes[x]
                    if nx["k"] == "BinaryOperator" and nx["op"] in ("==", "!="):
                        mm = marker(f, nx["ch"][1]) or marker(f, nx["ch"][0])
                        if mm:
                            names.add(mm)
                if (names, top) not in [(t[0], t[1]) for t in tests]:
                    tests.append((names, top, "condition"))
        for (names, where, what) in tests:
            for (lo, up) in pairs:
                if (lo in names) != (up in names):
                    ctx.note_fn(f)
                    r.ob(f.q, "%s testing %s" % (what, sorted(names & {lo, up})), False, "%s is tested without %s: the other spelling of the marker is treated as a foreign character" % (
                        lo if lo in names else up, up if lo in names else lo), f.loc(where))
                elif lo in names:
                    ctx.note_fn(f)
                    r.ob(f.q, "%s testing %s/%s" % (what, lo, up), True, "both spellings are tested together", f.loc(where))
    return r


def rule_stream_past(ctx, m, files=("Digit.hpp",)):
    """ZB-past: raw accesses to a stream's buffer (stream.Storage()[i], *p with p walking the buffer) in the number formatter.
    The formatter's index arithmetic is beyond what the difference-bound domain can *prove* in range, so this rule reports only
    the converse: an access for which some path establishes index >= stream.Length() (one step of path sensitivity at the join
    in front of the access).  Such an access lies outside the content of the stream -- and outside its allocation when the stream
    is full.  First()/Last()/End() are read as Storage(), Storage() + Length() - 1, Storage() + Length()."""
    from qlib.zone import ContractTable, Contract
    from qlib import zonecheck
    from tables.contracts import CONTRACTS
    r = Rule("ZB-past", "no raw access to the stream's buffer is provably at or beyond Length(), or in front of the number being formatted, on some path", floor=10)
    for f in m.functions:
        if f.inst or not f.cfg or not any(f.file.endswith("/" + x) for x in files):
            continue
        ps = [p for p in f.params if p.get("ref") and ("Stream" in p["t"]) and not p.get("pconst")]
        if not ps:
            continue
        tab = dict(CONTRACTS)
        bufs = {}
        for p in ps:
            bufs["x:%s.Storage()" % p["n"]] = "%s.Length()" % p["n"]
        lows = {}
        if any(p_["n"] == "started_at" for p_ in f.params):
            for p_ in ps:
                lows["x:%s.Storage()" % p_["n"]] = "started_at"
        tab[f.q + "/%d" % len(f.params)] = Contract(buffers=bufs, accessor_model="Length", lower_bounds=lows)
        try:
            obs, stats, _ = zonecheck.analyse(m, f, ContractTable(tab))
        except Exception as e:   # noqa
            r.broke("%s: %s" % (f.q, str(e)[:200]))
            continue
        n_acc = 0
        for o in obs:
            if o.rule != "ZB-read":
                continue
            n_acc += 1
            ctx.note_fn(f)
            past = bool(o.detail.get("past"))
            below = bool(o.detail.get("below"))
            r.ob(f.sig, o.construct, not (past or below), ("index is proven >= Length() on a path: " + o.why) if past else
                 (("the access lies in front of the number being formatted (what the stream held before the call): " + o.why) if below else
                  "no path proves the index outside [started_at, Length()) (in-range not decided)"), o.loc, nontrivial=past or below)
    return r


def rule_out_params(ctx, m, files):
    """OUT-def: an arm of a kind dispatch (if (type == K) / isK() / switch (Type())) that assigns a reference-to-pointer
    out-parameter on some path assigns it on every path through that arm.  A caller that keeps the slot across calls -- the loop
    item of the renderer -- would otherwise see the pointer stored by the previous call (possibly into a destroyed working copy).
    Structural definite assignment: a statement list assigns if one of its statements does before any return; an if assigns if
    both branches do; handing the reference to a callee that assigns it counts."""
    r = Rule("OUT-def", "a kind arm that assigns a pointer out-parameter assigns it on every path through the arm", floor=3)
    for f in m.functions:
        if f.inst or not f.cfg or not any(f.file.endswith("/" + x) for x in files):
            continue
        outs = [p for p in f.params if p.get("ref") and not p.get("rref") and p["t"].replace(" ", "").endswith("*&")]
        if not outs:
            continue

        def mentions_assign(root, p):
            for x in f.walk(root):
                n = f.nodes[x]
                if n["k"] == "BinaryOperator" and n["op"] == "=" and f.nodes[f.strip(n["ch"][0])].get("d") == p["d"]:
                    return True
                if n["k"] in ("CallExpr", "CXXMemberCallExpr") and any(f.nodes[f.strip(a)].get("d") == p["d"] and f.nodes[f.strip(a)]["k"] == "DeclRefExpr" for a in f.call_args(x)):
                    return True
            return False

        def da(st, p):
            n = f.nodes[st]
            k = n["k"]
            if k == "CompoundStmt":
                for c in n.get("ch", []):
                    if f.nodes[c]["k"] == "ReturnStmt":
                        return mentions_assign(c, p)
                    if da(c, p):
                        return True
                return False
            if k == "IfStmt":
                return n["else"] >= 0 and da(n["then"], p) and da(n["else"], p)
            if k in ("WhileStmt", "ForStmt", "DoStmt", "SwitchStmt"):
                return False if k != "DoStmt" else da(n["body"], p)
            return mentions_assign(st, p)

        def is_kind_test(cond):
            t = f.text(cond).replace(" ", "")
            return bool(re.search(r"(type|Type\(\))(==|!=)|\bis[A-Z]\w*\(\)|\bIs[A-Z]\w*\(\)", t))
        for p in outs:
            # the out-parameter whose null-ness tells the caller "nothing here": the function stores nullptr in it somewhere
            signals = False
            for x in astq.nodes_of(f, "BinaryOperator"):
                n = f.nodes[x]
                if n["op"] == "=" and f.nodes[f.strip(n["ch"][0])].get("d") == p["d"] and \
                        any(f.nodes[y]["k"] in ("CXXNullPtrLiteralExpr", "GNUNullExpr") for y in f.walk(n["ch"][1])):
                    signals = True
            forwarded = any(f.nodes[f.strip(a)].get("d") == p["d"] for c in astq.calls(f) for a in f.call_args(c))
            if not signals:
                continue
            arms = []
            for i_ in astq.nodes_of(f, "IfStmt"):
                n = f.nodes[i_]
                if is_kind_test(n["cond"]):
                    arms.append((n["then"], f.text(n["cond"])[:40]))
                    if n["else"] >= 0 and f.nodes[n["else"]]["k"] != "IfStmt":
                        arms.append((n["else"], "else of " + f.text(n["cond"])[:34]))
            for sw in astq.nodes_of(f, "SwitchStmt"):
                if "Type" in f.text(f.nodes[sw]["cond"]) or "type" in f.text(f.nodes[sw]["cond"]):
                    for labels, stmts in astq.switch_arms(f, sw):
                        for s_ in stmts:
                            arms.append((s_, "case " + ",".join((l[0] or "").split("::")[-1] for l in labels)))
            for (arm, label) in arms:
                if not mentions_assign(arm, p):
                    continue
                ctx.note_fn(f)
                ok = da(arm, p)
                r.ob(f.sig, "`%s` in the arm `%s`" % (p["n"], label), ok, "assigned on every path through the arm" if ok else
                     "some path through this arm leaves `%s` as the previous call left it (for the renderer's loop slot: a pointer into data "
                     "that may be gone)" % p["n"], f.loc(arm))
    return r


NULL_FIRST_EXCEPTIONS = {
    ("Qentem::TemplateCore::parse", "tag_bit"): "the parent level's storage received the opening tag just before it was pushed on the parent stack, so Last() exists",
    ("Qentem::Value::Compress", "src_val"): "reached only with size != 0, which was counted over the same array",
}


def rule_null_first(ctx, m, files):
    """NULL-first: First() / Last() / Storage() of another container is null when that container is empty (or never allocated).
    A local pointer initialised from such a call is dereferenced (->, *, [i]) only where a dominating branch excludes null:
    a test of the pointer against nullptr, a comparison of the pointer with another pointer (the end of the same range: for
    an empty container both are null and the comparison fails), or a non-emptiness / size test of that container.  Sites that
    rest on a data-structure invariant are listed with their reason (NULL_FIRST_EXCEPTIONS)."""
    from qlib import dataflow
    r = Rule("NULL-first", "a pointer taken from First()/Last()/Storage() of another container is dereferenced only where null is excluded", floor=40)
    SRC = {"First", "Last", "Storage"}
    for f in m.functions:
        if f.inst or not f.cfg or not any(f.file.endswith("/" + x) for x in files):
            continue
        srcs = {}
        for st_ in astq.nodes_of(f, "DeclStmt"):
            for d in f.nodes[st_]["decls"]:
                if d.get("tk") == "ptr" and d.get("init", -1) >= 0 and "d" in d:
                    i0 = f.strip_casts(d["init"])
                    n0 = f.nodes[i0]
                    if n0["k"] in ("CallExpr", "CXXMemberCallExpr") and f.call_simple_name(i0) in SRC and not f.call_args(i0) and f.call_receiver(i0) is not None:
                        srcs[d["d"]] = (d["n"], f.text(f.call_receiver(i0)))
        if not srcs:
            continue
        par = f.parents()
        conds = [b.get("cond") for b in f.cfg["blocks"] if b.get("cond") is not None]
        for i in f.walk():
            n = f.nodes[i]
            if n["k"] != "DeclRefExpr" or n.get("d") not in srcs:
                continue
            p = par.get(i)
            while p is not None and f.nodes[p]["k"] in ("ImplicitCastExpr", "ParenExpr"):
                p = par.get(p)
            pn = f.nodes[p] if p is not None else {}
            deref = (pn.get("k") in ("MemberExpr", "CXXDependentScopeMemberExpr") and pn.get("arrow")) or \
                (pn.get("k") == "UnaryOperator" and pn.get("op") == "*") or \
                (pn.get("k") == "ArraySubscriptExpr" and f.strip(pn["ch"][0]) == f.strip(i))
            if not deref:
                continue
            ctx.note_fn(f)
            name, cont = srcs[n["d"]]
            how = None
            for c in conds:
                t = f.text(c).replace(" ", "")
                if "%s!=nullptr" % name in t and dataflow.dominated_by_branch(f, i, c, True):
                    how = "dominated by `%s != nullptr`" % name
                elif "%s==nullptr" % name in t and dataflow.dominated_by_branch(f, i, c, False):
                    how = "dominated by the false edge of `%s == nullptr`" % name
                elif re.search(r"(?<![\w.>])%s(<|!=|<=)" % re.escape(name), t) and "nullptr" not in t and dataflow.dominated_by_branch(f, i, c, True):
                    how = "dominated by the range test `%s`" % f.text(c)[:40]
                elif (cont + ".IsNotEmpty()" in t or re.search(re.escape(cont) + r"\.(Size|Length)\(\)(!=0|>)", t)) and dataflow.dominated_by_branch(f, i, c, True):
                    how = "dominated by a non-emptiness test of `%s`" % cont
                if how:
                    break
            exc = NULL_FIRST_EXCEPTIONS.get((f.q, name))
            if how is None and exc:
                r.ob(f.q, "%s at %s" % (f.text(par.get(p, p))[:40], f.loc(i)), True, "rests on an invariant: " + exc, f.loc(i), nontrivial=False)
                continue
            r.ob(f.q, f.text(par.get(p, p))[:50], how is not None, how or ("`%s` comes from %s.%s and is null when that container is empty; nothing on the way here excludes it" % (
                name, cont, "First()/Last()/Storage()")), f.loc(i))
    return r


def rule_equal_lengths(ctx, m):
    """SB-eqlen: StringUtils::IsEqual(a, b, n) compares n units; the equality members of String / StringView / StringStream
    may call it only in conjunction with an *equality* of the two lengths (with >= it answers "starts with", and every key
    comparison built on it -- hash-table lookups, GroupBy's key test -- accepts keys that merely share a prefix)."""
    r = Rule("SB-eqlen", "the equality members compare contents only after an equality test of the two lengths", floor=8)
    for f in m.functions:
        if f.inst or f.cls not in ("Qentem::String", "Qentem::StringView", "Qentem::StringStream"):
            continue
        for c in astq.calls(f, "IsEqual"):
            if len(f.call_args(c)) != 3 or f.call_receiver(c) is not None:
                continue
            ctx.note_fn(f)
            top = c
            par = f.parents()
            while par.get(top) is not None and (f.nodes[par[top]]["k"] in ("ParenExpr", "ImplicitCastExpr") or (f.nodes[par[top]]["k"] == "BinaryOperator" and f.nodes[par[top]]["op"] == "&&")):
                top = par[top]
            eqs = [x for x in f.walk(top) if f.nodes[x]["k"] == "BinaryOperator" and f.nodes[x]["op"] == "==" and "Length()" in f.text(x) and c not in set(f.walk(x))]
            rel = [f.text(x) for x in f.walk(top) if f.nodes[x]["k"] == "BinaryOperator" and f.nodes[x]["op"] in ("<", "<=", ">", ">=") and "Length()" in f.text(x)]
            r.ob(f.sig, f.text(top)[:80], bool(eqs) and not rel, "lengths compared with %s" % ("==" if eqs and not rel else (rel or "nothing") ), f.loc(c))
    return r


def rule_inline_if_ranges(ctx, m):
    """PR-subrange: the renderer prints the sub-tags of an inline-if as part of its true or false value and computes slice lengths
    as differences of tag offsets; a sub-tag outside both values (another attribute, text after the values) or offsets that do not
    fit the record's 16-bit fields make such a difference wrap (a heap overflow in StringStream::Write).  In the code that completes
    an inline-if record, (a) a value derived from each sub-tag's offsets is compared with bounds derived from TrueOffset/TrueLength
    and from FalseOffset/FalseLength, (b) the span of the tag is compared with the 16-bit limit, and (c) the record is dropped
    (storage->Drop) on a path of that code.  Decided by taint flow inside the arm, not by the text of the comparisons."""
    r = Rule("PR-subrange", "an inline-if record is kept only if its span fits 16 bits and every sub-tag lies inside the true or the false value", floor=3)
    pf = m.fn("Qentem::TemplateCore::parse")
    ctx.note_fn(pf)
    arm = None
    for sw in astq.nodes_of(pf, "SwitchStmt"):
        for labels, stmts in astq.switch_arms(pf, sw):
            if [(l[0] or "").split("::")[-1] for l in labels] == ["InLineIf"] and "GetType" in pf.text(pf.nodes[sw]["cond"]):
                if any(astq.calls(pf, "GetInLineIfTag", s_) for s_ in stmts):
                    arm = stmts
    if arm is None:
        r.broke("parse: the code that completes an inline-if record (case TagType::InLineIf under the tag-end match) was not found")
        return r
    nodes = [x for s_ in arm for x in pf.walk(s_)]
    decls = {}
    for x in nodes:
        if pf.nodes[x]["k"] == "DeclStmt":
            for d in pf.nodes[x]["decls"]:
                if "d" in d and d.get("init", -1) >= 0:
                    decls[d["d"]] = d
    assigns = [(pf.nodes[x]["ch"][0], pf.nodes[x]["ch"][1]) for x in nodes if pf.nodes[x]["k"] == "BinaryOperator" and pf.nodes[x]["op"] == "="]

    def derived(seed_fields, via_subtag=False):
        """decl ids of locals whose value derives from member accesses named in seed_fields"""
        def mentions(nid, tainted):
            for y in pf.walk(nid):
                n = pf.nodes[y]
                if n["k"] in ("MemberExpr", "CXXDependentScopeMemberExpr") and n.get("n") in seed_fields:
                    base_t = pf.text(n["ch"][0]) if n.get("ch") else ""
                    is_sub = "GetVariableTag()" in base_t or "GetMathTag()" in base_t or any(pf.nodes[z].get("d") in sub_refs for z in pf.walk(y))
                    if via_subtag == is_sub:
                        return True
                if n["k"] == "DeclRefExpr" and n.get("d") in tainted:
                    return True
            return False
        tainted = set()
        changed = True
        while changed:
            changed = False
            for did, d in decls.items():
                if did not in tainted and mentions(d["init"], tainted):
                    tainted.add(did)
                    changed = True
            for (lhs, rhs) in assigns:
                ln = pf.nodes[pf.strip(lhs)]
                if ln["k"] == "DeclRefExpr" and ln.get("d") not in tainted and mentions(rhs, tainted):
                    tainted.add(ln["d"])
                    changed = True
        return tainted, mentions
    # references to sub-tag records: locals initialised from Get*Tag() of a pointer walking SubTags
    sub_refs = set(did for did, d in decls.items() if any(pf.call_simple_name(c) in ("GetVariableTag", "GetMathTag") for c in astq.calls(pf, None, d["init"])))
    t_sub, men_sub = derived({"Offset", "EndOffset", "Length"}, via_subtag=True)
    t_true, men_true = derived({"TrueOffset", "TrueLength"})
    t_false, men_false = derived({"FalseOffset", "FalseLength"})
    cmps = [x for x in nodes if pf.nodes[x]["k"] == "BinaryOperator" and pf.nodes[x]["op"] in ("<", "<=", ">", ">=")]

    def side_in(nid, tainted, men):
        return men(nid, tainted)
    pairs_true = [x for x in cmps if any(side_in(a, t_sub, men_sub) for a in pf.nodes[x]["ch"]) and any(side_in(a, t_true, men_true) for a in pf.nodes[x]["ch"])]
    pairs_false = [x for x in cmps if any(side_in(a, t_sub, men_sub) for a in pf.nodes[x]["ch"]) and any(side_in(a, t_false, men_false) for a in pf.nodes[x]["ch"])]
    drops = [c for c in nodes if pf.nodes[c]["k"] in ("CallExpr", "CXXMemberCallExpr") and pf.call_simple_name(c) == "Drop"]
    where = pf.loc(arm[0])
    r.ob(pf.q, "sub-tags against the true value", len(pairs_true) >= 2 and bool(drops), "%d comparison(s) relate a sub-tag's offsets to bounds derived from TrueOffset/TrueLength%s" % (
        len(pairs_true), "" if len(pairs_true) >= 2 else ": a sub-tag outside the value is rendered with a wrapped slice length"), where)
    r.ob(pf.q, "sub-tags against the false value", len(pairs_false) >= 2 and bool(drops), "%d comparison(s) relate a sub-tag's offsets to bounds derived from FalseOffset/FalseLength" % len(pairs_false), where)
    wide = []
    for x in cmps:
        for a, b in (pf.nodes[x]["ch"], pf.nodes[x]["ch"][::-1]):
            bv = m.eval_nodes(pf.nodes, pf.strip_casts(b))
            if bv in (0xFFFF, 0x10000, 65535, 65536) and "Offset" in pf.text(a):
                wide.append(x)
    r.ob(pf.q, "span fits the 16-bit fields", bool(wide) and bool(drops), "%s" % ("the span of the tag is compared with the 16-bit limit" if wide else
         "nothing compares the span of the tag with 65535 before it is stored in SizeT16 fields: the offsets of a longer tag are truncated"), where)
    return r
