"""PROG: every cursor-controlled loop of the scanners makes progress on every iteration (termination clause).

For a loop whose condition contains an atom  lo < hi  (or lo <= hi, hi > lo, lo != hi with lo <= hi known) the measure is
hi - lo.  E-ZONE is run with two ghost terms per loop that are set to lo and hi at the start of every iteration; on every CFG
edge that returns to the loop head (the natural back edge and every `continue`) the state must prove
        lo >= ghost_lo + 1 and hi <= ghost_hi      or      lo >= ghost_lo and hi <= ghost_hi - 1.
The measure is a non-negative integer at every iteration start (the loop condition holds there) and drops by at least one per
iteration, so the loop terminates for every input.  Callees that move a by-reference cursor contribute what their contracts
guarantee (never backwards); a loop whose only progress is such a call is not decided unless the contract says `strict`.
Loops whose condition has no such atom (flag / pointer-chasing / finder driven loops) are listed as not decided."""
from qlib import astq, dataflow
from qlib.report import Rule
from qlib.zone import Zone, Lin, ZERO


def flatten_and(f, nid, out):
    n = f.nodes[f.strip(nid)]
    if n["k"] == "BinaryOperator" and n["op"] == "&&":
        flatten_and(f, n["ch"][0], out)
        flatten_and(f, n["ch"][1], out)
    else:
        out.append(f.strip(nid))


def strip_step(f, nid):
    """++x / x++ inside a condition: the variable itself"""
    n = f.nodes[f.strip_casts(nid)]
    while n["k"] == "UnaryOperator" and n["op"] in ("++", "--"):
        nid = n["ch"][0]
        n = f.nodes[f.strip_casts(nid)]
    return f.strip_casts(nid)


def measures(f, loop):
    """[(lo node, hi node)] candidates from the loop condition"""
    cond = f.nodes[loop].get("cond", -1)
    if cond is None or cond < 0:
        return []
    atoms = []
    flatten_and(f, cond, atoms)
    out = []
    for a in atoms:
        n = f.nodes[a]
        if n["k"] != "BinaryOperator":
            continue
        op = n["op"]
        l, r = n["ch"]
        if op in ("<", "<="):
            out.append((strip_step(f, l), strip_step(f, r), op))
        elif op in (">", ">="):
            out.append((strip_step(f, r), strip_step(f, l), {">": "<", ">=": "<="}[op]))
        elif op == "!=":
            # x != 0 counted down, or lo != hi walked upwards: both directions are tried
            out.append((strip_step(f, l), strip_step(f, r), "!="))
            out.append((strip_step(f, r), strip_step(f, l), "!="))
    return out


class ProgressZone(Zone):
    def __init__(self, model, fn, contracts, hooks):
        Zone.__init__(self, model, fn, contracts)
        self.hooks = hooks   # id(cfg element) -> [(ghost_lo, ghost_hi, lo node, hi node)]

    def set_ghost(self, st, g, nid):
        st.kill(g)
        L = self.form(st, nid)
        if L is None:
            return
        d = Lin({g: 1}) - L
        st.add_lin_le0(d)
        st.add_lin_le0(Lin({}, 0) - d)

    def form(self, st, nid):
        """linear form of an integer expression; for a pointer its offset inside the buffer it points into (a pointer whose
        buffer is not known is represented by its own offset term only when it is a tracked local)"""
        n = self.fn.nodes[self.fn.strip_casts(nid)]
        if n.get("tk") == "ptr":
            t = self.term_of(nid)
            if t is None or t not in st.ptrs:
                return None      # a pointer the engine does not track: its moves are invisible, nothing may be concluded
            buf, off = st.ptrs[t]
            L = off + Lin({"x:base|" + str(buf): 1})
        else:
            L = self.lin(st, nid)
        if L is None:
            return None
        # only terms whose every change the engine sees (locals, parameters, their entry values, tracked pointer offsets)
        if any(not (x.startswith(("v:", "e:", "o:", "f:", "x:base|")) or x == ZERO) for x in L.co):
            return None
        return L

    def transfer(self, fn, st, e, block):
        hs = self.hooks.get(id(e))
        if hs and not st.bottom:
            for (glo, ghi, lo, hi) in hs:
                self.set_ghost(st, glo, lo)
                self.set_ghost(st, ghi, hi)
        Zone.transfer(self, fn, st, e, block)


def analyse(m, f, contracts):
    """returns [(loop nid, status, detail)]  status in ok / open / undecided"""
    loops = astq.nodes_of(f, ("WhileStmt", "DoStmt", "ForStmt"))
    if not loops or not f.cfg:
        return []
    blocks = f.blocks()
    lt_block = {}
    for b in f.cfg["blocks"]:
        if b.get("looptarget") is not None:
            lt_block[b["looptarget"]] = b["id"]
    hooks = {}
    plan = {}
    for w in loops:
        ms = measures(f, w)
        lt = lt_block.get(w)
        if not ms or lt is None:
            plan[w] = None
            continue
        succ = [s for (s, k, p) in dataflow.successors(f, blocks[lt])]
        if len(succ) != 1 or not blocks[succ[0]]["el"]:
            plan[w] = None
            continue
        first = blocks[succ[0]]["el"][0]
        cands = []
        for i, (lo, hi, op) in enumerate(ms):
            glo, ghi = "x:prog%d_%d_lo" % (w, i), "x:prog%d_%d_hi" % (w, i)
            hooks.setdefault(id(first), []).append((glo, ghi, lo, hi))
            cands.append((glo, ghi, lo, hi, op))
        plan[w] = (lt, cands)
    z = ProgressZone(m, f, contracts, hooks)
    states = dataflow.run(f, z)
    verdict = {w: {} for w in loops if plan.get(w)}
    seen_edge = {w: 0 for w in verdict}
    for (b, s, kind, payload, st) in dataflow.edge_states(f, z, states):
        for w, pl in plan.items():
            if not pl or s != pl[0]:
                continue
            if st.bottom:
                continue
            # a for loop's increment lives in the block the back edges lead to: apply it before looking
            if blocks[pl[0]]["el"]:
                st = z.copy(st)
                for e_ in blocks[pl[0]]["el"]:
                    if id(e_) in z.hooks:
                        continue
                    Zone.transfer(z, f, st, e_, blocks[pl[0]])
            seen_edge[w] += 1
            last = [e["n"] for e in b["el"] if isinstance(e.get("n"), int) and not e.get("k")]
            where = f.loc(last[-1]) if last else f.loc(w)
            for (glo, ghi, lo, hi, op) in pl[1]:
                Llo, Lhi = z.form(st, lo), z.form(st, hi)
                res = "unknown"
                if Llo is not None and Lhi is not None:
                    up = st.lin_le0((Lin({glo: 1}) - Llo).shift(1)) and st.lin_le0(Lhi - Lin({ghi: 1}))
                    down = st.lin_le0(Lin({glo: 1}) - Llo) and st.lin_le0((Lhi - Lin({ghi: 1})).shift(1))
                    if up or down:
                        res = "drop"
                    elif st.lin_le0(Llo - Lin({glo: 1})) and st.lin_le0(Lin({ghi: 1}) - Lhi):
                        res = "stuck"    # lo has not grown and hi has not shrunk: the measure is provably not smaller
                key = (lo, hi)
                cur = verdict[w].setdefault(key, {"drop": 0, "stuck": [], "unknown": []})
                if res == "drop":
                    cur["drop"] += 1
                else:
                    cur[res].append(where)
    out = []
    for w in loops:
        pl = plan.get(w)
        cond = f.nodes[w].get("cond", -1)
        ctext = f.text(cond) if cond is not None and cond >= 0 else "(none)"
        if not pl:
            out.append((w, "undecided", "condition `%s` has no cursor/bound atom" % ctext[:70]))
            continue
        if seen_edge[w] == 0:
            out.append((w, "ok", "the loop body never returns to the loop head (at most one iteration)"))
            continue
        good = [(k, v) for k, v in verdict[w].items() if not v["stuck"] and not v["unknown"]]
        if good:
            lo, hi = good[0][0]
            out.append((w, "ok", "measure %s - %s drops on each of the %d edges back to the loop head" % (f.text(hi), f.text(lo), seen_edge[w])))
            continue
        strict = [c for c in pl[1] if c[4] != "!="] or pl[1]
        stuck = [(c, verdict[w][(c[2], c[3])]["stuck"]) for c in strict if verdict[w].get((c[2], c[3]), {}).get("stuck")]
        all_stuck = stuck and all(verdict[w].get((c[2], c[3]), {}).get("stuck") for c in pl[1] if c[4] != "!=" or True) and \
            not any(not v["stuck"] and not v["unknown"] for v in verdict[w].values())
        if stuck and len(stuck) == len(strict):
            c, where = stuck[0]
            out.append((w, "open", "on the path that returns to the loop head at %s neither %s has grown nor %s has shrunk: an input that keeps "
                        "taking this path never leaves the loop" % (where[0], f.text(c[2]), f.text(c[3]))))
        else:
            c = strict[0]
            v = verdict[w].get((c[2], c[3]), {"unknown": []})
            out.append((w, "undecided", "condition `%s`: the change of %s - %s on the path back at %s is outside the difference-bound domain" % (
                ctext[:50], f.text(c[3]), f.text(c[2]), (v["unknown"] or v.get("stuck") or ["?"])[0])))
    return out


def rule_progress(ctx, m, contracts, files, rid="PROG", floor=1):
    r = Rule(rid, "every cursor-controlled loop makes progress on every iteration (measure hi - lo drops on every edge back to the loop head)", floor=floor)
    undecided = []
    from qlib.zone import ContractTable
    if isinstance(contracts, dict):
        contracts = ContractTable(contracts)
    for f in m.functions:
        if f.inst or not f.cfg or not any(f.file.endswith("/" + x) for x in files):
            continue
        try:
            res = analyse(m, f, contracts)
        except RuntimeError as e:
            r.broke("%s: %s" % (f.q, e))
            continue
        if res:
            ctx.note_fn(f)
        for (w, status, detail) in res:
            cond = f.nodes[w].get("cond", -1)
            label = "%s (%s)" % (f.nodes[w]["k"].replace("Stmt", "").lower(), (f.text(cond) if cond is not None and cond >= 0 else "")[:60])
            if status == "undecided":
                undecided.append("%s %s at %s" % (f.q.split("::")[-1], label, f.loc(w)))
                continue
            r.ob(f.sig if len(m.fns(f.q, required=False)) > 1 else f.q, label, status == "ok", detail, f.loc(w))
    r.notes.append("loops not decided by this rule (%d): %s" % (len(undecided), "; ".join(undecided)))
    r.undecided = undecided
    return r
