"""C01 -- rendering any template with any value is memory-safe and terminates (structural clauses)."""
from qlib.report import Rule
from qlib.zonerules import run_zone
from tables.contracts import CONTRACTS

META = {
    "explanation": "E-ZONE over the uninstantiated template scanner, attribute parsers, expression scanner, the word "
                   "finder, the string utilities and the number scanner (all Char_T): every raw read of the template "
                   "buffer / value string is proven inside its bound on every path, (pointer,length) arguments fit, "
                   "unsigned subtractions feeding a bound cannot wrap, the Finder keeps offset_ <= length_, SetOffset "
                   "arguments stay <= length. Further structural clauses are listed per rule. Not decided: that tag "
                   "records produced by parse hold offsets inside the buffer for malformed nests (global parent-stack "
                   "invariant), write-side safety of stream/array growth (C14/C16 rules).",
    "not_decided": "tag-offset data-structure invariants across parse->render; truncation of 8/16-bit tag fields",
    "assumptions": [
        "cursor + small constant does not overflow SizeT",
        "callers pass a length not larger than the buffer",
        "a variable reference inside the template is followed by '}' or a quote inside the buffer (tag grammar), so "
        "getValue may read id[length]",
        "by-reference parameters do not alias",
    ],
}

ZONE_KEYS = [
    "Qentem::Finder::Next", "Qentem::TemplateCore::parse", "Qentem::TemplateCore::parseLoopAttributes",
    "Qentem::TemplateCore::parseIfCase", "Qentem::TemplateCore::parseExpressions", "Qentem::TemplateCore::parseValue",
    "Qentem::TemplateCore::getOperation", "Qentem::TemplateCore::isExpression", "Qentem::TemplateCore::getValue",
    "Qentem::TemplateCore::renderSuperVariable",
    "Qentem::StringUtils::TrimLeft", "Qentem::StringUtils::TrimRight", "Qentem::StringUtils::IsEqual",
    "Qentem::StringUtils::IsLess", "Qentem::StringUtils::IsGreater", "Qentem::StringUtils::Hash",
    "Qentem::StringUtils::EscapeHTMLSpecialChars",
    "Qentem::Digit::StringToNumber/4", "Qentem::Digit::stringToNumber", "Qentem::Digit::parseExponent",
    "Qentem::Digit::HexStringToNumber/3", "Qentem::Digit::FastStringToNumber",
]


def run(ctx):
    m = ctx.pattern()
    rules = {
        "ZB-read": Rule("ZB-read", "every raw read of the template buffer / value string is proven in bounds on every path", floor=60),
        "ZB-call": Rule("ZB-call", "(pointer,length) arguments stay inside the caller's buffer; no wrapped bound", floor=30),
        "ZB-req": Rule("ZB-req", "Finder::SetOffset arguments stay <= length (keeps the Finder invariant)", floor=0),
        "ZB-ens": Rule("ZB-ens", "by-reference cursors: monotone / bounded as the contracts state (proven on every exit)", floor=10),
        "ZB-inv": Rule("ZB-inv", "Finder::Next keeps offset_ <= length_", floor=1),
    }
    run_zone(ctx, m, CONTRACTS, ZONE_KEYS, rules)
    rules["FIND-next"] = find_next(ctx, m)
    # traps: integer division/remainder guards (rule shared with C04)
    from rules import C04
    for r4 in C04.run(ctx):
        if r4.rid in ("DIV-guard", "X-novalue"):
            rules[r4.rid] = r4
    return list(rules.values())


def find_next(ctx, m):
    """Finder::Next, analysed WITHOUT the entry assumption offset_ <= length_: on every exit either match_ == 0
    or offset_ <= length_.  This (with ZB-inv) is what the caller-side model of `finder` in parse() relies on."""
    from qlib import dataflow
    from qlib.zone import Zone, ContractTable, Contract, ZERO
    r = Rule("FIND-next", "Finder::Next reports a match only with offset_ <= length_ (no entry assumption)", floor=2)
    f = m.fn("Qentem::Finder::Next")
    c = CONTRACTS["Qentem::Finder::Next"]
    table = dict(CONTRACTS)
    table["Qentem::Finder::Next"] = Contract(buffers=c.buffers, foreign=c.foreign)
    z = Zone(m, f, ContractTable(table))
    states = dataflow.run(f, z)
    ex = f.cfg["exit"]
    for b in f.cfg["blocks"]:
        if ex not in [s for s in b.get("succ", []) if s is not None] or b["id"] not in states:
            continue
        st = states[b["id"]].copy()
        for e in b["el"]:
            z.transfer(f, st, e, b)
        if st.bottom:
            continue
        no_match = st.le("f:match_", ZERO, 0)
        in_bound = st.le("f:offset_", "f:length_", 0)
        last = [e["n"] for e in b["el"] if "n" in e]
        r.ob(f.q, "exit after `%s`" % (f.text(last[-2]) if len(last) > 1 else "loop end"), no_match or in_bound,
             "match_ == 0" if no_match else ("offset_ <= length_" if in_bound else "neither match_ == 0 nor offset_ <= length_ is known"),
             f.loc(last[-1]) if last else "")
    return r
