"""C01 -- rendering any template with any value is memory-safe and terminates (structural clauses)."""
from qlib.report import Rule
from qlib.zonerules import run_zone
from tables.contracts import CONTRACTS

META = {
    "explanation": "E-ZONE over the uninstantiated template scanner, attribute parsers, expression scanner, the word "
                   "finder, the string utilities and the number scanner (all Char_T): every raw read of the template "
                   "buffer / value string is proven inside its bound on every path, (pointer,length) arguments fit, "
                   "unsigned subtractions feeding a bound cannot wrap, the Finder keeps offset_ <= length_, SetOffset "
                   "arguments stay <= length. Further structural clauses are listed per rule. Not decided: that tag "
                   "records produced by parse hold offsets inside the buffer for malformed nests (global parent-stack "
                   "invariant), write-side safety of stream/array growth (C14/C16 rules).",
    "not_decided": "tag-offset data-structure invariants across parse->render; truncation of 8/16-bit tag fields",
    "assumptions": [
        "cursor + small constant does not overflow SizeT",
        "callers pass a length not larger than the buffer",
        "a variable reference inside the template is followed by '}' or a quote inside the buffer (tag grammar), so "
        "getValue may read id[length]",
        "by-reference parameters do not alias",
    ],
}
META["explanation"] += " " + "(ZB-past) in the number formatter no raw access to the stream's buffer is provably at or beyond Length(), or in front of the number being formatted, on some path (definite verdict with one step of path sensitivity; in-range is not decided there). (OUT-def) a kind arm that assigns the pointer out-parameter whose null-ness is the validity signal assigns it on every path through the arm. (NULL-first) a pointer taken from First()/Last()/Storage() of another container is dereferenced only where a dominating test excludes null (two invariant-based exceptions are listed with their reason)."
META["explanation"] += " " + '(PROG) the same progress rule as C05 over the template scanner, attribute parsers, expression scanner, finder, string utilities and number formatter/scanner loops; the tag loops driven by finder.GetMatch(), pointer-walking loops over tag arrays and the loop-item growth loop are listed as not decided.'
META["explanation"] += " " + '(PR-subrange) the code that completes an inline-if record compares every sub-tag span with bounds derived from the true and from the false value and the span of the tag with the 16-bit limit, and drops the record otherwise (taint flow inside the arm). BORROW additionally follows references obtained THROUGH an element pointer (tag_bit->GetInLineIfTag()): they die when a member that destroys stored elements (Drop, Clear, Reset, found from the model) is called on the container; facts carry the literal values of boolean locals of their path, so `dropped, skip = true ... if (!skip) use` is not a use.'
META["explanation"] += " " + "(PR-resync) where a block's content start is taken from a hand-moved cursor the finder is moved to that cursor before it searches on (must-analysis). (NARROW-index) the 8-bit fields of tag records the renderer uses as positions in object arrays (found from the renderer) are stored only after a comparison of the count with the field's range."

ZONE_KEYS = [
    "Qentem::Finder::Next", "Qentem::TemplateCore::parse", "Qentem::TemplateCore::parseLoopAttributes",
    "Qentem::TemplateCore::parseIfCase", "Qentem::TemplateCore::parseExpressions", "Qentem::TemplateCore::parseValue",
    "Qentem::TemplateCore::getOperation", "Qentem::TemplateCore::isExpression", "Qentem::TemplateCore::getValue",
    "Qentem::TemplateCore::renderSuperVariable",
    "Qentem::StringUtils::TrimLeft", "Qentem::StringUtils::TrimRight", "Qentem::StringUtils::IsEqual",
    "Qentem::StringUtils::IsLess", "Qentem::StringUtils::IsGreater", "Qentem::StringUtils::Hash",
    "Qentem::StringUtils::EscapeHTMLSpecialChars",
    "Qentem::Digit::StringToNumber/4", "Qentem::Digit::stringToNumber", "Qentem::Digit::parseExponent",
    "Qentem::Digit::HexStringToNumber/3", "Qentem::Digit::FastStringToNumber",
]


META["explanation"] += " " + '(REC-bound, shared with C05) call-graph rule: every cycle among the functions of Template.hpp that take the text is cut by a call that passes depth + k and is reached only on the true edge of depth < CONST -- parseExpressions/parseValue recurse once per parenthesis and carry such a depth; the recursion of render()/evaluate() runs over the parsed records, whose depth the parser bounds.'

META["explanation"] += " " + 'Taken over unchanged from other modules because a seeded change to this property was reported by them (rules.common.shared): PR-looptag from C02.'

META["explanation"] += " " + 'Also taken over (a rule id already present here is kept as id/module): BORROW from C16.'

def _run_own(ctx):
    m = ctx.pattern()
    rules = {
        "ZB-read": Rule("ZB-read", "every raw read of the template buffer / value string is proven in bounds on every path", floor=60),
        "ZB-call": Rule("ZB-call", "(pointer,length) arguments stay inside the caller's buffer; no wrapped bound", floor=30),
        "ZB-req": Rule("ZB-req", "Finder::SetOffset arguments stay <= length (keeps the Finder invariant)", floor=0),
        "ZB-ens": Rule("ZB-ens", "by-reference cursors: monotone / bounded as the contracts state (proven on every exit)", floor=10),
        "ZB-inv": Rule("ZB-inv", "Finder::Next keeps offset_ <= length_", floor=1),
    }
    run_zone(ctx, m, CONTRACTS, ZONE_KEYS, rules)
    rules["FIND-next"] = find_next(ctx, m)
    # traps: integer division/remainder guards (rule shared with C04)
    from rules import C04
    for r4 in C04.run(ctx):
        if r4.rid in ("DIV-guard", "X-novalue"):
            rules[r4.rid] = r4
    from rules.borrow import rule_borrow
    rules["BORROW"] = rule_borrow(ctx, m, files=["Template.hpp", "Tags.hpp", "Finder.hpp", "QExpression.hpp"])
    rules["TS-tagbit"] = tagbit_access(ctx, m)
    rules["IDX-ensure"] = loop_item_index(ctx, m)
    rules["SB-loopitem"] = loop_item_fields(ctx, m)
    from rules.common import rule_inline_if_ranges, rule_finder_resync
    rules["PR-subrange"] = rule_inline_if_ranges(ctx, m)
    rules["PR-resync"] = rule_finder_resync(ctx, m)
    from rules.common import rule_narrow_index
    rules["NARROW-index"] = rule_narrow_index(ctx, m)
    from rules.common import rule_stream_past, rule_out_params, rule_null_first
    rules["NULL-first"] = rule_null_first(ctx, m, ["Value.hpp", "Template.hpp", "JSON.hpp", "HArray.hpp", "HList.hpp"])
    rules["ZB-past"] = rule_stream_past(ctx, m)
    rules["OUT-def"] = rule_out_params(ctx, m, ["Value.hpp", "HashTable.hpp", "HArray.hpp", "HList.hpp", "Template.hpp", "Array.hpp"])
    from rules.progress import rule_progress
    rules["PROG"] = rule_progress(ctx, m, CONTRACTS, ["Template.hpp", "Finder.hpp", "StringUtils.hpp", "Digit.hpp", "QExpression.hpp", "Tags.hpp"], floor=55)
    from rules.common import rule_recursion_bound
    rules["REC-bound"] = rule_recursion_bound(ctx, m, "Template.hpp")
    return list(rules.values())


def tagbit_access(ctx, m):
    """every typed view Get<K>Tag() of a tag record is taken only when the record's type is proven to be K"""
    from qlib import tagstate
    from rules import valuetag
    r = Rule("TS-tagbit", "Get<K>Tag() is reached only under GetType() == K (typestate over the CFG)", floor=25)
    spec = valuetag.tagbit_spec(m)
    for f in m.functions:
        if f.inst or not f.cfg or not (f.file.endswith("Template.hpp") or f.file.endswith("Tags.hpp")):
            continue
        if not any(f.call_simple_name(c) in spec.accessors for c in astq_calls(f)):
            continue
        ctx.note_fn(f)
        for (rule, nid, ok, why, key) in tagstate.run(m, f, spec, None, check_exit=False):
            if rule == "T1":
                r.ob(f.sig if f.cls != "Qentem::TemplateCore" else f.q, f.text(nid), ok, why, f.loc(nid))
        # accessor calls on receivers the typestate cannot name (e.g. storage->Last()->GetLoopTag())
        for c in astq_calls(f):
            if f.call_simple_name(c) in spec.accessors:
                rc = f.call_receiver(c)
                if rc is not None and f.nodes[f.strip(rc)]["k"] in ("CallExpr", "CXXMemberCallExpr"):
                    r.ob(f.q, f.text(c), False, "the record is obtained and reinterpreted in one expression: nothing tests its type first", f.loc(c))
    return r


def astq_calls(f):
    from qlib import astq
    return astq.calls(f)


def loop_item_index(ctx, m):
    """IDX-ensure: loops_items_->Storage()[L] needs L < Size(); the producer in renderLoop must grow the array until
    Size() > Level (a single append after `if (Size() <= Level)` only proves Size() >= 1)"""
    from qlib import astq
    r = Rule("IDX-ensure", "the loop-item array is grown until it holds the slot of this loop's level", floor=3)
    f = m.fn("Qentem::TemplateCore::renderLoop")
    ctx.note_fn(f)
    subs = [i for i in astq.nodes_of(f, "ArraySubscriptExpr") if f.text(f.nodes[i]["ch"][0]) == "loops_items_->Storage()"]
    def not_yet_room(cond):
        """the condition says Size() <= Level (in either operand order, or as the negation of Size() > Level)"""
        n = f.nodes[f.strip(cond)]
        neg = False
        while n["k"] == "UnaryOperator" and n["op"] == "!":
            neg = not neg
            n = f.nodes[f.strip(n["ch"][0])]
        if n["k"] != "BinaryOperator" or n["op"] not in ("<", "<=", ">", ">="):
            return False
        a, b, op = f.text(f.strip_casts(n["ch"][0])).replace(" ", ""), f.text(f.strip_casts(n["ch"][1])).replace(" ", ""), n["op"]
        if op in (">", ">="):
            a, b, op = b, a, {">": "<", ">=": "<="}[op]
        if neg:   # !(x < y) == y <= x ; !(x <= y) == y < x
            a, b, op = b, a, {"<": "<=", "<=": "<"}[op]
        return (a, op, b) == ("loops_items_->Size()", "<=", "tag.Level")
    grow_loops = [w for w in astq.nodes_of(f, ("WhileStmt",)) if not_yet_room(f.nodes[w]["cond"])]
    grow_ifs = [w for w in astq.nodes_of(f, ("IfStmt",)) if not_yet_room(f.nodes[w]["cond"])]
    resize_calls = [c for c in astq.calls(f, "ResizeAndInitialize") if "tag.Level" in f.text(c)]
    for s_ in subs:
        idx = f.text(f.nodes[s_]["ch"][1])
        ok = idx == "tag.Level" and (any(w < s_ and astq.calls(f, None, f.nodes[w]["body"]) or True for w in grow_loops) and bool(grow_loops) or bool(resize_calls))
        why = "index %s; growth step: %s" % (idx, "while (Size() <= Level) append" if grow_loops else ("ResizeAndInitialize(Level + 1)" if resize_calls else
              ("a single `if (Size() <= Level)` append only proves Size() >= 1, not Size() > Level (a loop nested under <if> blocks skips levels)" if grow_ifs else "none found")))
        r.ob(f.q, f.text(s_), ok, why, f.loc(s_))
    # consumers index with the level recorded in the tag under IDLength != 0
    for name in ("renderVariable", "getValue"):
        g = m.fn("Qentem::TemplateCore::" + name)
        for s_ in [i for i in astq.nodes_of(g, "ArraySubscriptExpr") if g.text(g.nodes[i]["ch"][0]) == "loops_items_->Storage()"]:
            guard = astq.enclosing(g, s_, ("IfStmt",))
            under = False
            x = guard
            while x is not None:
                ct = g.text(g.nodes[x]["cond"])
                inthen = s_ in set(g.walk(g.nodes[x]["then"]))
                if "IDLength" in ct and (("!=" in ct and inthen) or ("==" in ct and not inthen)):
                    under = True
                x = astq.enclosing(g, x, ("IfStmt",))
            r.ob(g.q, g.text(s_), under, "consumer reads the slot only for tags bound to a loop (IDLength != 0), i.e. beneath the loop that ensured it", g.loc(s_))
    return r


def loop_item_fields(ctx, m):
    """the per-iteration slot of a loop has the fields Value and Key; the object branch and the array branch of renderLoop
    are siblings and must (re)write the same fields before render(), otherwise the other branch's stale view survives"""
    from qlib import astq
    r = Rule("SB-loopitem", "both iteration branches of renderLoop (re)write every field of the loop slot", floor=2)
    f = m.fn("Qentem::TemplateCore::renderLoop")
    rec = [x for x in m.records if x["q"] == "Qentem::TemplateCore::LoopItem"]
    if not rec:
        r.broke("LoopItem record not found")
        return r
    fields = [x["n"] for x in rec[0]["fields"]]
    loops = [w for w in astq.nodes_of(f, "WhileStmt") if "loop_index" in f.text(f.nodes[w]["cond"])]
    if len(loops) != 2:
        r.broke("expected the object and the array iteration loops, found %d" % len(loops))
        return r
    for w in loops:
        body = f.nodes[w]["body"]
        written = set()
        for i in f.walk(body):
            n = f.nodes[i]
            if n["k"] in ("BinaryOperator",) and n["op"] == "=":
                t = f.text(n["ch"][0])
                if t.startswith("item."):
                    written.add(t.split(".")[1])
            if n["k"] in ("CallExpr", "CXXMemberCallExpr"):
                for a in f.call_args(i):
                    t = f.text(a)
                    if t.startswith("item."):
                        written.add(t.split(".")[1])
                if f.call_receiver(i) is not None and f.text(f.call_receiver(i)).startswith("item.") and f.call_simple_name(i) in ("Reset", "Clear"):
                    written.add(f.text(f.call_receiver(i)).split(".")[1])
        missing = [x for x in fields if x not in written]
        r.ob(f.q, "iteration loop at line %d" % f.nodes[w]["l"], not missing,
             "fields (re)written per iteration: %s; not written: %s%s" % (sorted(written), missing,
             " -- a view left by an earlier loop at this level (pointing into that loop's destroyed working copy) stays readable" if missing else ""), f.loc(w))
    return r


def find_next(ctx, m):
    """Finder::Next, analysed WITHOUT the entry assumption offset_ <= length_: on every exit either match_ == 0
    or offset_ <= length_.  This (with ZB-inv) is what the caller-side model of `finder` in parse() relies on."""
    from qlib import dataflow
    from qlib.zone import Zone, ContractTable, Contract, ZERO
    r = Rule("FIND-next", "Finder::Next reports a match only with offset_ <= length_ (no entry assumption)", floor=2)
    f = m.fn("Qentem::Finder::Next")
    c = CONTRACTS["Qentem::Finder::Next"]
    table = dict(CONTRACTS)
    table["Qentem::Finder::Next"] = Contract(buffers=c.buffers, foreign=c.foreign)
    z = Zone(m, f, ContractTable(table))
    states = dataflow.run(f, z)
    ex = f.cfg["exit"]
    for b in f.cfg["blocks"]:
        if ex not in [s for s in b.get("succ", []) if s is not None] or b["id"] not in states:
            continue
        st = states[b["id"]].copy()
        for e in b["el"]:
            z.transfer(f, st, e, b)
        if st.bottom:
            continue
        no_match = st.le("f:match_", ZERO, 0)
        in_bound = st.le("f:offset_", "f:length_", 0)
        last = [e["n"] for e in b["el"] if isinstance(e.get("n"), int) and not e.get("k")]
        r.ob(f.q, "exit after `%s`" % (f.text(last[-2]) if len(last) > 1 else "loop end"), no_match or in_bound,
             "match_ == 0" if no_match else ("offset_ <= length_" if in_bound else "neither match_ == 0 nor offset_ <= length_ is known"),
             f.loc(last[-1]) if last else "")
    return r


def run(ctx):
    rules_ = list(_run_own(ctx) or [])
    from rules.common import shared
    have = set(r_.rid for r_ in rules_)
    rules_ += [r_ for r_ in shared(ctx, 'C02', ['PR-looptag']) if r_.rid not in have]
    for r_ in shared(ctx, 'C16', ['BORROW']):
        if r_.rid in set(x.rid for x in rules_):
            r_.rid = r_.rid + "/C16"
        rules_.append(r_)
    return rules_
