"""BORROW: a pointer obtained from a container's storage accessor is not used after a call that may
release or reallocate that container's storage (use after free through a stale pointer).

may_release(class) is computed from the model: methods that (transitively, through their own class's
methods) call Memory::Deallocate, reassign the storage field, or allocate new storage.  Receivers of
dependent type are matched to the owning class by their declared type text."""
from qlib import astq, dataflow
from qlib.model import AnalysisBroken
from qlib.report import Rule

OWNERS = ["Qentem::StringStream", "Qentem::String", "Qentem::Array", "Qentem::HashTable", "Qentem::HArray", "Qentem::HList"]
ACCESSORS = {"First", "Storage", "Last", "End", "Buffer"}
PRIMS = {"Deallocate"}   # retargeting the storage field (allocate/setStorage) keeps the old block alive
HANDOVER = {"Detach"}    # the caller becomes the owner of the returned block


def allocator_methods(m):
    """methods of the owning classes that return a block they have just allocated (they call Memory::Allocate themselves)"""
    out = set()
    for f in m.functions:
        if f.inst or f.cls not in OWNERS or f.is_static:
            continue
        rt = (f.d.get("ret") or "").strip()
        if rt.endswith("*") and any(f.call_simple_name(c) in ("Allocate", "AllocateAligned") for c in astq.calls(f)):
            out.add(f.name)
    return out


def interior_accessors(m):
    """methods of the owning classes that return a pointer into the container's storage (found from the model: non-static
    members with a pointer return type), and their reference-to-pointer out-parameters: name -> [parameter index]"""
    acc = set(ACCESSORS)
    outp = {}
    for f in m.functions:
        if f.inst or f.cls not in OWNERS or f.is_static or f.name in HANDOVER:
            continue
        rt = (f.d.get("ret") or "").strip()
        if rt.endswith("*") or rt.endswith("*const"):
            acc.add(f.name)
        for i, p_ in enumerate(f.params):
            if p_.get("ref") and "*" in p_["t"] and not p_.get("pconst"):
                outp.setdefault(f.name, set()).add(i)
    return acc, outp


def may_release_sets(m):
    """class qname -> set of method simple names that may release/reallocate the storage"""
    out = {}
    FAMILY = {"Qentem::HArray": ("Qentem::HArray", "Qentem::HashTable"), "Qentem::HList": ("Qentem::HList", "Qentem::HashTable")}
    for cls in OWNERS:
        methods = [f for f in m.functions if not f.inst and f.cls in FAMILY.get(cls, (cls,))]
        if not methods:
            continue
        rel = set()
        byname = {}
        for f in methods:
            byname.setdefault(f.name, []).append(f)
        calls_own = {}
        for f in methods:
            direct = False
            own = set()
            for c in astq.calls(f):
                nm = f.call_simple_name(c)
                if nm in PRIMS:
                    direct = True
                rc = f.call_receiver(c)
                if nm in byname and (rc is None or f.nodes[f.strip(rc)]["k"] == "CXXThisExpr"):
                    own.add(nm)
                # *this += x  /  *this << x
                n = f.nodes[c]
                if n["k"] == "CXXOperatorCallExpr":
                    a0 = f.nodes[f.strip(f.call_args(c)[0])]
                    if a0["k"] == "UnaryOperator" and a0["op"] == "*" and f.nodes[f.strip(a0["ch"][0])]["k"] == "CXXThisExpr":
                        own.add("operator" + n.get("op", ""))
            for i in f.walk():
                n = f.nodes[i]
                if n["k"] in ("BinaryOperator", "CompoundAssignOperator") and n.get("op") in ("+=", "<<"):
                    a0 = f.nodes[f.strip(n["ch"][0])]
                    if a0["k"] == "UnaryOperator" and a0["op"] == "*" and f.nodes[f.strip(a0["ch"][0])]["k"] == "CXXThisExpr":
                        own.add("operator" + n["op"])
            if direct:
                rel.add(f.name)
            calls_own[f.name] = calls_own.get(f.name, set()) | own
        changed = True
        while changed:
            changed = False
            for nm, own in calls_own.items():
                if nm not in rel and own & rel:
                    rel.add(nm)
                    changed = True
        out[cls] = rel
    return out


def destroys_elements_sets(m):
    """class qname -> set of method simple names that run the destructor of stored elements (Memory::Dispose on the storage),
    directly or through the class's own methods: a reference into memory OWNED BY an element dies with them"""
    out = {}
    for cls in OWNERS:
        methods = [f for f in m.functions if not f.inst and f.cls == cls]
        direct = set()
        calls_own = {}
        names = set(f.name for f in methods)
        for f in methods:
            own = set()
            for c in astq.calls(f):
                nm = f.call_simple_name(c)
                if nm == "Dispose":
                    direct.add(f.name)
                rc = f.call_receiver(c)
                if nm in names and (rc is None or f.nodes[f.strip(rc)]["k"] == "CXXThisExpr"):
                    own.add(nm)
            calls_own[f.name] = calls_own.get(f.name, set()) | own
        changed = True
        while changed:
            changed = False
            for nm, own in calls_own.items():
                if nm not in direct and own & direct:
                    direct.add(nm)
                    changed = True
        out[cls] = direct
    return out


def param_release_summaries(m, rel):
    """(function qname, nparams) -> set of parameter indices whose container may be released by the function
    (free/static functions and methods taking containers by mutable reference); fixpoint over the model"""
    fns = [f for f in m.functions if not f.inst and f.cfg]
    summ = {}
    cand = {}
    for f in fns:
        idx = {}
        for i, p in enumerate(f.params):
            ow = owner_of_type(p["t"])
            if ow and p.get("ref") and not p.get("pconst"):
                idx[p["n"]] = (i, ow)
        if idx:
            cand[(f.q, len(f.params))] = (f, idx)
            summ[(f.q, len(f.params))] = set()
    changed = True
    rounds = 0
    while changed and rounds < 10:
        changed = False
        rounds += 1
        for key, (f, idx) in cand.items():
            for c in astq.calls(f):
                n = f.nodes[c]
                nm = f.call_simple_name(c)
                if n["k"] == "CXXOperatorCallExpr":
                    a = f.call_args(c)
                    a0 = f.nodes[f.strip(a[0])] if a else {}
                    if a0.get("k") == "DeclRefExpr" and a0["n"] in idx and ("operator" + n.get("op", "")) in rel.get(idx[a0["n"]][1], ()):
                        if idx[a0["n"]][0] not in summ[key]:
                            summ[key].add(idx[a0["n"]][0]); changed = True
                    continue
                rc = f.call_receiver(c)
                if rc is not None:
                    r0 = f.nodes[f.strip(rc)]
                    if r0["k"] == "DeclRefExpr" and r0["n"] in idx and nm in rel.get(idx[r0["n"]][1], ()):
                        if idx[r0["n"]][0] not in summ[key]:
                            summ[key].add(idx[r0["n"]][0]); changed = True
                    continue
                # call of another function passing the container along
                full, _ = f.callee_name(c)
                args = f.call_args(c)
                for j, a in enumerate(args):
                    an = f.nodes[f.strip(a)]
                    if an["k"] == "DeclRefExpr" and an["n"] in idx:
                        callee_keys = [k2 for k2 in summ if k2[1] == len(args) and (k2[0] == full or k2[0].split("::")[-1] == nm)]
                        may = (not callee_keys) or any(j in summ[k2] for k2 in callee_keys)
                        if nm in ("Move", "Forward") or nm in ACCESSORS:
                            may = False
                        if may and idx[an["n"]][0] not in summ[key]:
                            summ[key].add(idx[an["n"]][0]); changed = True
            for i in f.walk():
                n = f.nodes[i]
                if n["k"] in ("CompoundAssignOperator", "BinaryOperator") and n.get("op") in ("+=", "<<"):
                    a0 = f.nodes[f.strip(n["ch"][0])]
                    if a0["k"] == "DeclRefExpr" and a0["n"] in idx and ("operator" + n["op"]) in rel.get(idx[a0["n"]][1], ()):
                        if idx[a0["n"]][0] not in summ[key]:
                            summ[key].add(idx[a0["n"]][0]); changed = True
    return summ


def field_release_summaries(m, rel):
    """class -> method name -> set of container-typed member fields (of that class) whose storage the method may
    release, directly (a releasing operation on `field_`/`*field_`/`field_->`) or through its own methods"""
    out = {}
    by_cls = {}
    for f in m.functions:
        if not f.inst and f.cls and f.cfg:
            by_cls.setdefault(f.cls, []).append(f)
    for cls, fns in by_cls.items():
        rec = [r for r in m.records if r["q"] == cls and not r.get("spec")]
        fields = {}
        for r in rec:
            for fl in r["fields"]:
                ow = owner_of_type(fl.get("t", ""))
                if ow:
                    fields[fl["n"]] = ow
        if not fields:
            continue
        direct = {}
        calls_own = {}
        names = set(f.name for f in fns)
        for f in fns:
            d = set()
            own = set()

            def field_of(nid):
                if nid is None:
                    return None
                x = f.nodes[f.strip(nid)]
                while x["k"] == "UnaryOperator" and x["op"] == "*" and x.get("ch"):
                    x = f.nodes[f.strip(x["ch"][0])]
                if x["k"] in ("MemberExpr", "CXXDependentScopeMemberExpr") and x.get("n") in fields and not x.get("qual"):
                    base = x.get("ch", [])
                    if not base or x.get("implicit") or f.nodes[f.strip(base[0])]["k"] == "CXXThisExpr":
                        return x["n"]
                return None
            for c in astq.calls(f):
                n = f.nodes[c]
                nm = f.call_simple_name(c)
                if n["k"] == "CXXOperatorCallExpr":
                    a = f.call_args(c)
                    fl = field_of(a[0]) if a else None
                    if fl and ("operator" + n.get("op", "")) in rel.get(fields[fl], ()):
                        d.add(fl)
                    continue
                rc = f.call_receiver(c)
                fl = field_of(rc)
                if fl and nm in rel.get(fields[fl], ()):
                    d.add(fl)
                if nm in names and (rc is None or f.nodes[f.strip(rc)]["k"] == "CXXThisExpr"):
                    own.add(nm)
            for i in f.walk():
                n = f.nodes[i]
                if n["k"] in ("CompoundAssignOperator", "BinaryOperator") and n.get("op") in ("+=", "<<"):
                    fl = field_of(n["ch"][0])
                    if fl and ("operator" + n["op"]) in rel.get(fields[fl], ()):
                        d.add(fl)
            direct[f.name] = direct.get(f.name, set()) | d
            calls_own[f.name] = calls_own.get(f.name, set()) | own
        changed = True
        while changed:
            changed = False
            for nm, own in calls_own.items():
                add = set()
                for o in own:
                    add |= direct.get(o, set())
                if not add <= direct[nm]:
                    direct[nm] |= add
                    changed = True
        out[cls] = {k: v for k, v in direct.items() if v}
    return out


def owner_of_type(t):
    t = t or ""
    if "StringStream" in t or "Stream_T" in t:
        return "Qentem::StringStream"
    if "HArray" in t or "ObjectT" in t:
        return "Qentem::HArray"
    if "HList" in t:
        return "Qentem::HList"
    if "HashTable" in t:
        return "Qentem::HashTable"
    if "Array" in t:
        return "Qentem::Array"
    if "String" in t and "View" not in t:
        return "Qentem::String"
    return None


def analyse_fn(m, f, rel, summ=None, fsumm=None, alias_params=False, acc=None, outp=None, destroys=None, fresh=None):
    """returns list of (node id, pointer name, container text, releasing call text)"""
    if not f.cfg:
        return [], 0
    acc = acc or ACCESSORS
    outp = outp or {}
    # container variables by declared type
    types = {p["n"]: p["t"] for p in f.params}
    for i in astq.nodes_of(f, "DeclStmt"):
        for d in f.nodes[i]["decls"]:
            if "n" in d:
                types[d["n"]] = d.get("t", "")
    this_owner = f.cls if f.cls in rel else None

    def container_key(nid):
        """(key text, owner class) of the object expression"""
        if nid is None:
            return ("this", this_owner) if this_owner else (None, None)
        s = f.strip(nid)
        n = f.nodes[s]
        if n["k"] == "CXXThisExpr":
            return ("this", this_owner)
        if n["k"] == "UnaryOperator" and n["op"] == "*":
            return container_key(n["ch"][0])
        if n["k"] == "DeclRefExpr":
            return (n["n"], owner_of_type(types.get(n["n"], n.get("t", ""))))
        if n["k"] in ("MemberExpr", "CXXDependentScopeMemberExpr") and not n.get("qual"):
            return (f.text(s), owner_of_type(n.get("t", "")) or owner_of_type(f.text(s)))
        return (None, None)

    def borrow_source(nid):
        """container key if the expression is  X.Accessor() (+ offset)"""
        s = f.strip_casts(nid)
        n = f.nodes[s]
        if n["k"] == "BinaryOperator" and n["op"] in ("+", "-"):
            return borrow_source(n["ch"][0])
        if n["k"] == "ParenExpr":
            return borrow_source(n["ch"][0])
        if n["k"] in ("CallExpr", "CXXMemberCallExpr") and f.call_simple_name(s) in acc:
            key, owner = container_key(f.call_receiver(s))
            if key and owner:
                if f.call_simple_name(s) in (fresh or ()):
                    return key + "#fresh", owner    # the block just allocated, not the one the earlier pointers refer to
                return key, owner
        if n["k"] == "UnaryOperator" and n["op"] == "&":
            sub = f.nodes[f.strip(n["ch"][0])]
            if sub["k"] == "ArraySubscriptExpr":
                return borrow_source(sub["ch"][0])
        if n["k"] == "ArraySubscriptExpr":
            # a reference bound to an element: X.Storage()[i]
            return borrow_source(n["ch"][0])
        return None

    ptr_locals = {}
    for i in astq.nodes_of(f, "DeclStmt"):
        for d in f.nodes[i]["decls"]:
            if d.get("tk") == "ptr" and "d" in d:
                ptr_locals[d["d"]] = d["n"]
            elif d.get("ref") and "d" in d and d.get("init", -1) >= 0 and f.nodes[f.strip(d["init"])]["k"] == "ArraySubscriptExpr":
                ptr_locals[d["d"]] = d["n"]   # reference to an element of a container's storage
    # references / pointers obtained THROUGH a borrowed element pointer (tag_bit->GetLoopTag(), item->Value.array_ ...): they point
    # into the element or into memory the element owns, and die when the element is destroyed
    derived = {}
    changed_ = True
    while changed_:
        changed_ = False
        for i in astq.nodes_of(f, "DeclStmt"):
            for d in f.nodes[i]["decls"]:
                if "d" not in d or d["d"] in derived or d.get("init", -1) < 0 or not (d.get("ref") or d.get("tk") == "ptr"):
                    continue
                if d["d"] in ptr_locals and not d.get("ref"):
                    continue
                root = f.strip_casts(d["init"])
                via = None
                hops = 0
                while hops < 8:
                    hops += 1
                    rn = f.nodes[root]
                    if rn["k"] in ("CXXMemberCallExpr", "CallExpr"):
                        rc_ = f.call_receiver(root)
                        if rc_ is None:
                            break
                        root = f.strip_casts(rc_)
                        continue
                    if rn["k"] in ("MemberExpr", "CXXDependentScopeMemberExpr") and rn.get("ch"):
                        root = f.strip_casts(rn["ch"][0])
                        continue
                    if rn["k"] == "UnaryOperator" and rn["op"] in ("*", "&") and rn.get("ch"):
                        root = f.strip_casts(rn["ch"][0])
                        continue
                    if rn["k"] == "ParenExpr":
                        root = f.strip_casts(rn["ch"][0])
                        continue
                    if rn["k"] == "DeclRefExpr" and (rn.get("d") in ptr_locals or rn.get("d") in derived) and root != f.strip_casts(d["init"]):
                        via = rn["d"]
                    break
                if via is not None:
                    derived[d["d"]] = via
                    ptr_locals.setdefault(d["d"], d["n"])
                    changed_ = True
    seed = set()
    if alias_params and f.cls in rel and not f.is_static:
        # a raw element pointer handed to a method of an owning container may point into that container's own storage
        # (self-append: s.Write(s.First(), n), ss += ss, a << a)
        elem = {"Qentem::String": ("Char_T",), "Qentem::StringStream": ("Char_T",), "Qentem::Array": ("Type_T",),
                "Qentem::HArray": ("Value_T",)}.get(f.cls, ())
        # (keys are only ever handed out as const, so a Key_T && argument cannot refer to a stored key)
        for p_ in f.params:
            base_t = p_["t"].replace("const ", "").replace("&", "").replace("*", "").strip()
            if p_.get("ptr") and p_.get("pconst") and any(e_ in p_["t"] for e_ in elem):
                ptr_locals[p_["d"]] = p_["n"]
                seed.add((p_["d"], "this", "valid", "", frozenset()))
            elif p_.get("ref") and base_t in elem and p_.get("tk") not in ("uint", "sint", "bool", "char"):
                # a reference to an element type may refer to an element of this very container (a += a[0])
                ptr_locals[p_["d"]] = p_["n"]
                seed.add((p_["d"], "this", "valid", "", frozenset()))
    # a container of the receiver's own class taken by const reference may be the receiver itself (a += a, h += h)
    alias_of = {}
    if alias_params and f.cls in rel and not f.is_static:
        short = f.cls.split("::")[-1]
        for p_ in f.params:
            if p_.get("ref") and not p_.get("rref") and p_.get("pconst") and owner_of_type(p_["t"]) in (f.cls,) and short in p_["t"]:
                alias_of[p_["n"]] = "this"
    if not ptr_locals:
        return [], 0

    # state: frozenset of (ptr decl id, container key, status, releasing-call text, flag facts of the paths that gave this status)
    blocks = f.blocks()
    entry = f.cfg["entry"]
    states = {entry: frozenset(seed)}
    work = [entry]
    findings = {}
    borrows = set((ptr_locals[d], k) for (d, k, _, _, _) in seed)

    def releases(e):
        """list of container keys whose storage may be released by this element"""
        out = []
        n = f.nodes[e["n"]]
        k = n["k"]
        if k in ("CallExpr", "CXXMemberCallExpr", "CXXOperatorCallExpr"):
            nm = f.call_simple_name(e["n"])
            if k == "CXXOperatorCallExpr":
                nm = "operator" + n.get("op", "")
                args = f.call_args(e["n"])
                key, owner = container_key(args[0]) if args else (None, None)
                if key and owner and nm in rel.get(owner, ()):
                    out.append((key, f.text(e["n"])))
                return out
            rc = f.call_receiver(e["n"])
            ch0 = f.nodes[f.strip(n["ch"][0])] if n.get("ch") else {}
            is_member = ch0.get("k") in ("MemberExpr", "CXXDependentScopeMemberExpr", "UnresolvedMemberExpr") and not ch0.get("qual")
            if is_member:
                key, owner = container_key(rc)
                if key and owner and nm in rel.get(owner, ()):
                    out.append((key, f.text(e["n"])))
                # a method of this class that may release a container-typed member of this object
                if (rc is None or f.nodes[f.strip(rc)]["k"] == "CXXThisExpr") and fsumm and f.cls in fsumm:
                    for fld in fsumm[f.cls].get(nm, ()):
                        out.append((fld, f.text(e["n"])))
            else:
                # free function: containers passed by (possibly) mutable reference
                if nm in ("Move", "Forward", "Swap") or nm in ACCESSORS:
                    return out
                full, _ = f.callee_name(e["n"])
                cargs = f.call_args(e["n"])
                keys = [k2 for k2 in (summ or {}) if k2[1] == len(cargs) and (k2[0] == full or k2[0].split("::")[-1] == nm)]
                for j, a in enumerate(cargs):
                    if keys and not any(j in summ[k2] for k2 in keys):
                        continue   # every candidate callee leaves this argument's storage alone
                    key, owner = container_key(a)
                    an = f.nodes[f.strip(a)]
                    if key and owner and an["k"] in ("DeclRefExpr", "UnaryOperator") and key != "this":
                        if "const " in (types.get(key, "") or "") and "*" not in (types.get(key, "") or ""):
                            continue
                        out.append((key, f.text(e["n"])))
        elif k in ("CompoundAssignOperator", "BinaryOperator") and n.get("op") in ("+=", "<<", "<<="):
            key, owner = container_key(n["ch"][0])
            if key and owner and ("operator" + n["op"]) in rel.get(owner, ()):
                out.append((key, f.text(e["n"])))
        return out

    def step(st, e, record):
        if "n" not in e or e.get("k"):
            return st
        nid = e["n"]
        n = f.nodes[nid]
        k = n["k"]
        st = set(st)
        # uses of stale pointers
        if record and k == "DeclRefExpr" and n.get("d") in ptr_locals:
            par = f.parents().get(nid)
            pn = f.nodes[par] if par is not None else None
            is_target = pn is not None and pn["k"] == "BinaryOperator" and pn["op"] == "=" and f.strip(pn["ch"][0]) == nid
            if not is_target:
                for (d, key, status, why, _fc) in st:
                    if d == n["d"] and status == "stale":
                        findings[(nid)] = (n["n"], key, why)
        # boolean locals set to a literal: every fact of this path now carries flag == literal (one step of path sensitivity:
        # "dropped, skip = true ... if (!skip) use")
        fl_d, fl_v = None, None
        if k == "DeclStmt":
            for d in n["decls"]:
                if d.get("tk") == "bool" and "d" in d and d.get("init", -1) >= 0:
                    v_ = f.const_value(d["init"])
                    fl_d, fl_v = d["d"], (bool(v_) if v_ is not None else None)
        elif k == "BinaryOperator" and n["op"] == "=":
            lh_ = f.nodes[f.strip(n["ch"][0])]
            if lh_["k"] == "DeclRefExpr" and lh_.get("tk") == "bool" and lh_.get("dk") == "var":
                v_ = f.const_value(n["ch"][1])
                fl_d, fl_v = lh_["d"], (bool(v_) if v_ is not None else None)
        elif k in ("CompoundAssignOperator", "UnaryOperator") and n.get("op") in ("|=", "&=", "^=", "++", "--") and n.get("ch"):
            lh_ = f.nodes[f.strip(n["ch"][0])]
            if lh_["k"] == "DeclRefExpr" and lh_.get("tk") == "bool" and lh_.get("dk") == "var":
                fl_d, fl_v = lh_["d"], None
        if fl_d is not None:
            st = {(d, kk, s_, w, frozenset([x for x in fc if x[0] != fl_d] + ([(fl_d, fl_v)] if fl_v is not None else []))) for (d, kk, s_, w, fc) in st}
        if k == "DeclStmt":
            for d in n["decls"]:
                if d.get("d") in ptr_locals:
                    st = {x for x in st if x[0] != d["d"]}
                    if d.get("init", -1) >= 0:
                        src = borrow_source(d["init"])
                        if src:
                            st.add((d["d"], src[0], "valid", "", frozenset()))
                            borrows.add((d["n"], src[0]))
                        elif d["d"] in derived:
                            for x in list(st):
                                if x[0] == derived[d["d"]]:
                                    st.add((d["d"], x[1], x[2], x[3], x[4]))
                                    borrows.add((d["n"], x[1]))
                        else:
                            # copy of another borrowed pointer
                            s2 = f.nodes[f.strip_casts(d["init"])]
                            if s2["k"] == "DeclRefExpr":
                                for x in list(st):
                                    if x[0] == s2.get("d"):
                                        st.add((d["d"], x[1], x[2], x[3], x[4]))
        elif k == "BinaryOperator" and n["op"] == "=":
            lhs = f.nodes[f.strip(n["ch"][0])]
            if lhs["k"] == "DeclRefExpr" and lhs.get("d") in ptr_locals:
                st = {x for x in st if x[0] != lhs["d"]}
                src = borrow_source(n["ch"][1])
                if src:
                    st.add((lhs["d"], src[0], "valid", "", frozenset()))
                    borrows.add((lhs["n"], src[0]))
                else:
                    s2 = f.nodes[f.strip_casts(n["ch"][1])]
                    if s2["k"] == "DeclRefExpr":
                        for x in list(st):
                            if x[0] == s2.get("d"):
                                st.add((lhs["d"], x[1], x[2], x[3], x[4]))
        if k in ("CallExpr", "CXXMemberCallExpr") and f.call_simple_name(nid) in outp:
            # find(index, ...): the link pointer handed back through a reference parameter points into the table
            key, owner = container_key(f.call_receiver(nid))
            if key and owner:
                cargs = f.call_args(nid)
                for j in outp[f.call_simple_name(nid)]:
                    if j < len(cargs):
                        an = f.nodes[f.strip(cargs[j])]
                        if an["k"] == "DeclRefExpr" and an.get("d") in ptr_locals:
                            st = {x for x in st if x[0] != an["d"]}
                            st.add((an["d"], key, "valid", "", frozenset()))
                            borrows.add((an["n"], key))
        if k in ("CallExpr", "CXXMemberCallExpr") and f.call_simple_name(nid) == "Deallocate":
            a = f.call_args(nid)
            a0 = f.nodes[f.strip_casts(a[0])] if a else {}
            if a0.get("k") == "DeclRefExpr" and a0.get("d") in ptr_locals:
                keys = {x[1] for x in st if x[0] == a0["d"]}
                # the whole block goes: every pointer into the same (old) storage dies with it
                st = {(d, kk, "stale" if (d == a0["d"] or (kk in keys and kk != "?" and not kk.endswith("#fresh"))) else s_,
                       f.text(nid) if (d == a0["d"] or (kk in keys and kk != "?" and not kk.endswith("#fresh") and s_ == "valid")) else w, fc) for (d, kk, s_, w, fc) in st}
                if not keys:
                    st.add((a0["d"], "?", "stale", f.text(nid), frozenset()))
        if destroys and derived and k == "CXXMemberCallExpr":
            nm_ = f.call_simple_name(nid)
            key, owner = container_key(f.call_receiver(nid))
            if key and owner and nm_ in destroys.get(owner, ()) and nm_ not in rel.get(owner, ()):
                why = f.text(nid) + " (destroys stored elements)"
                st = {(d, kk, "stale" if (kk == key and d in derived) else s, why if (kk == key and d in derived and s == "valid") else w, fc) for (d, kk, s, w, fc) in st}
        if k in ("CallExpr", "CXXMemberCallExpr", "CXXOperatorCallExpr", "CompoundAssignOperator", "BinaryOperator"):
            for (key, why) in releases(e):
                st = {(d, kk, "stale" if (kk == key or kk == key + "#fresh" or alias_of.get(kk) == key) else s,
                       (why + (" (when `%s` is the object itself)" % kk if kk != key else "")) if (kk == key or kk == key + "#fresh" or alias_of.get(kk) == key) and s == "valid" else w, fc) for (d, kk, s, w, fc) in st}
        return frozenset(st)

    it = 0
    while work:
        it += 1
        if it > 5000:
            break
        bid = work.pop()
        st = states[bid]
        for e in blocks[bid]["el"]:
            st = step(st, e, False)
        for (s, kind, payload) in dataflow.successors(f, blocks[bid]):
            out_st = st
            if kind in ("true", "false") and payload is not None:
                c_ = f.strip(payload)
                want = kind == "true"
                while f.nodes[c_]["k"] == "UnaryOperator" and f.nodes[c_]["op"] == "!":
                    c_ = f.strip(f.nodes[c_]["ch"][0])
                    want = not want
                cn_ = f.nodes[c_]
                if cn_["k"] == "DeclRefExpr" and cn_.get("tk") == "bool" and cn_.get("dk") == "var":
                    out_st = frozenset(x for x in st if (cn_["d"], not want) not in x[4])
            if s not in states:
                states[s] = out_st
                work.append(s)
            else:
                new = states[s] | out_st
                if new != states[s]:
                    states[s] = new
                    work.append(s)
    for bid, st in states.items():
        for e in blocks[bid]["el"]:
            st = step(st, e, True)
    return [(nid, v[0], v[1], v[2]) for nid, v in sorted(findings.items())], len(borrows)


def rule_borrow(ctx, m, files, extra_fns=(), rid="BORROW", alias_params=False, allow_empty=False):
    r = Rule(rid, "no storage pointer borrowed from a container is used after a call that may release/reallocate it", floor=0 if allow_empty else 1)
    rel = may_release_sets(m)
    if "Qentem::StringStream" not in rel or "expand" not in rel["Qentem::StringStream"] or "Write" not in rel["Qentem::StringStream"]:
        r.broke("could not derive the releasing methods of StringStream (expand not found)")
    r.notes.append("may-release sets: " + "; ".join("%s: %s" % (k.split("::")[-1], ",".join(sorted(v))) for k, v in sorted(rel.items())))
    summ = param_release_summaries(m, rel)
    fsumm = field_release_summaries(m, rel)
    acc, outp = interior_accessors(m)
    destroys = destroys_elements_sets(m)
    fresh = allocator_methods(m)
    r.notes.append("allocating accessors (their result is the new block): " + ",".join(sorted(fresh)))
    r.notes.append("element-destroying methods: " + "; ".join("%s: %s" % (k.split("::")[-1], ",".join(sorted(v))) for k, v in sorted(destroys.items()) if v))
    r.notes.append("interior-pointer accessors: " + ",".join(sorted(acc)))
    fns = [f for f in m.functions if not f.inst and any(f.file.endswith(x) for x in files)]
    for q in extra_fns:
        fns += m.fns(q, pattern=True, required=False)
    total_borrows = 0
    for f in fns:
        found, nb = analyse_fn(m, f, rel, summ, fsumm, alias_params, acc, outp, destroys, fresh)
        total_borrows += nb
        if nb:
            ctx.note_fn(f)
        if not found and nb:
            r.ob(f.q, "%d borrowed pointer(s)" % nb, True, "every use precedes any releasing call on the same container", "%s:%d" % (f.file.split("/Include/")[-1], f.line))
        seen = set()
        for (nid, p, key, why) in found:
            if (p, key, why) in seen:
                continue
            seen.add((p, key, why))
            r.ob(f.q, "%s (from %s) after %s" % (p, key, why), False,
                 "`%s` points into the storage of `%s`, which `%s` may release or reallocate; it is used afterwards" % (p, key, why), f.loc(nid))
    if total_borrows == 0 and not allow_empty:
        r.broke("no borrowed storage pointer found in scope (%s)" % ", ".join(files))
    return r
