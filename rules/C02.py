"""C02 -- a well-formed template renders to the documented expansion (structural clauses)."""
import re
from qlib import dataflow, astq, tab
from qlib.model import AnalysisBroken
from qlib.report import Rule

META = {
    "explanation": "E-TAB/E-PROTO on the uninstantiated scanner and renderer (all Char_T): (TB-patterns) every tag "
                   "pattern literal spells the documented text in all five character specialisations and every "
                   "declared Prefix/Suffix/attribute length equals the literal length (+1 for the bracket the finder "
                   "consumed); (TB-words) the finder's word list, word-size table, group tables, first-character "
                   "tables and pattern IDs are mutually consistent; (X-dispatch) parse has an arm per pattern ID and "
                   "render an arm per tag kind, each passing the record of that kind to its renderer; (PR-cursor) every "
                   "renderer first copies the literal slice [offset, tag start) and then moves the cursor to the tag end "
                   "on every path; (PR-fallback) unresolved {var:}/{raw:}/{math:}/{svar:} reach a write of the tag's own "
                   "source range; (TB-loopopts) sort option letters/bits; (PR-looptag) the enclosing-loop pointer is "
                   "pushed at <loop> and restored at </loop>.",
    "not_decided": "equality of the output with the documented expansion for all templates and values",
    "assumptions": [],
}
META["explanation"] += " " + "(X-copykind) the copy constructor of TagBit keeps the kind of its source in every arm (a Make<K>Tag helper may be used only in an arm whose labels are exactly K). PR-looptag additionally: every scanner that takes the loop context receives the caller's current one."
META["explanation"] += " " + '(PR-childflag) typestate pairing on the CFG of parse(): the in-a-child-tag flag is set only together with a push of the parent storage, and on every path out of the statement that pops it the flag is false exactly when the storage was popped. (SIGN-unit) a raw code unit is ordered against a constant only where the enclosing condition gives the same answer for signed and unsigned units (three-valued evaluation of the formula for "a unit >= 0x80" in both readings).'
META["explanation"] += " " + '(IDX-digits) every call of the unchecked Digit::FastStringToNumber is preceded by a digit scan of the same (pointer, length), bounded by the length and by a constant number of digits, and by a return for a partial or empty match.'
META["explanation"] += " " + "PR-looptag additionally: a loop's own Set record is checked against the loop chain starting at that loop's Parent."

T = "Qentem::TemplateCore::"

# documented spellings (Documentation/Template.md) of the finder words (without the bracket) and attributes
WORDS = {"InLineSuffix": "}", "VariablePrefix": "var:", "RawVariablePrefix": "raw:", "MathPrefix": "math:",
         "SuperVariablePrefix": "svar:", "InLineIfPrefix": "if", "MultiLineSuffix": ">", "LoopPrefix": "loop",
         "LoopSuffix": "/loop>", "IfPrefix": "if", "IfSuffix": "/if>", "ElsePrefix": "else", "Case": "case",
         "True": "true", "False": "false", "Set": "set", "Value": "value", "Sort": "sort", "Group": "group"}
# declared length constant -> (literal, extra for the consumed bracket)
LENGTHS = {"VariablePrefixLength": ("VariablePrefix", 1), "RawVariablePrefixLength": ("RawVariablePrefix", 1),
           "MathPrefixLength": ("MathPrefix", 1), "SuperVariablePrefixLength": ("SuperVariablePrefix", 1),
           "InLineIfPrefixLength": ("InLineIfPrefix", 1), "LoopPrefixLength": ("LoopPrefix", 1),
           "LoopSuffixLength": ("LoopSuffix", 1), "IfPrefixLength": ("IfPrefix", 1), "IfSuffixLength": ("IfSuffix", 1),
           "ElsePrefixLength": ("ElsePrefix", 1), "CaseLength": ("Case", 0), "TrueLength": ("True", 0),
           "FalseLength": ("False", 0), "SetLength": ("Set", 0), "ValueLength": ("Value", 0), "GroupLength": ("Group", 0),
           "SortLength": ("Sort", 0), "InLineSuffixLength": ("InLineSuffix", 0), "MultiLineSuffixLength": ("MultiLineSuffix", 0)}
CHARS = {"InLineFirstChar": "{", "InLineLastChar": "}", "MultiLineFirstChar": "<", "MultiLineLastChar": ">",
         "VariableIndexPrefix": "[", "VariableIndexSuffix": "]", "EqualChar": "=", "SpaceChar": " ",
         "VariablesSeparatorChar": ",", "CaseChar": "c", "TrueChar": "t", "FalseChar": "f", "SetSortChar": "s",
         "ValueChar": "v", "GroupChar": "g", "ElseIfChar": "i"}
DERIVED = {"VariableFullLength": ("VariablePrefixLength", "InLineSuffixLength"),
           "RawVariableFullLength": ("RawVariablePrefixLength", "InLineSuffixLength")}
IDS = ["LineEndID", "VariableID", "RawVariableID", "MathID", "SuperVariableID", "InLineIfID", "LoopID", "LoopEndID",
       "IfID", "IfEndID", "ElseID"]
WORD_ORDER = [None, "VariablePrefix", "RawVariablePrefix", "MathPrefix", "SuperVariablePrefix", "InLineIfPrefix",
              "LoopPrefix", "LoopSuffix", "IfPrefix", "IfSuffix", "ElsePrefix"]


META["explanation"] += " " + '(PR-chain) in the loop of renderIf over the cases of an <if>, every break/return is preceded in its own or an enclosing compound statement by an unconditional call of render(): a case that is false or has no value is passed over, nothing but a rendered case ends the walk.'

META["explanation"] += " " + 'Taken over unchanged from other modules because a seeded change to this property was reported by them (rules.common.shared): FX-sink from C03; SB-loopitem/OUT-def from C01; PR-consumed from C04.'

META["explanation"] += " " + 'Also taken over (a rule id already present here is kept as id/module): FLOW-key from C18.'

def rule_patterns(ctx, m):
    r = Rule("TB-patterns", "pattern literals spell the documented tags and declared lengths equal literal lengths", floor=120)
    tps = tab.members(m, "Qentem::Tags::TPStrings_T")
    if len(tps) != 5:
        r.broke("expected 5 TPStrings_T specialisations, found %d" % len(tps))
    for targs, mm in sorted(tps.items()):
        for name, text in WORDS.items():
            v = mm.get(name)
            u = tab.var_units(m, v) if v else None
            r.ob("TPStrings_T" + targs, name, u == [ord(c) for c in text], "literal %r, documented %r" % (tab.ascii_text(u) if isinstance(u, list) else u, text),
                 tab.rel(v) if v else "")
    pat = tab.members(m, "Qentem::Tags::TagPatterns_T")
    for targs, mm in pat.items():
        for name, (lit, extra) in LENGTHS.items():
            v = mm.get(name)
            val = tab.var_int(m, v) if v else None
            r.ob("TagPatterns_T", name, val == len(WORDS[lit]) + extra, "declared %s, literal %r has %d units (+%d bracket)" % (val, WORDS[lit], len(WORDS[lit]), extra),
                 tab.rel(v) if v else "")
        for name, ch in CHARS.items():
            v = mm.get(name)
            val = tab.var_int(m, v) if v else None
            r.ob("TagPatterns_T", name, val == ord(ch), "value %r want %r" % (val, ch), tab.rel(v) if v else "", nontrivial=False)
        for name, (a, b) in DERIVED.items():
            v = mm.get(name)
            val = tab.var_int(m, v) if v else None
            want = tab.var_int(m, mm[a]) + tab.var_int(m, mm[b]) if a in mm and b in mm else None
            r.ob("TagPatterns_T", name, val is not None and val == want, "declared %s, %s + %s = %s" % (val, a, b, want), tab.rel(v) if v else "")
        for i, name in enumerate(IDS):
            v = mm.get(name)
            r.ob("TagPatterns_T", name, v is not None and tab.var_int(m, v) == i + 1, "pattern ID must be word index + 1 = %d" % (i + 1), tab.rel(v) if v else "")
        # each pattern pointer refers to the TPStrings literal of the same name
        for name in WORD_ORDER[1:]:
            v = mm.get(name)
            u = tab.var_units(m, v) if v else None
            ok = u == ("ref", "TPStrings::" + name)
            r.ob("TagPatterns_T", name + " -> TPStrings", ok, "initialiser %r" % (u,), tab.rel(v) if v else "", nontrivial=False)
    return r


def rule_words(ctx, m):
    r = Rule("TB-words", "finder word list, sizes, groups and first-character tables are mutually consistent", floor=18)
    L = "Qentem::Tags::List::"
    words = tab.local_table(m, L + "GetWord", "list")[0]
    sizes = tab.var_list(m, tab.local_table(m, L + "GetWordLength", "sizes")[0])
    groups = tab.var_list(m, tab.local_table(m, L + "GetGroupedByFirstChar", "group")[0])
    counts = tab.var_list(m, tab.local_table(m, L + "GetGroupedByFirstCount", "counts")[0])
    # word list entries as names
    init = words["nodes"][words["init"]]
    names = []
    for c in init.get("ch", []):
        n = words["nodes"][c]
        while n["k"] in ("ImplicitCastExpr", "ParenExpr") and n.get("ch"):
            n = words["nodes"][n["ch"][0]]
        if n["k"] in ("CXXNullPtrLiteralExpr", "GNUNullExpr") or (n["k"] == "IntegerLiteral" and n.get("cv") == 0):
            names.append(None)
        else:
            names.append(n.get("n"))
    r.ob(L + "GetWord", "word order", names == WORD_ORDER, "list is %s" % names, tab.rel(words))
    r.ob(L + "GetWordLength", "table length", sizes is not None and len(sizes) == len(WORD_ORDER), "%s entries for %d words" % (len(sizes) if sizes else None, len(WORD_ORDER)), "Include/Tags.hpp")
    for i, nm in enumerate(WORD_ORDER):
        if sizes is None or i >= len(sizes):
            continue
        if nm is None:
            r.ob(L + "GetWordLength", "sizes[0]", sizes[i] == 1, "single-character slot", "Include/Tags.hpp", nontrivial=False)
            continue
        want = len(WORDS[nm]) - 1
        r.ob(L + "GetWordLength", "sizes[%d] (%s)" % (i, nm), sizes[i] == want,
             "declared %s; the finder reads word[size] as the last unit, so size must be len(%r) - 1 = %d" % (sizes[i], WORDS[nm], want), "Include/Tags.hpp")
    # groups: rows of word indices whose (implicit) first char is the row's char; counts match; every word in exactly one group
    first = {0: "{", 1: "<"}
    bracket = {"VariablePrefix": "{", "RawVariablePrefix": "{", "MathPrefix": "{", "SuperVariablePrefix": "{", "InLineIfPrefix": "{",
               "LoopPrefix": "<", "LoopSuffix": "<", "IfPrefix": "<", "IfSuffix": "<", "ElsePrefix": "<"}
    seen = []
    for gi in range(2):
        row = groups[gi][:counts[gi]] if groups and counts and gi < len(groups) and gi < len(counts) else []
        ok = bool(row) and all(isinstance(w, int) and 0 < w < len(WORD_ORDER) and bracket[WORD_ORDER[w]] == first[gi] for w in row)
        r.ob(L + "GetGroupedByFirstChar", "group[%d]" % gi, ok and counts[gi] <= len(groups[gi]), "row %s (count %s) must list words opened by %r" % (row, counts[gi] if counts else None, first[gi]), "Include/Tags.hpp")
        seen += row
    r.ob(L + "GetGroupedByFirstChar", "every word in exactly one group", sorted(seen) == list(range(1, len(WORD_ORDER))), "grouped words %s" % sorted(seen), "Include/Tags.hpp")
    lst = tab.members(m, "Qentem::Tags::List")
    for targs, mm in lst.items():
        v = mm.get("FirstCharsCount")
        r.ob("Qentem::Tags::List", "FirstCharsCount", v is not None and tab.var_int(m, v) == 2 and counts is not None and len(counts) == 2, "2 first characters, 2 groups", tab.rel(v) if v else "", nontrivial=False)
    # GetFirstCharID: '{' -> 0, '<' -> 1, default -> FirstCharsCount
    f = m.fn(L + "GetFirstCharID")
    sws = astq.nodes_of(f, "SwitchStmt")
    got = {}
    for labels, stmts in astq.switch_arms(f, sws[0]):
        rets = [x for s in stmts for x in astq.returns(f, s)]
        val = f.const_value(f.nodes[rets[0]]["val"]) if rets else None
        for l in labels:
            got[(l[0] or "").split("::")[-1]] = val
    r.ob(f.q, "first-char IDs", got == {"InLineFirstChar": 0, "MultiLineFirstChar": 1, "default": 2}, "map %s" % got, "Include/Tags.hpp:%d" % f.line)
    fc = tab.local_table(m, L + "GetFirstChar", "first_chars")[0]
    fcn = [fc["nodes"][c] for c in fc["nodes"][fc["init"]].get("ch", [])]
    fnames = []
    for n in fcn:
        while n["k"] in ("ImplicitCastExpr", "ParenExpr") and n.get("ch"):
            n = fc["nodes"][n["ch"][0]]
        fnames.append(n.get("n"))
    r.ob(L + "GetFirstChar", "first_chars", fnames == ["InLineFirstChar", "MultiLineFirstChar"], "table %s" % fnames, tab.rel(fc), nontrivial=False)
    return r


def _run_own(ctx):
    m = ctx.pattern()
    from rules.common import rule_narrow_units, rule_finder_all_words, rule_copy_kind
    rules = [rule_patterns(ctx, m), rule_words(ctx, m), rule_copy_kind(ctx, m),
             rule_narrow_units(ctx, m, ["Template.hpp", "Finder.hpp", "Tags.hpp", "StringUtils.hpp", "Value.hpp"]),
             rule_finder_all_words(ctx, m)]

    # ---------------- X-dispatch
    r = Rule("X-dispatch", "parse has an arm per pattern ID; render dispatches each tag kind to its renderer with its record", floor=18)
    pf = m.fn(T + "parse")
    ctx.note_fn(pf)
    sws = astq.nodes_of(pf, "SwitchStmt")
    top = sws[0]
    seen = set()
    for labels, stmts in astq.switch_arms(pf, top):
        for l in labels:
            seen.add((l[0] or "").split("::")[-1])
    for name in IDS:
        r.ob(pf.q, "case " + name, name in seen, "pattern has an arm in the scanner", pf.loc(top))
    rf = m.fn(T + "render")
    ctx.note_fn(rf)
    want = {"Variable": ("renderVariable", "GetVariableTag"), "RawVariable": ("renderRawVariable", "GetVariableTag"),
            "Math": ("renderMath", "GetMathTag"), "SuperVariable": ("renderSuperVariable", "GetSuperVariableTag"),
            "InLineIf": ("renderInLineIf", "GetInLineIfTag"), "Loop": ("renderLoop", "GetLoopTag"), "If": ("renderIf", "GetIfTag")}
    sws = astq.nodes_of(rf, "SwitchStmt")
    got = {}
    for labels, stmts in astq.switch_arms(rf, sws[0]):
        for l in labels:
            nm = (l[0] or "").split("::")[-1]
            cs = [rf.call_simple_name(c) for s in stmts for c in astq.calls(rf, None, s)]
            got[nm] = cs
    for kind, (rend, getter) in want.items():
        cs = got.get(kind)
        r.ob(rf.q, "case " + kind, cs is not None and rend in cs and getter in cs and len([c for c in cs if c.startswith("render")]) == 1,
             "arm calls %s (want %s(%s()))" % (cs, rend, getter), "Include/Template.hpp:%d" % rf.line)
    # the tail slice after the loop
    tail = [c for c in astq.calls(rf, "Write") if [rf.text(a) for a in rf.call_args(c)] == ["(content_ + offset)", "(end_offset - offset)"]]
    r.ob(rf.q, "tail slice", len(tail) == 1, "text after the last tag is copied as (content_ + offset, end_offset - offset)", "Include/Template.hpp:%d" % rf.line)
    rules.append(r)

    # ---------------- PR-cursor
    r = Rule("PR-cursor", "every renderer copies [offset, tag start) first and then sets offset to the tag end", floor=7)
    starts = {"renderVariable": "(t_offset - offset)", "renderRawVariable": "(t_offset - offset)", "renderMath": "(tag.Offset - offset)",
              "renderSuperVariable": "(tag.Offset - offset)", "renderInLineIf": "(tag.Offset - offset)", "renderLoop": "(tag.Offset - offset)",
              "renderIf": "(tag.Offset - offset)"}
    for name, length_txt in starts.items():
        f = m.fn(T + name)
        ctx.note_fn(f)
        writes = astq.calls(f, "Write")
        first = writes[0] if writes else None
        ok_first = first is not None and [f.text(a) for a in f.call_args(first)] == ["(content_ + offset)", length_txt]
        # offset assignments at top level of the body (unconditional), after the first write
        body = f.nodes[f.body]
        assigns = []
        for s in body.get("ch", []):
            n = f.nodes[s]
            if n["k"] in ("BinaryOperator", "CompoundAssignOperator") and f.nodes[f.strip(n["ch"][0])].get("n") == "offset":
                assigns.append(f.text(s))
        # no write to the stream precedes the literal slice
        before = [c for c in astq.calls(f) if c < (first or 0) and any(f.nodes[x].get("n") == "stream_" for x in f.walk(c))]
        r.ob(f.q, "literal slice then cursor", ok_first and bool(assigns) and not before,
             "first write %s; unconditional cursor updates %s" % ([f.text(a) for a in f.call_args(first)] if first else None, assigns), "Include/Template.hpp:%d" % f.line)
    rules.append(r)

    # ---------------- PR-fallback
    r = Rule("PR-fallback", "an unresolved {var:}/{raw:}/{math:}/{svar:} reaches a write of its own source text", floor=4)
    echo = {"renderVariable": ("EscapeHTMLSpecialChars", ["(content_ + t_offset)", "length"]),
            "renderRawVariable": ("Write", ["(content_ + t_offset)", "length"]),
            "renderMath": ("Write", ["(content_ + tag.Offset)", "(tag.EndOffset - tag.Offset)"]),
            "renderSuperVariable": ("Write", ["(content_ + tag.Offset)", "(tag.EndOffset - tag.Offset)"])}
    for name, (callee, args) in echo.items():
        f = m.fn(T + name)
        hits = [c for c in astq.calls(f, callee) if [f.text(a) for a in f.call_args(c)][-2:] == args]
        ok = len(hits) == 1
        where = ""
        if ok:
            # the echo is on the failure side of the resolution test
            iff = astq.enclosing(f, hits[0], ("IfStmt",))
            where = f.text(f.nodes[iff]["cond"]) if iff is not None else "?"
            ok = iff is not None
        r.ob(f.q, "verbatim echo", ok, "echo of the tag source under `%s`" % where[:80], f.loc(hits[0]) if hits else "Include/Template.hpp:%d" % f.line)
    rules.append(r)

    # ---------------- TB-loopopts
    r = Rule("TB-loopopts", "sort option: 'a' selects SortAscend else SortDescend; renderLoop tests the same bits", floor=3)
    opts = tab.members(m, "Qentem::Tags::LoopTagOptions")
    ov = {k: tab.var_int(m, v) for k, v in list(opts.values())[0].items()}
    r.ob("Qentem::Tags::LoopTagOptions", "values", ov.get("SortAscend") is not None and ov.get("SortDescend") is not None and
         ov.get("SortAscend") != ov.get("SortDescend") and min(ov["SortAscend"], ov["SortDescend"]) > 1 and (ov["SortAscend"] & ov["SortDescend"]) == 0,
         "option bits %s (both > 1 so that `Options > 1` means 'sorted', disjoint)" % ov, "Include/Tags.hpp", nontrivial=True)
    pl = m.fn(T + "parseLoopAttributes")
    conds = [i for i in astq.nodes_of(pl, "ConditionalOperator")]
    ok = False
    for c in conds:
        n = pl.nodes[c]
        ct = pl.text(n["ch"][0])
        a, b = pl.nodes[pl.strip(n["ch"][1])].get("n"), pl.nodes[pl.strip(n["ch"][2])].get("n")
        if "== 97" in ct and "content[att_offset]" in ct:
            ok = (a, b) == ("SortAscend", "SortDescend")
    r.ob(pl.q, "sort letter", ok, "content[att_offset] == 'a' ? SortAscend : SortDescend", "Include/Template.hpp:%d" % pl.line)
    rl = m.fn(T + "renderLoop")
    txt = " ".join(rl.text(c) for c in astq.calls(rl, "Sort"))
    r.ob(rl.q, "Sort argument", "SortAscend" in txt and "& " in txt and "== " in txt, "Sort((Options & SortAscend) == SortAscend): %s" % txt[:120], "Include/Template.hpp:%d" % rl.line)
    rules.append(r)

    # ---------------- PR-looptag
    r = Rule("PR-looptag", "the enclosing-loop pointer is pushed at <loop> and restored from the closed tag at </loop>; every scanner that takes the loop context receives the current one", floor=10)
    arms = {}
    for labels, stmts in astq.switch_arms(pf, top):
        for l in labels:
            arms[(l[0] or "").split("::")[-1]] = stmts
    def assigns_to(f, stmts, name):
        out = []
        for s in stmts:
            for i in f.walk(s):
                n = f.nodes[i]
                if n["k"] == "BinaryOperator" and n["op"] == "=" and f.text(n["ch"][0]) == name:
                    out.append(f.text(n["ch"][1]))
        return out
    lo = arms.get("LoopID", [])
    le = arms.get("LoopEndID", [])
    push_parent = assigns_to(pf, lo, "tag->Parent")
    push = assigns_to(pf, lo, "loop_tag")
    pop = assigns_to(pf, le, "loop_tag")
    r.ob(pf.q, "case LoopID", push_parent == ["loop_tag"] and push == ["tag"], "tag->Parent = loop_tag; loop_tag = tag (found %s / %s)" % (push_parent, push), pf.loc(lo[0]) if lo else "")
    r.ob(pf.q, "case LoopEndID", pop == ["tag.Parent"], "loop_tag = tag.Parent (found %s)" % pop, pf.loc(le[0]) if le else "")
    # the loop context reaches every scanner that resolves variables: a function that has the current loop in scope (a variable
    # or parameter of type const LoopTag *) hands exactly that to every callee that takes one
    takers = {}
    for g in m.functions:
        if g.inst or g.cls != "Qentem::TemplateCore":
            continue
        idx = [i for i, p_ in enumerate(g.params) if "LoopTag *" in p_["t"] and p_.get("ptr")]
        if idx:
            takers[(g.name, len(g.params))] = idx[0]
    for g in m.functions:
        if g.inst or g.cls != "Qentem::TemplateCore" or not g.cfg:
            continue
        ctxvars = [p_["n"] for p_ in g.params if "LoopTag *" in p_["t"] and p_.get("ptr")]
        ctxvars += [d["n"] for st_ in astq.nodes_of(g, "DeclStmt") for d in g.nodes[st_]["decls"] if "LoopTag *" in d.get("t", "") and d.get("tk") == "ptr" and d.get("n") == "loop_tag"]
        if not ctxvars:
            continue
        for c in astq.calls(g):
            key = (g.call_simple_name(c), len(g.call_args(c)))
            if key not in takers:
                # trailing parameters may have defaults: the overload with the fewest parameters that still takes all arguments
                more = sorted(k for k in takers if k[0] == key[0] and k[1] > key[1] and takers[k] < key[1])
                if not more:
                    continue
                key = more[0]
            if g.call_receiver(c) is not None:
                continue
            a = g.call_args(c)[takers[key]]
            at = g.text(g.strip_casts(a))
            r.ob(g.q, g.text(c)[:60], at in ctxvars, "loop context passed: `%s` (in scope: %s)" % (at, ctxvars), g.loc(c))
    # the set of a loop is looked up in the context that ENCLOSES the loop: a call that checks a loop's own Set record against the
    # loop chain starts at that loop's Parent, never at the loop itself (else set="items" value="item" matches its own value)
    for g in m.functions:
        if g.inst or g.cls != "Qentem::TemplateCore" or not g.cfg:
            continue
        for c in astq.calls(g, "checkLoopVariable"):
            a = g.call_args(c)
            if len(a) < 3:
                continue
            vt = g.text(a[1]).replace(" ", "")
            mm = re.match(r"^\(?\*?(\w+)(\.|->)Set\)?$", vt)
            if not mm:
                continue
            owner = mm.group(1)
            ct = g.text(g.strip_casts(a[2])).replace(" ", "")
            ok = ct in ("%s.Parent" % owner, "%s->Parent" % owner)
            r.ob(g.q, g.text(c)[:60], ok, "the loop's own set is resolved from `%s`%s" % (ct, "" if ok else
                 ": that is not the loop's parent -- the chain then starts at the loop itself and a set whose name begins with the loop's own value name is taken for that value"), g.loc(c))
    rules.append(r)
    rules.append(rule_child_flag(ctx, m, pf))
    rules.append(rule_if_chain(ctx, m))
    from rules.common import rule_sign_unit, rule_fast_digits
    rules.append(rule_sign_unit(ctx, m, ["Template.hpp", "Digit.hpp", "QExpression.hpp", "StringUtils.hpp"]))
    rules.append(rule_fast_digits(ctx, m))
    return rules


def rule_if_chain(ctx, m):
    """PR-chain: renderIf walks the cases of an <if> in order and leaves the walk when one of them was rendered; a case that is
    false -- or has no value (5/0, text in arithmetic) -- is passed over, so a later <elseif>/<else> still gets its turn.  In the
    loop over the cases every `break`/`return` is preceded, in its own or an enclosing compound statement, by an unconditional call
    of render(): nothing else ends the walk."""
    r = Rule("PR-chain", "the walk over the cases of an <if> ends only after a case was rendered", floor=1)
    fs = [f for f in m.functions if not f.inst and f.cfg and f.cls == "Qentem::TemplateCore" and f.name == "renderIf"]
    if not fs:
        r.broke("TemplateCore::renderIf not found")
        return r
    f = fs[0]
    ctx.note_fn(f)
    par = f.parents()
    loops = [w for w in astq.nodes_of(f, ("DoStmt", "WhileStmt", "ForStmt")) if any(f.call_simple_name(c) == "render" for c in astq.calls(f, None, w))]
    if not loops:
        r.broke("renderIf: no loop that renders a case was found")
        return r
    for w in loops:
        exits = []
        for x in f.walk(f.nodes[w].get("body", w)):
            k = f.nodes[x]["k"]
            if k == "ReturnStmt":
                exits.append(x)
            elif k == "BreakStmt":
                up = par.get(x)
                own = True
                while up is not None and up != w:
                    if f.nodes[up]["k"] in ("DoStmt", "WhileStmt", "ForStmt", "SwitchStmt"):
                        own = False
                    up = par.get(up)
                if own:
                    exits.append(x)
        if not exits:
            r.ob(f.q, "loop over the cases", True, "the loop has no early exit", f.loc(w))
        for x in exits:
            ok = False
            child, up = x, par.get(x)
            while up is not None and child != w:
                un = f.nodes[up]
                if un["k"] == "CompoundStmt":
                    for sib in un.get("ch", []):
                        if sib == child:
                            break
                        sn = f.nodes[f.strip(sib)]
                        if sn["k"] in ("CallExpr", "CXXMemberCallExpr") and f.call_simple_name(f.strip(sib)) == "render":
                            ok = True
                child, up = up, par.get(up)
            r.ob(f.q, "%s at line %s" % (f.nodes[x]["k"][:-4].lower(), f.nodes[x].get("l", "?")), ok, "a case was rendered before the walk ends" if ok else
                 "this exit ends the walk over the cases without any case having been rendered: a case without a value (5/0) then hides the <else> that follows it", f.loc(x))
    return r


def rule_child_flag(ctx, m, pf):
    """PR-childflag: parse() keeps one boolean that says "the tags being collected belong to an open {svar:...}/{if ...} tag"; it
    is set where such a tag pushes its parent's storage and must be cleared where the closing `}` pops it, whichever kind of
    tag is being closed -- otherwise a later literal `}` pops the storage of an enclosing <loop>/<if> block.  Typestate pairing on
    the CFG: (set) every assignment flag = true sits in a block that also pushes the storage stack; (clear) from the true edge of
    every test of the flag that guards a pop of the stack, every path out of the guarded statement passes flag = false."""
    r = Rule("PR-childflag", "the in-a-child-tag flag is set with the push of the parent storage and cleared on every path that pops it", floor=4)
    ctx.note_fn(pf)
    blocks = pf.blocks()

    def lit_assign(e, val):
        n = pf.nodes[e]
        if n["k"] == "BinaryOperator" and n["op"] == "=":
            lh = pf.nodes[pf.strip(n["ch"][0])]
            if lh["k"] == "DeclRefExpr" and lh.get("tk") == "bool" and lh.get("dk") == "var" and pf.const_value(n["ch"][1]) is not None \
                    and bool(pf.const_value(n["ch"][1])) == val:
                return lh["d"], lh["n"]
        return None
    # the storage stack: a local Array of pointers to Array<TagBit>
    stacks = set(d["n"] for x in astq.nodes_of(pf, "DeclStmt") for d in pf.nodes[x]["decls"] if "n" in d and "Array<Array<" in d.get("t", "").replace(" ", "") and "*>" in d.get("t", "").replace(" ", ""))
    if not stacks:
        r.broke("parse: the stack of parent tag storages (a local Array<Array<TagBit> *>) was not found")
        return r

    def pushes(b):
        for e in b["el"]:
            x = e.get("n")
            if isinstance(x, int) and not e.get("k"):
                n = pf.nodes[x]
                if n["k"] in ("CompoundAssignOperator", "CXXOperatorCallExpr", "BinaryOperator") and n.get("op") == "+=" and pf.text(n["ch"][0] if n["k"] != "CXXOperatorCallExpr" else pf.call_args(x)[0]) in stacks:
                    return True
        return False

    def pops(root):
        return [c for c in astq.calls(pf, "Drop", root) if pf.call_receiver(c) is not None and pf.text(pf.call_receiver(c)) in stacks]
    flags = {}
    for b in pf.cfg["blocks"]:
        for e in b["el"]:
            x = e.get("n")
            if isinstance(x, int) and not e.get("k"):
                la = lit_assign(x, True)
                if la:
                    flags.setdefault(la, []).append((b, x))
    cand = {k: v for k, v in flags.items() if any(pushes(b) for (b, x) in v)}
    if len(cand) != 1:
        r.broke("parse: expected one boolean that is set where a tag pushes its parent's storage, found %s" % sorted(n for (_, n) in cand))
        return r
    (fd, fname), sets = list(cand.items())[0]
    for (b, x) in sets:
        r.ob(pf.q, "%s = true" % fname, pushes(b), "the flag is set %s" % ("together with the push of the parent storage" if pushes(b) else "without pushing the parent storage: the next `}` pops a level that was never pushed"), pf.loc(x))
    # guarded pops
    guarded = []
    for i in astq.nodes_of(pf, "IfStmt"):
        n = pf.nodes[i]
        atoms = []
        from rules.progress import flatten_and
        flatten_and(pf, n["cond"], atoms)
        if any(pf.nodes[a]["k"] == "DeclRefExpr" and pf.nodes[a].get("d") == fd for a in atoms) and pops(n["then"]):
            guarded.append(i)
    if not guarded:
        r.broke("parse: no test of `%s` guards a pop of the storage stack" % fname)
        return r
    for i in guarded:
        region = set(pf.walk(pf.nodes[i]["then"]))
        def real(b_):
            return [e["n"] for e in b_["el"] if isinstance(e.get("n"), int) and not e.get("k")]
        in_region = set(b_["id"] for b_ in pf.cfg["blocks"] if real(b_) and all(x in region for x in real(b_)))
        transparent = set(b_["id"] for b_ in pf.cfg["blocks"] if not real(b_))
        n = pf.nodes[i]
        atoms = []
        flatten_and(pf, n["cond"], atoms)
        lastatom = pf.strip(atoms[-1])
        entries = []
        for b_ in pf.cfg["blocks"]:
            if "cond" in b_ and pf.strip(b_["cond"]) == lastatom:
                entries += [blocks[s_] for (s_, k_, p_) in dataflow.successors(pf, b_) if k_ == "true"]
        if not entries:
            r.broke("parse: the true edge of `%s` was not found in the CFG" % pf.text(n["cond"])[:60])
            continue
        bad = None
        seen = set()
        pop_nodes = set(pops(pf.nodes[i]["then"]))
        # state: (flag value, pushed levels relative to the entry); consistent = (true, 0) or (false, -1)
        work = [(b["id"], (True, 0)) for b in entries]
        while work and bad is None:
            bid, stt = work.pop()
            if (bid, stt) in seen:
                continue
            seen.add((bid, stt))
            b = blocks[bid]
            last = None
            flag, depth = stt
            for e in b["el"]:
                x = e.get("n")
                if isinstance(x, int) and not e.get("k") and x in region:
                    last = x
                    n_ = pf.nodes[x]
                    la = lit_assign(x, False)
                    if la and la[0] == fd:
                        flag = False
                    la = lit_assign(x, True)
                    if la and la[0] == fd:
                        flag = True
                    if x in pop_nodes:
                        depth -= 1
                    if n_["k"] in ("CompoundAssignOperator", "CXXOperatorCallExpr", "BinaryOperator") and n_.get("op") == "+=" and \
                            pf.text(n_["ch"][0] if n_["k"] != "CXXOperatorCallExpr" else pf.call_args(x)[0]) in stacks:
                        depth += 1
            for (s_, k_, p_) in dataflow.successors(pf, b):
                if s_ in in_region or s_ in transparent:
                    if abs(depth) < 4:
                        work.append((s_, (flag, depth)))
                elif (flag, depth) not in ((True, 0), (False, -1)):
                    bad = (b, last, flag, depth)
        where = pf.loc(bad[1]) if bad and bad[1] is not None else pf.loc(i)
        r.ob(pf.q, "if (%s ...) pop" % fname, bad is None, "on every path out of the statement `%s` is false exactly when the parent storage was popped" % fname if bad is None else
             "a path leaves the statement at %s with `%s` %s and the storage stack %s: %s" % (
                 where[0] if isinstance(where, tuple) else where, fname, "true" if bad[2] else "false", "popped" if bad[3] < 0 else ("not popped" if bad[3] == 0 else "pushed once more"),
                 "the next literal `}` in the text pops the storage of an enclosing block" if bad[2] else "the closing `}` of the child tag is taken for text"), pf.loc(i))
    return r


def run(ctx):
    rules_ = list(_run_own(ctx) or [])
    from rules.common import shared
    have = set(r_.rid for r_ in rules_)
    rules_ += [r_ for r_ in shared(ctx, 'C03', ['FX-sink']) if r_.rid not in have]
    rules_ += [r_ for r_ in shared(ctx, 'C01', ['SB-loopitem', 'OUT-def']) if r_.rid not in have]
    rules_ += [r_ for r_ in shared(ctx, 'C04', ['PR-consumed']) if r_.rid not in have]
    for r_ in shared(ctx, 'C18', ['FLOW-key']):
        if r_.rid in set(x.rid for x in rules_):
            r_.rid = r_.rid + "/C18"
        rules_.append(r_)
    return rules_
