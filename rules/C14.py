import re
"""C14 -- Array, String, StringStream and StringView behave as plain sequences (structural clauses)."""
from qlib import astq, dataflow
from qlib.model import AnalysisBroken
from qlib.report import Rule
from qlib.zone import ContractTable, Contract
from qlib import zonecheck

META = {
    "explanation": "E-SIB/E-OWN/E-ZONE on the uninstantiated containers plus the SIMD tables of three build "
                   "configurations: (SB-append) in every append member the first element is written at Storage() + the "
                   "size BEFORE the update (destination expression and the order of the size update are checked for "
                   "the sibling family Array::operator+= x4, String::Write, StringStream::write/+=(char), "
                   "HashTable::insert); (ALIAS/BORROW) a raw element pointer passed to a container method may point into "
                   "that container (self-append): it is not used after a call that may release the storage, and no "
                   "borrowed storage pointer is used after such a call anywhere in the container headers; (PR-nul) every "
                   "String path that sets a length stores the terminator at that index of the same storage; (ZB-null) "
                   "First()[i] on a possibly empty String needs i < Length(), and a pointer parameter that is compared "
                   "with nullptr is only dereferenced where that test succeeded; (TB-simd) per SIMD configuration "
                   "1 << Shift == Size == sizeof(VAR_T), only unaligned load/store intrinsics, and the vector loop + "
                   "tail of Copy/SetToZero cover [0,size); Memory::AlignSize returns the next power of two; "
                   "(O3) moved-from containers are nulled.",
    "not_decided": "equality with a sequence model over operation histories",
    "assumptions": ["element relocation by byte copy is valid for the element types used (no self-pointers; checked under C16)"],
}
META["explanation"] += " " + '(SB-bytes) Memory::Copy / SetToZero receive a byte count: an element count times sizeof(element) (14 call sites).'
META["explanation"] += " " + 'Also: an element reference handed to a container method may refer to an element of that container (a += a[0]) and a same-class argument taken by const reference may be the container itself (h += h) -- neither is used after a call that may release the storage; no register-wide access sits outside the counted vector loop of Copy/SetToZero (a literal offset fits one register width only); (NARROW-unit) no code unit is narrowed below 32 bits in the string utilities.'
META["explanation"] += " " + "(SB-capsize) Array's copying members record the source's size as capacity. (PR-keep) the appending members of StringStream / String / Array reach, through the class's own members, none that discards the content (call-graph rule; the discarding members are found from their bodies)."
META["explanation"] += " " + '(NULL-store) a String / StringStream member writes through its own Storage() only where the empty, storage-less state was excluded (must-analysis; a non-strict bound such as len <= Length() does not exclude it unless len != 0 was established).'


META["explanation"] += " " + 'Taken over unchanged from other modules because a seeded change to this property was reported by them (rules.common.shared): O12-descendant from C16; ASYM/SB-eqlen from C15.'

def size_updates(f):
    """node ids of statements that change the container's size/length"""
    out = []
    for i in f.walk():
        n = f.nodes[i]
        if n["k"] in ("CallExpr", "CXXMemberCallExpr") and f.call_simple_name(i) in ("setSize", "setLength") and \
                (f.call_receiver(i) is None or f.nodes[f.strip(f.call_receiver(i))]["k"] == "CXXThisExpr"):
            out.append(i)
        if n["k"] == "UnaryOperator" and n["op"] == "++" and f.text(n["ch"][0]) in ("index_", "length_", "this.index_"):
            out.append(i)
        if n["k"] == "CompoundAssignOperator" and n["op"] == "+=" and f.text(n["ch"][0]) in ("index_", "length_"):
            out.append(i)
    return sorted(out)


def _run_own(ctx):
    m = ctx.pattern()
    rules = []

    # ---------------- SB-append
    r = Rule("SB-append", "appends write their first element at Storage() + the size before the update", floor=7)
    family = []
    for f in m.functions:
        if f.inst or not f.cfg:
            continue
        if f.cls == "Qentem::Array" and f.d.get("op") == "+=":
            family.append(f)
        if (f.cls, f.name) in (("Qentem::StringStream", "write"), ("Qentem::HashTable", "insert")):
            family.append(f)
        if f.cls == "Qentem::StringStream" and f.d.get("op") == "+=" and f.params and f.params[0]["t"].replace("const ", "") == "Char_T":
            family.append(f)
    for f in family:
        ctx.note_fn(f)
        ups = size_updates(f)
        # destination of the first element write: Initialize(dst, ..) / Copy(dst, ..) / `Storage()[Length()] = ..` / local pointer
        dests = []
        for c in astq.calls(f):
            nm = f.call_simple_name(c)
            if nm in ("Initialize", "Copy") and f.call_args(c):
                # the element write takes its source from a parameter (relocation of the old block does not)
                a = f.call_args(c)
                pnames = set(p["n"] for p in f.params)
                from_param = len(a) > 1 and any(f.nodes[x]["k"] == "DeclRefExpr" and (f.nodes[x]["n"] in pnames or f.nodes[x]["n"] in ("src_item",)) for x in f.walk(a[1]))
                if from_param or len(a) == 1:
                    dests.append((c, a[0]))
        for i in f.walk():
            n = f.nodes[i]
            if n["k"] == "BinaryOperator" and n["op"] == "=" and f.nodes[f.strip(n["ch"][0])]["k"] == "ArraySubscriptExpr":
                dests.append((i, n["ch"][0]))
        if f.name == "insert":
            # HashTable::insert: HItem *item = (Storage() + Size()); ++index_;
            decl = [d for s_ in astq.nodes_of(f, "DeclStmt") for d in f.nodes[s_]["decls"] if d.get("tk") == "ptr" and d.get("init", -1) >= 0]
            dests = [(decl[0]["init"], decl[0]["init"])] if decl else []
        branches = []
        for (at, d) in dests:
            t = f.text(d).replace(" ", "")
            dn = f.nodes[f.strip(d)]
            # a local pointer: use its initialiser
            defined_at = at
            if dn["k"] == "DeclRefExpr" and dn.get("dk") == "var":
                dd = [x for s_ in astq.nodes_of(f, "DeclStmt") for x in f.nodes[s_]["decls"] if x.get("d") == dn["d"]]
                if dd and dd[0].get("init", -1) >= 0:
                    t = f.text(dd[0]["init"]).replace(" ", "")
                    defined_at = dd[0]["init"]
            ok_expr = t in ("(Storage()+Size())", "(Storage()+Length())", "Storage()[Length()]", "Storage()[Size()]")
            # in the `Capacity() == 0` adoption branch nothing is written
            earlier_updates = [u for u in ups if u < defined_at and not same_branch_excluded(f, u, defined_at)]
            branches.append((f.text(d), ok_expr and not earlier_updates, t, [f.text(u) for u in earlier_updates]))
        if not branches:
            r.ob(f.sig, "first element write", False, "no element write recognised in this append", "%s:%d" % (f.file.split("/Include/")[-1], f.line))
        for (dtxt, ok, t, earlier) in branches[:1]:
            r.ob(f.sig, "destination `%s`" % dtxt, ok,
                 "destination resolves to `%s`%s" % (t, ("; the size was already updated by %s, so Storage()+new size or Storage()+0 overwrites/skips elements" % earlier) if earlier else
                 ("" if ok else " which is not Storage() + <current size>: earlier elements are overwritten")), "%s:%d" % (f.file.split("/Include/")[-1], f.line))
    rules.append(r)

    # ---------------- ALIAS / BORROW
    from rules.borrow import rule_borrow
    rb = rule_borrow(ctx, m, files=["Array.hpp", "String.hpp", "StringStream.hpp", "StringView.hpp"], rid="ALIAS", alias_params=True)
    rb.text = "borrowed storage pointers and self-aliasing element pointers are not used after a possible release"
    rules.append(rb)

    # ---------------- PR-nul
    r = Rule("PR-nul", "String: every path that sets a length stores the terminator at that index", floor=4)
    for f in m.functions:
        if f.inst or f.cls != "Qentem::String" or not f.cfg:
            continue
        sets = [c for c in astq.calls(f, "setLength") if f.const_value(f.call_args(c)[0]) != 0]
        inits = [i for i in f.d.get("inits", []) if i.get("field") == "length_" and i.get("written")]
        if not sets and not inits:
            continue
        ctx.note_fn(f)
        nul = []
        for i in f.walk():
            n = f.nodes[i]
            if n["k"] == "BinaryOperator" and n["op"] == "=" and f.const_value(n["ch"][1]) == 0 and f.nodes[f.strip(n["ch"][0])]["k"] == "ArraySubscriptExpr":
                nul.append((i, f.text(f.nodes[f.strip(n["ch"][0])]["ch"][1])))
        if f.name in ("setLength",) or (f.kind in ("movector", "moveassign")):
            continue
        adopt = f.kind == "ctor" and any(p["t"].replace("const ", "").startswith("Char_T *") and not p.get("pconst") for p in f.params)
        for c in sets:
            arg = f.text(f.call_args(c)[0])
            ok = any(idx == arg for (_, idx) in nul) or adopt
            r.ob(f.sig, f.text(c), ok, "terminator stores at indices %s; setLength(%s)%s" % ([x for _, x in nul], arg, " (adopting constructor: the caller's buffer is already terminated)" if adopt else ""), f.loc(c))
        for i in inits:
            if adopt:
                continue
            arg = f.text(i["n"])
            ok = any(idx == arg or idx == arg.strip("{}") for (_, idx) in nul)
            r.ob(f.sig, "length_{%s}" % arg, ok, "terminator stores at indices %s" % [x for _, x in nul], "%s:%d" % (f.file.split("/Include/")[-1], f.line))
    rules.append(r)

    # ---------------- ZB-null
    r = Rule("ZB-null", "possibly-null storage / pointer parameters are only read under their guard", floor=2)
    eqs = [f for f in m.fns("Qentem::String::operator==") if f.params[0]["t"].startswith("const Char_T *")]
    if len(eqs) != 1:
        raise AnalysisBroken("String::operator==(const Char_T *) not found")
    f = eqs[0]
    ctx.note_fn(f)
    table = {f.q + "/1": Contract(buffers={"x:First()": "g:this|Length()"})}
    obs, stats, _ = zonecheck.analyse(m, f, ContractTable(table))
    for o in obs:
        if o.rule == "ZB-read":
            r.add_zone(o)
            r.obs[-1].fn_q = f.sig
    # pointer parameter compared with nullptr: every dereference must be dominated by the successful test
    pname = f.params[0]["n"]
    derefs = [i for i in f.walk() if f.nodes[i]["k"] == "UnaryOperator" and f.nodes[i]["op"] == "*" and f.text(f.nodes[i]["ch"][0]) == pname]
    tests = [b for b in f.cfg["blocks"] if b.get("cond") is not None and f.text(b["cond"]).replace(" ", "") in ("(%s!=nullptr)" % pname, "(nullptr!=%s)" % pname)]
    for d in derefs:
        ok = True
        if tests:
            ok = all(dataflow.dominated_by_branch(f, d, t["cond"], True) for t in tests)
        r.ob(f.sig, "*%s" % pname, ok, "dereference %s by `%s != nullptr`" % ("dominated" if ok else "NOT dominated", pname), f.loc(d))
    rules.append(r)

    # ---------------- TB-simd
    r = Rule("TB-simd", "SIMD tables and the vector+tail copy shape, per configuration", floor=5)
    for cfg in (["sse2", "avx2", "scalar"] if ctx.thorough else ["sse2"]):
        mc = ctx.pattern(cfg)
        simd = [v for v in mc.vars if v["q"] in ("Qentem::Platform::SIMD::Shift", "Qentem::Platform::SIMD::Size")]
        vals = {v["q"].split("::")[-1]: mc.const_of_var(v) for v in simd}
        rec = [x for x in mc.records if x["q"] == "Qentem::Platform::SIMD"]
        enabled = [v for v in mc.vars if v["q"] == "Qentem::Config::IsSIMDEnabled"]
        en = mc.const_of_var(enabled[0]) if enabled else None
        want = {"sse2": 16, "avx2": 32, "scalar": 0}[cfg]
        if cfg == "scalar":
            r.ob("Qentem::Platform::SIMD[%s]" % cfg, "disabled", en in (0, False) , "IsSIMDEnabled = %s" % en, "Include/Platform.hpp")
            continue
        ok = vals.get("Size") == want and vals.get("Shift") is not None and (1 << vals["Shift"]) == want and en in (1, True)
        r.ob("Qentem::Platform::SIMD[%s]" % cfg, "Shift/Size", ok, "Shift %s, Size %s, register bytes %d, enabled %s" % (vals.get("Shift"), vals.get("Size"), want, en), "Include/Platform.hpp")
        intr = []
        for g in mc.functions:
            if g.cls == "Qentem::Platform::SIMD" and g.name in ("Load", "Store"):
                intr += [g.call_simple_name(c) for c in astq.calls(g)]
        okb = bool(intr) and all("loadu" in x or "storeu" in x for x in intr)
        r.ob("Qentem::Platform::SIMD[%s]" % cfg, "unaligned load/store", okb, "intrinsics %s (callers pass arbitrary addresses)" % intr, "Include/Platform.hpp")
    for name in ("Copy", "SetToZero"):
        g = m.fn("Qentem::Memory::" + name)
        ctx.note_fn(g)
        t = " ".join(g.text(x) for x in g.walk() if g.nodes[x]["k"] in ("BinaryOperator", "CompoundAssignOperator", "DeclStmt"))
        ok = "m_size = (size >> Shift)" in t and "(offset = m_size)" in t and "(offset <<= Shift)" in t
        # byte tail: a loop `offset < size` that steps offset by one (in its body or as the for-increment)
        tail = []
        for w in astq.nodes_of(g, ("WhileStmt", "ForStmt")):
            cnd = g.nodes[w].get("cond", -1)
            if cnd is None or cnd < 0 or g.text(cnd).replace(" ", "") not in ("(offset<size)", "offset<size"):
                continue
            steps = [x for x in g.walk(w) if g.nodes[x]["k"] == "UnaryOperator" and g.nodes[x]["op"] == "++" and g.text(g.nodes[x]["ch"][0]) == "offset"]
            if len(steps) == 1:
                tail.append(w)
        r.ob(g.q, "vector + tail", ok and len(tail) == 1, "vector part covers [0, m_size << Shift), the tail loop covers [offset, size)", "Include/Memory.hpp:%d" % g.line)
        # every whole-register access sits in the counted vector loop; one outside it must address size - Size, written with
        # the configuration's own constant (a literal matches one register width only)
        vec = [c for c in astq.calls(g) if (g.call_simple_name(c) or "") in ("Store", "Load") and "SIMD" in (g.callee_name(c)[0] or "SIMD")]
        dos = astq.nodes_of(g, "DoStmt")
        stray = []
        for c in vec:
            lp = astq.enclosing(g, c, ("DoStmt", "WhileStmt", "ForStmt"))
            if lp is not None and lp in dos:
                continue
            def is_size_minus_width(nid):
                n_ = g.nodes[g.strip_casts(nid)]
                if n_["k"] != "BinaryOperator" or n_["op"] != "-" or g.text(g.strip_casts(n_["ch"][0])) != "size":
                    return False
                sub = [g.nodes[x] for x in g.walk(n_["ch"][1])]
                names = [x.get("n") for x in sub if x["k"] in ("DeclRefExpr", "DependentScopeDeclRefExpr", "MemberExpr")]
                return names == ["Size"] and not any(x["k"] == "IntegerLiteral" for x in sub)
            # the address is  base + (size - SIMD::Size), directly or through a local defined that way
            width_locals = set(d["n"] for st_ in astq.nodes_of(g, "DeclStmt") for d in g.nodes[st_]["decls"] if d.get("init", -1) >= 0 and is_size_minus_width(d["init"]))
            arg = g.call_args(c)[0]
            ok_addr = False
            for x in g.walk(arg):
                nx = g.nodes[x]
                if nx["k"] == "BinaryOperator" and nx["op"] == "+":
                    rhs = g.strip_casts(nx["ch"][1])
                    if is_size_minus_width(rhs) or (g.nodes[rhs]["k"] == "DeclRefExpr" and g.nodes[rhs].get("n") in width_locals):
                        ok_addr = True
            if ok_addr:
                continue
            stray.append("%s at %s" % (g.text(c)[:70], g.loc(c)))
        r.ob(g.q, "%d whole-register accesses" % len(vec), bool(vec) and not stray, "all inside the vector loop bounded by m_size registers%s" % (
             "" if not stray else "; NOT: %s -- a register-wide access at a literal offset fits one register width only (16 bytes SSE2, 32 bytes AVX2)" % "; ".join(stray)),
             "Include/Memory.hpp:%d" % g.line)
    al = m.fn("Qentem::Memory::AlignSize")
    t = [al.text(x) for x in al.nodes[al.body]["ch"]]
    ok = len(t) == 3 and "FindLastBit(n_size)" in t[0] and "<<" in t[0] and al.nodes[al.nodes[al.body]["ch"][1]]["k"] == "IfStmt" and "(size < n_size)" in al.text(al.nodes[al.nodes[al.body]["ch"][1]]["cond"])
    r.ob(al.q, "next power of two", ok, "size = 1 << FindLastBit(n); if (size < n) size <<= 1", "Include/Memory.hpp:%d" % al.line)
    rules.append(r)

    # ---------------- O3 moved-from containers are nulled
    r = Rule("O3-moved", "move construction/assignment leaves the source empty (pointer, size, capacity)", floor=6)
    for f in m.functions:
        if f.inst or f.kind not in ("movector", "moveassign") or f.cls not in ("Qentem::Array", "Qentem::String", "Qentem::StringStream", "Qentem::HashTable"):
            continue
        ctx.note_fn(f)
        src = f.params[0]["n"]
        calls = [f.call_simple_name(c) for c in astq.calls(f) if f.call_receiver(c) is not None and f.text(f.call_receiver(c)) == src]
        need = {"Qentem::Array": [("clearStorage",), ("setSize",), ("setCapacity",)], "Qentem::String": [("clearStorage",), ("setLength", "clearLength")],
                "Qentem::StringStream": [("clearStorage",), ("setLength", "clearLength"), ("setCapacity",)],
                "Qentem::HashTable": [("clearHashTable",), ("setSize",), ("setCapacity",)]}[f.cls]
        missing = [x[0] for x in need if not any(y in calls for y in x)]
        r.ob(f.sig, "source `%s` reset" % src, not missing, "calls on the source: %s; missing %s" % (calls, missing), "%s:%d" % (f.file.split("/Include/")[-1], f.line))
    rules.append(r)
    # ---------------- SB-bytes: byte counts handed to the raw memory routines
    r = Rule("SB-bytes", "Memory::Copy / SetToZero receive a byte count: an element count times the element size", floor=12)
    for f in m.functions:
        if f.inst or f.file.endswith("Memory.hpp") or f.file.endswith("QTest.hpp"):
            continue
        for c in astq.calls(f):
            nm = f.call_simple_name(c)
            full, _ = f.callee_name(c)
            if nm not in ("Copy", "SetToZero") or "Memory" not in (full or "Memory") or f.call_receiver(c) is not None:
                continue
            args = f.call_args(c)
            if len(args) != (3 if nm == "Copy" else 2):
                continue
            ctx.note_fn(f)
            sz = f.nodes[f.strip_casts(args[-1])]
            width_ok = False
            shown = f.text(args[-1])
            if sz["k"] == "BinaryOperator" and sz["op"] == "*":
                for side in sz["ch"]:
                    sn = f.nodes[f.strip_casts(side)]
                    if sn["k"] == "UnaryExprOrTypeTraitExpr" and sn.get("trait") == "sizeof":
                        width_ok = True
                    if sn["k"] == "DeclRefExpr":
                        # a local constant initialised with sizeof(..)
                        for st_ in astq.nodes_of(f, "DeclStmt"):
                            for d in f.nodes[st_]["decls"]:
                                if d.get("d") == sn.get("d") and d.get("init", -1) >= 0:
                                    ini = [f.nodes[x] for x in f.walk(d["init"])]
                                    if any(x["k"] == "UnaryExprOrTypeTraitExpr" and x.get("trait") == "sizeof" for x in ini) and not any(x["k"] == "BinaryOperator" for x in ini):
                                        width_ok = True
            r.ob(f.sig if f.cls else f.q, f.text(c)[:70], width_ok, "size argument `%s` %s" % (shown[:50], "is count * sizeof(element)" if width_ok else
                 "is not scaled by the element size: for 2- and 4-byte character types only a fraction of the elements is copied"), f.loc(c))
    rules.append(r)
    from rules.common import rule_narrow_units
    rules.append(rule_narrow_units(ctx, m, ["StringUtils.hpp", "String.hpp", "StringStream.hpp", "StringView.hpp"]))
    from rules.common import rule_capacity_size, rule_append_keeps
    rules.append(rule_capacity_size(ctx, m))
    rules.append(rule_append_keeps(ctx, m))
    from rules.common import rule_null_store
    rules.append(rule_null_store(ctx, m))
    return rules


def same_branch_excluded(f, a, b):
    """a and b lie in different branches of one if/else: a cannot precede b on any path"""
    for i in astq.nodes_of(f, "IfStmt"):
        n = f.nodes[i]
        if n["else"] >= 0:
            th, el = set(f.walk(n["then"])), set(f.walk(n["else"]))
            if (a in th and b in el) or (a in el and b in th):
                return True
    return False


def run(ctx):
    rules_ = list(_run_own(ctx) or [])
    from rules.common import shared
    have = set(r_.rid for r_ in rules_)
    rules_ += [r_ for r_ in shared(ctx, 'C16', ['O12-descendant']) if r_.rid not in have]
    rules_ += [r_ for r_ in shared(ctx, 'C15', ['ASYM', 'SB-eqlen']) if r_.rid not in have]
    return rules_
