"""C18 -- grouping partitions an array of objects by key value, wherever the key sits (structural clauses)."""
from qlib import astq, dataflow
from qlib.model import AnalysisBroken
from qlib.report import Rule

META = {
    "explanation": "Flow/sibling checks on the uninstantiated Value::GroupBy and its users: (FLOW-key) the grouping key "
                   "(parameters key,length) is consulted for every member of every element -- any implementation that "
                   "is correct 'wherever the key sits' must compare each member's name (or look the key up) per "
                   "element; a position found once on the first element is not enough; (SB-tombstone) on a removed "
                   "member (Undefined value) the member walk continues, it does not abandon the grouping -- the same "
                   "skip-and-continue treatment every other member walk of the library gives removed entries; "
                   "(PR-copy) members are copied into the sub-object (never moved out of the source) and the source is "
                   "reached only through read-only operations; the grouped value is reset and made an object first; "
                   "(PR-groupattr) renderLoop passes the group attribute with the same base the scanner used when it "
                   "recorded GroupOffset, and sorts/groups a private copy.",
    "not_decided": "that the produced partition equals the specification for every input (group order, contents)",
    "assumptions": [],
}

READ_ONLY = {"isObject", "isUndefined", "isArray", "SetCharAndLength", "CopyValueTo", "First", "End", "GetKeyIndex", "IsEqual",
             "Length", "Size", "Type", "GetKey", "IsObject", "IsUndefined", "GroupBy"}


def run(ctx):
    m = ctx.pattern()
    rules = []
    fs = [f for f in m.fns("Qentem::Value::GroupBy") if len(f.params) == 3]
    if len(fs) != 1:
        raise AnalysisBroken("Value::GroupBy(Value &, const Char_T *, SizeT) not found")
    f = fs[0]
    ctx.note_fn(f)
    kname, lname = f.params[1]["n"], f.params[2]["n"]
    loops = astq.nodes_of(f, "WhileStmt")
    if len(loops) < 2:
        raise AnalysisBroken("GroupBy: expected an element loop and a member loop")
    outer, inner = loops[0], loops[1]
    if inner not in set(f.walk(f.nodes[outer]["body"])):
        raise AnalysisBroken("GroupBy: member loop is not nested in the element loop")

    # ---------------- FLOW-key
    r = Rule("FLOW-key", "the grouping key is consulted for every member of every element", floor=1)
    uses_in_inner = [x for x in f.walk(f.nodes[inner]["body"]) if f.nodes[x]["k"] == "DeclRefExpr" and f.nodes[x]["n"] == kname]
    uses_in_outer = [x for x in f.walk(f.nodes[outer]["body"]) if f.nodes[x]["k"] == "DeclRefExpr" and f.nodes[x]["n"] == kname]
    how = "not at all inside the element loop"
    if uses_in_inner:
        how = "per member: " + f.text(astq.enclosing(f, uses_in_inner[0], ("CallExpr", "CXXMemberCallExpr")) or uses_in_inner[0])
    elif uses_in_outer:
        how = "per element: " + f.text(astq.enclosing(f, uses_in_outer[0], ("CallExpr", "CXXMemberCallExpr")) or uses_in_outer[0])
    r.ob(f.q, "use of `%s` inside the element loop" % kname, bool(uses_in_outer),
         "key consulted %s%s" % (how, "" if uses_in_outer else
         ": the member that names the group is located once (on the first element) and assumed to sit at the same position in "
         "every element, so [{y:1,m:2},{m:5,y:1}] groups the second object by m"), f.loc(outer))
    rules.append(r)

    # ---------------- SB-tombstone
    r = Rule("SB-tombstone", "removed members are skipped, the walk goes on", floor=1)
    # the condition that tests isUndefined in the member loop
    tests = [x for x in f.walk(f.nodes[inner]["body"]) if f.nodes[x]["k"] in ("CallExpr", "CXXMemberCallExpr") and f.call_simple_name(x) == "isUndefined"]
    if not tests:
        r.ob(f.q, "removed-member test", False, "the member walk does not test for removed (Undefined) members at all", f.loc(inner))
    else:
        t = tests[0]
        # CFG: block whose terminator condition is (the negation of) this test
        cond_blocks = [b for b in f.cfg["blocks"] if b.get("cond") is not None and t in set(f.walk(b["cond"]))]
        ok = False
        why = "test not found in the CFG"
        if cond_blocks:
            b = cond_blocks[-1]
            cn = f.nodes[f.strip(b["cond"])]
            negated = cn["k"] == "UnaryOperator" and cn["op"] == "!"
            undefined_edge = "false" if negated else "true"
            succ = [s_ for (s_, kind, payload) in dataflow.successors(f, b) if kind == undefined_edge]
            head = [bb["id"] for bb in f.cfg["blocks"] if bb.get("looptarget") is not None and f.strip(bb["looptarget"]) == inner or bb.get("term") == inner]
            # from the 'member is removed' edge, is a return reachable before the member loop's condition is evaluated again?
            loop_cond_blocks = set(bb["id"] for bb in f.cfg["blocks"] if bb.get("cond") is not None and bb["cond"] in set(f.walk(f.nodes[inner]["cond"])))
            seen, work, hits_return = set(), list(succ), False
            while work:
                x = work.pop()
                if x in seen or x in loop_cond_blocks:
                    continue
                seen.add(x)
                bb = f.blocks()[x]
                if any(f.nodes[e["n"]]["k"] == "ReturnStmt" for e in bb["el"] if "n" in e and not e.get("k")):
                    hits_return = True
                    break
                for (s2, k2, p2) in dataflow.successors(f, bb):
                    work.append(s2)
            ok = bool(succ) and not hits_return
            why = "on a removed member the walk %s" % ("continues with the next member" if ok else "returns (the whole grouping is abandoned)")
        r.ob(f.q, "removed member in the member walk", ok, why, f.loc(t))
    rules.append(r)

    # ---------------- PR-copy
    r = Rule("PR-copy", "the source is only read; members are copied; the result is reset to an object first", floor=3)
    bad_calls = []
    for c in astq.calls(f):
        rc = f.call_receiver(c)
        if rc is None:
            continue
        rt = f.text(rc)
        if rt.startswith(("item_", "obj_item", "this", "array_", "value_")) or rt.startswith("(item_"):
            nm = f.call_simple_name(c)
            if nm not in READ_ONLY:
                bad_calls.append(f.text(c))
    r.ob(f.q, "source access", not bad_calls, "operations on the source elements/members outside the read-only set: %s" % (bad_calls or "none"), "Include/Value.hpp:%d" % f.line)
    moves = [f.text(c) for c in astq.calls(f, "Move") if any(f.nodes[x].get("n") in ("obj_item", "item_") for x in f.walk(c))]
    r.ob(f.q, "no move out of the source", not moves, "Memory::Move applied to source members: %s" % (moves or "none"), "Include/Value.hpp:%d" % f.line)
    top_calls = [f.text(c) for c in astq.calls(f) if f.call_receiver(c) is not None and f.text(f.call_receiver(c)) == "groupedValue"]
    first_loop = outer
    pre = [f.text(c) for c in astq.calls(f) if c < first_loop and f.call_receiver(c) is not None and f.text(f.call_receiver(c)) == "groupedValue"]
    r.ob(f.q, "result initialised", pre[:2] == ["groupedValue.reset()", "groupedValue.setTypeToObject()"], "before the element loop: %s" % pre, "Include/Value.hpp:%d" % f.line)
    rules.append(r)

    # ---------------- PR-groupattr
    r = Rule("PR-groupattr", "loop group= attribute: same base at record and use; grouping/sorting act on a private copy", floor=3)
    rl = m.fn("Qentem::TemplateCore::renderLoop")
    ctx.note_fn(rl)
    gb = astq.calls(rl, "GroupBy")
    ok = len(gb) == 1 and [rl.text(a) for a in rl.call_args(gb[0])] == ["grouped_set", "((content_ + tag.Offset) + tag.GroupOffset)", "tag.GroupLength"]
    r.ob(rl.q, "GroupBy arguments", ok, "GroupBy(%s)" % (", ".join(rl.text(a) for a in rl.call_args(gb[0])) if gb else ""), rl.loc(gb[0]) if gb else "")
    pl = m.fn("Qentem::TemplateCore::parseLoopAttributes")
    rec = [(pl.text(pl.nodes[x]["ch"][0]), pl.text(pl.nodes[x]["ch"][1])) for x in astq.nodes_of(pl, "BinaryOperator") if pl.nodes[x]["op"] == "=" and "Group" in pl.text(pl.nodes[x]["ch"][0])]
    want = {("tag.GroupOffset", "fcast<Qentem::SizeT8>((att_offset - tag.Offset))"), ("tag.GroupLength", "fcast<Qentem::SizeT8>((offset - att_offset))")}
    r.ob(pl.q, "GroupOffset/GroupLength", set(rec) == want, "recorded as %s (offset relative to tag.Offset, length up to the closing quote)" % sorted(rec), "Include/Template.hpp:%d" % pl.line)
    decl = [d for s_ in astq.nodes_of(rl, "DeclStmt") for d in rl.nodes[s_]["decls"] if d.get("n") == "grouped_set"]
    sorts = astq.calls(rl, "Sort")
    ok = bool(decl) and not decl[0].get("ref") and decl[0].get("tk") != "ptr" and all(rl.text(rl.call_receiver(c)) == "grouped_set" for c in sorts)
    r.ob(rl.q, "private working copy", ok, "grouped_set is a by-value local and the only receiver of Sort()", "Include/Template.hpp:%d" % rl.line)
    rules.append(r)
    return rules
