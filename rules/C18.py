"""C18 -- grouping partitions an array of objects by key value, wherever the key sits (structural clauses)."""
from qlib import astq, dataflow
from qlib.model import AnalysisBroken
from qlib.report import Rule

META = {
    "explanation": "Flow/sibling checks on the uninstantiated Value::GroupBy and its users: (FLOW-key) the grouping key "
                   "(parameters key,length) is consulted for every member of every element -- any implementation that "
                   "is correct 'wherever the key sits' must compare each member's name (or look the key up) per "
                   "element; a position found once on the first element is not enough; (SB-tombstone) on a removed "
                   "member (Undefined value) the member walk continues, it does not abandon the grouping -- the same "
                   "skip-and-continue treatment every other member walk of the library gives removed entries; "
                   "(PR-copy) GroupBy and its callees write only the result and locals -- the effect summary (E-FX, instantiation "
                   "view) has no store into the receiver or anything reached through it, so members are copied, never "
                   "moved or edited; the grouped value is reset and made an object first; "
                   "(PR-groupattr) renderLoop passes the group attribute with the same base the scanner used when it "
                   "recorded GroupOffset, and sorts/groups a private copy.",
    "not_decided": "that the produced partition equals the specification for every input (group order, contents)",
    "assumptions": [],
}
META["explanation"] += " " + '(SB-eqlen, shared with C15) the key comparison GroupBy relies on is a length-checked equality, not a prefix test.'
META["explanation"] += " " + "FLOW-key is decided by taint flow: a value carrying the group's name (the key parameters or locals computed from them alone) must be compared or looked up against something that varies per element inside the element loop. (HC-confirm, shared with C13) a match by stored hash is confirmed by comparing the key."
META["explanation"] += " " + '(RV-use, shared with C12) the moving append GroupBy relies on really moves. (SB-scan, shared with C13) the deep copy made through copyTable visits every slot of its source.'
META["explanation"] += " " + "(SB-attr) the four attribute-name tests of parseLoopAttributes are the same test up to the attribute's name. (WHO-ptrvalue, shared with C16) GroupBy's result holds no borrowed pointers."
META["explanation"] += " " + '(OUT-alias, shared with C16) GroupBy separates the case v.GroupBy(v, ...) before it resets its result.'



META["explanation"] += " " + 'Taken over unchanged from other modules because a seeded change to this property was reported by them (rules.common.shared): TS-value/TS-sync from C12; TB-hash/WHO-hash/PR-rehash from C13.'

def _run_own(ctx):
    m = ctx.pattern()
    rules = []
    fs = [f for f in m.fns("Qentem::Value::GroupBy") if len(f.params) == 3]
    if len(fs) != 1:
        raise AnalysisBroken("Value::GroupBy(Value &, const Char_T *, SizeT) not found")
    f = fs[0]
    ctx.note_fn(f)
    kname, lname = f.params[1]["n"], f.params[2]["n"]
    loops = astq.nodes_of(f, "WhileStmt")
    if len(loops) < 2:
        raise AnalysisBroken("GroupBy: expected an element loop and a member loop")
    outer, inner = loops[0], loops[1]
    if inner not in set(f.walk(f.nodes[outer]["body"])):
        raise AnalysisBroken("GroupBy: member loop is not nested in the element loop")

    # ---------------- FLOW-key
    r = Rule("FLOW-key", "the grouping key is consulted for every member of every element", floor=1)
    # values that carry the *name* of the group: the key parameters and locals computed from them alone
    tainted = {f.params[1]["d"], f.params[2]["d"]}
    names = {f.params[1]["d"]: kname, f.params[2]["d"]: lname}
    changed = True
    while changed:
        changed = False
        for st in astq.nodes_of(f, "DeclStmt"):
            for d in f.nodes[st]["decls"]:
                if "d" not in d or d["d"] in tainted or d.get("init", -1) < 0:
                    continue
                refs = [f.nodes[x] for x in f.walk(d["init"]) if f.nodes[x]["k"] == "DeclRefExpr" and f.nodes[x].get("dk") in ("var", "param") and not f.nodes[x].get("static")]
                if refs and all(x.get("d") in tainted for x in refs) and not any(f.nodes[x]["k"] == "CXXThisExpr" for x in f.walk(d["init"])):
                    tainted.add(d["d"])
                    names[d["d"]] = d["n"]
                    changed = True
    # variables that change from element to element: assigned or stepped inside the element loop
    variant = set()
    for x in f.walk(outer):
        n = f.nodes[x]
        tgt = None
        if n["k"] in ("BinaryOperator", "CompoundAssignOperator") and n.get("op", "").endswith("=") and n["op"] not in ("==", "!=", "<=", ">="):
            tgt = f.nodes[f.strip(n["ch"][0])]
        elif n["k"] == "UnaryOperator" and n.get("op") in ("++", "--"):
            tgt = f.nodes[f.strip(n["ch"][0])]
        if tgt is not None and tgt["k"] == "DeclRefExpr":
            variant.add(tgt["d"])
        if n["k"] == "DeclStmt":
            for d in n["decls"]:
                if "d" in d:
                    variant.add(d["d"])
    variant -= tainted
    sites = []
    for x in f.walk(f.nodes[outer]["body"]):
        n = f.nodes[x]
        if n["k"] in ("CallExpr", "CXXMemberCallExpr", "CXXOperatorCallExpr") or (n["k"] == "BinaryOperator" and n["op"] in ("==", "!=")):
            sub = [f.nodes[y] for y in f.walk(x) if f.nodes[y]["k"] == "DeclRefExpr"]
            if any(y.get("d") in tainted for y in sub) and any(y.get("d") in variant for y in sub):
                sites.append(x)
    how = "nowhere inside the element loop"
    if sites:
        how = "per element: `%s`" % f.text(sites[0])[:80]
    r.ob(f.q, "the group's name (%s) is compared or looked up against each element" % ", ".join(sorted(names.values())), bool(sites),
         "key consulted %s%s" % (how, "" if sites else
         ": the member that names the group is located once (on the first element) and assumed to sit at the same position in "
         "every element, so [{y:1,m:2},{m:5,y:1}] groups the second object by m"), f.loc(outer))
    rules.append(r)

    # ---------------- SB-tombstone
    r = Rule("SB-tombstone", "removed members are skipped, the walk goes on", floor=1)
    # the condition that tests isUndefined in the member loop
    tests = [x for x in f.walk(f.nodes[inner]["body"]) if f.nodes[x]["k"] in ("CallExpr", "CXXMemberCallExpr") and f.call_simple_name(x) == "isUndefined"]
    if not tests:
        r.ob(f.q, "removed-member test", False, "the member walk does not test for removed (Undefined) members at all", f.loc(inner))
    else:
        t = tests[0]
        # CFG: block whose terminator condition is (the negation of) this test
        cond_blocks = [b for b in f.cfg["blocks"] if b.get("cond") is not None and t in set(f.walk(b["cond"]))]
        ok = False
        why = "test not found in the CFG"
        if cond_blocks:
            b = cond_blocks[-1]
            cn = f.nodes[f.strip(b["cond"])]
            negated = cn["k"] == "UnaryOperator" and cn["op"] == "!"
            undefined_edge = "false" if negated else "true"
            succ = [s_ for (s_, kind, payload) in dataflow.successors(f, b) if kind == undefined_edge]
            head = [bb["id"] for bb in f.cfg["blocks"] if bb.get("looptarget") is not None and f.strip(bb["looptarget"]) == inner or bb.get("term") == inner]
            # from the 'member is removed' edge, is a return reachable before the member loop's condition is evaluated again?
            loop_cond_blocks = set(bb["id"] for bb in f.cfg["blocks"] if bb.get("cond") is not None and bb["cond"] in set(f.walk(f.nodes[inner]["cond"])))
            seen, work, hits_return = set(), list(succ), False
            while work:
                x = work.pop()
                if x in seen or x in loop_cond_blocks:
                    continue
                seen.add(x)
                bb = f.blocks()[x]
                if any(f.nodes[e["n"]]["k"] == "ReturnStmt" for e in bb["el"] if "n" in e and not e.get("k")):
                    hits_return = True
                    break
                for (s2, k2, p2) in dataflow.successors(f, bb):
                    work.append(s2)
            ok = bool(succ) and not hits_return
            why = "on a removed member the walk %s" % ("continues with the next member" if ok else "returns (the whole grouping is abandoned)")
        r.ob(f.q, "removed member in the member walk", ok, why, f.loc(t))
    rules.append(r)

    # ---------------- PR-copy
    r = Rule("PR-copy", "the source is only read; members are copied; the result is reset to an object first", floor=2)
    # physical constness of GroupBy over its receiver, from the effect summaries of the instantiation view
    from qlib.fx import FX
    mi = ctx.inst()
    gi = [g for g in mi.functions if g.q == "Qentem::Value::GroupBy" and len(g.params) == 3]
    if not gi:
        raise AnalysisBroken("Value::GroupBy is not instantiated by the driver")
    fx = FX(mi)
    ids = [g.id for g in mi.functions if not g.dependent]
    fx.solve(ids)
    eff = fx.effects(ids)
    for g in gi:
        ctx.note_fn(g)
        e = eff.get(g.id, set())
        bad = sorted(str(x) for x in e if x == "T" or x == "U" or (isinstance(x, str) and x.startswith("G:")))
        where = ""
        if bad:
            sfx = fx.fn[g.id]
            for (nid, syms, kind) in sfx.stores:
                if set(syms) & {"T", "U"}:
                    where = "%s `%s` at %s" % (kind, g.text(nid)[:60], g.loc(nid))
                    break
            else:
                for (nid, gid, T, P, name) in sfx.calls:
                    ge = eff.get(gid) or ()
                    if ("T" in ge and set(T) & {"T", "U"}) or any(isinstance(sy, tuple) and set(P.get(sy[1], ())) & {"T", "U"} for sy in ge):
                        where = "call `%s` at %s hands the source to %s, which writes it" % (g.text(nid)[:60], g.loc(nid), name.replace("Qentem::", ""))
                        break
        r.ob(g.sig, "source only read", not bad, "regions GroupBy or its callees may write: %s%s" % (sorted(str(x) for x in e) or "none",
             ("; " + where) if where else " (the receiver and everything reached through it are not among them)"), "Include/Value.hpp:%d" % g.line)
    top_calls = [f.text(c) for c in astq.calls(f) if f.call_receiver(c) is not None and f.text(f.call_receiver(c)) == "groupedValue"]
    first_loop = outer
    pre = [f.text(c) for c in astq.calls(f) if c < first_loop and f.call_receiver(c) is not None and f.text(f.call_receiver(c)) == "groupedValue"]
    r.ob(f.q, "result initialised", pre[:2] == ["groupedValue.reset()", "groupedValue.setTypeToObject()"], "before the element loop: %s" % pre, "Include/Value.hpp:%d" % f.line)
    rules.append(r)

    # ---------------- PR-groupattr
    r = Rule("PR-groupattr", "loop group= attribute: same base at record and use; grouping/sorting act on a private copy", floor=3)
    rl = m.fn("Qentem::TemplateCore::renderLoop")
    ctx.note_fn(rl)
    gb = astq.calls(rl, "GroupBy")

    def addends(fn, nid):
        n = fn.nodes[fn.strip_casts(nid)]
        if n["k"] == "BinaryOperator" and n["op"] == "+":
            return addends(fn, n["ch"][0]) + addends(fn, n["ch"][1])
        return [fn.text(fn.strip_casts(nid))]

    def difference(fn, nid):
        n = fn.nodes[fn.strip_casts(nid)]
        while n["k"] in ("CXXFunctionalCastExpr", "CXXUnresolvedConstructExpr", "ParenExpr", "CStyleCastExpr", "CXXStaticCastExpr", "InitListExpr") and len(n.get("ch", [])) == 1:
            n = fn.nodes[fn.strip_casts(n["ch"][0])]
        if n["k"] == "BinaryOperator" and n["op"] == "-":
            return fn.text(fn.strip_casts(n["ch"][0])), fn.text(fn.strip_casts(n["ch"][1]))
        return None
    wc = None
    ok = False
    shown = ""
    if len(gb) == 1:
        ga = rl.call_args(gb[0])
        shown = ", ".join(rl.text(a_) for a_ in ga)
        if len(ga) == 3:
            wc = rl.nodes[rl.strip(ga[0])].get("n")
            ok = sorted(addends(rl, ga[1])) == sorted(["this.content_", "tag.Offset", "tag.GroupOffset"]) or sorted(addends(rl, ga[1])) == sorted(["content_", "tag.Offset", "tag.GroupOffset"])
            ok = ok and rl.text(rl.strip_casts(ga[2])) == "tag.GroupLength"
    r.ob(rl.q, "GroupBy arguments", ok, "GroupBy(%s): the key is read at content_ + tag.Offset + tag.GroupOffset for tag.GroupLength units" % shown, rl.loc(gb[0]) if gb else "")
    pl = m.fn("Qentem::TemplateCore::parseLoopAttributes")
    rec = {}
    for x in astq.nodes_of(pl, "BinaryOperator"):
        if pl.nodes[x]["op"] == "=" and pl.text(pl.nodes[x]["ch"][0]) in ("tag.GroupOffset", "tag.GroupLength"):
            rec[pl.text(pl.nodes[x]["ch"][0])] = difference(pl, pl.nodes[x]["ch"][1])
    go, gl = rec.get("tag.GroupOffset"), rec.get("tag.GroupLength")
    ok = bool(go and gl) and go[1] == "tag.Offset" and gl[1] == go[0]
    r.ob(pl.q, "GroupOffset/GroupLength", ok, "recorded as GroupOffset = %s, GroupLength = %s (offset of the attribute value relative to tag.Offset; length from that same position)" % (go, gl), "Include/Template.hpp:%d" % pl.line)
    decl = [d for s_ in astq.nodes_of(rl, "DeclStmt") for d in rl.nodes[s_]["decls"] if wc and d.get("n") == wc]
    sorts = astq.calls(rl, "Sort")
    ok = bool(decl) and not decl[0].get("ref") and decl[0].get("tk") != "ptr" and not decl[0].get("static") and all(rl.text(rl.call_receiver(c)) == wc for c in sorts)
    r.ob(rl.q, "private working copy", ok, "`%s` (the object GroupBy fills) is a by-value local and the only receiver of Sort()" % wc, "Include/Template.hpp:%d" % rl.line)
    rules.append(r)
    from rules.C13 import rule_hash_confirm
    rules.append(rule_hash_confirm(ctx, m))
    from rules.common import rule_equal_lengths
    rules.append(rule_equal_lengths(ctx, m))
    # GroupBy re-uses one scratch object per member and relies on the moving append emptying it
    from rules.common import rule_rvalue_use
    rules.append(rule_rvalue_use(ctx, m))
    # the deep copies GroupBy makes go through HashTable::copyTable: the scan must cover every slot of the source
    from rules.C13 import rule_scan_extent
    rules.append(rule_scan_extent(ctx, m))
    from rules.common import rule_attr_siblings
    rules.append(rule_attr_siblings(ctx, m))
    from rules.common import rule_pointer_value_makers
    rules.append(rule_pointer_value_makers(ctx, m))
    from rules.common import rule_out_alias
    rules.append(rule_out_alias(ctx, m))
    return rules


def run(ctx):
    rules_ = list(_run_own(ctx) or [])
    from rules.common import shared
    have = set(r_.rid for r_ in rules_)
    rules_ += [r_ for r_ in shared(ctx, 'C12', ['TS-value', 'TS-sync']) if r_.rid not in have]
    rules_ += [r_ for r_ in shared(ctx, 'C13', ['TB-hash', 'WHO-hash', 'PR-rehash']) if r_.rid not in have]
    return rules_
