"""C17 -- rendering is pure: it never modifies the value, the template text or the tag cache, only appends to the caller's
stream, and keeps no state between or across renders (structural clauses)."""
from qlib import astq, dataflow
from qlib.fx import FX
from qlib.model import AnalysisBroken
from qlib.report import Rule

OWN_CONFIG_SWEEP = True   # sweeps its configurations itself
META = {
    "explanation": "E-FX effect analysis over the instantiation view (the functions clang instantiates for "
                   "Template::Render over Value/StringStream of each character width): memory regions are tracked as "
                   "symbols (this / parameter i / local / static / context field / unknown) through pointer and reference "
                   "flow, owning storage pointers stay in the region of their holder, non-owning ones (Value's pointer "
                   "kind, loop items, views) may refer to the input.  From TemplateCore::Render(tags, value, stream) the "
                   "roots input / stream / per-call context are pushed down every call edge (the one call through a "
                   "function pointer is resolved from the functions whose address is passed) and every direct store, "
                   "destructor, operator delete and write through a pointer argument of a body-less function in every "
                   "reachable function is classified.  (FX-input) none lands in the value, the tag cache, the template text, "
                   "a literal or an unknown region; (FX-static) none lands in static storage and every static object the "
                   "reachable code reads is const or written by nobody in the whole unit; (FX-append) the stream is "
                   "changed from outside StringStream only through its appenders, except the number formatter's in-place "
                   "edits of the digits it has just appended; (FX-context) the renderer object and the loop-item stack are "
                   "automatic objects of the call and all context pointers are set from the call's arguments; "
                   "(PR-cache) Template::Render parses only when the cache is empty and hands the cache to the renderer by "
                   "const reference.  With these, two renders that share tags and value and use different streams write "
                   "to disjoint memory, which is the no-data-race clause; byte identity of repeated renders additionally "
                   "needs determinism of reads, which is not decided here.",
    "not_decided": "byte-identical output (determinism of reads, e.g. no uninitialised read); that the number formatter's in-place "
                   "edits stay within the digits it appended (C10's bounds); schedules are not explored -- the race clause is "
                   "argued from the effect summary",
    "assumptions": ["the driver drivers/inst.cpp instantiates the documented Render entry points",
                    "destructors of local containers release only memory of the call (C16's ownership rules)"],
}
META["explanation"] += " " + '(X-copykind, shared with C02) a copied tag cache renders like its source. (ZB-past, shared with C10) the formatter does not touch what the stream held before the number.'

FORBIDDEN_WHY = {"I": "the caller's value, tag cache or template text", "U": "memory reached through a non-owning pointer (may be the caller's value)",
                 "K": "a string literal"}
APPENDERS = {"Write", "operator+=", "operator<<", "Buffer"}
DIGIT_EDITS = {"InsertAt", "Reverse", "StepBack", "SetLength", "Storage", "First", "Last", "End"}


META["explanation"] += " " + 'Taken over unchanged from other modules because a seeded change to this property was reported by them (rules.common.shared): IDX-ensure from C01; BORROW from C16.'

def setup(ctx, m):
    fx = FX(m)
    ents = [f for f in m.functions if f.q == "Qentem::TemplateCore::Render" and len(f.params) == 3]
    if len(ents) != 1:
        raise AnalysisBroken("TemplateCore::Render(tags, value, stream): %d instantiations in the driver" % len(ents))
    entry = ents[0]
    want = [("const", "Array"), ("const", "Value"), ("", "StringStream")]
    for p, (c, t) in zip(entry.params, want):
        if t not in p["t"] or (c and not p["t"].startswith("const")) or not p.get("ref"):
            raise AnalysisBroken("TemplateCore::Render parameter `%s` is %s" % (p["n"], p["t"]))
    reach = fx.solve([entry.id])
    s = fx.fn[entry.id]
    seedP = {0: {"I"}, 1: {"I"}, 2: {"S"}}
    fields = {}
    for (nid, tgt, kind) in s.stores:
        n = entry.nodes[nid]
        if not n.get("ch"):
            continue
        ln = entry.nodes[s.peel(n["ch"][0])]
        if ln["k"] == "MemberExpr" and ln.get("rec") == "Qentem::TemplateCore" and ln.get("tk") == "ptr":
            out = set()
            for x in s.val(n["ch"][1]):
                if isinstance(x, tuple):
                    out |= seedP[x[1]]
                elif x == "L":
                    out.add("C")
                else:
                    out.add(x)
            fields.setdefault(ln["n"], set()).update(out)
    B = fx.bind(entry.id, {"C"}, seedP, fields)
    return fx, entry, B, fields


def _run_own(ctx):
    rules = []
    configs = ["sse2"] if ctx.tier == "quick" else ["sse2", "char16", "char32", "wchar", "scalar", "avx2"]
    r_in = Rule("FX-input", "no store reachable from Render lands in the value, the tag cache, the template text or an unknown region", floor=300)
    r_st = Rule("FX-static", "no store lands in static storage; statics read by the renderer are immutable", floor=60)
    r_ap = Rule("FX-append", "the stream is changed from outside StringStream only through its appenders", floor=10)
    r_cx = Rule("FX-context", "the per-render context is created per call and bound to the call's arguments", floor=5)
    r_pc = Rule("PR-cache", "parse only when the cache is empty; the renderer takes the cache by const reference", floor=3)
    for cfg in configs:
        m = ctx.inst(cfg)
        tag = "" if cfg == "sse2" else " [%s]" % cfg
        fx, entry, B, fields = setup(ctx, m)
        allids = [f.id for f in m.functions if not f.dependent]
        fx_all = FX(m)
        fx_all.solve(allids)
        eff = fx_all.effects(allids)
        depth = {fid: len(fx.path(fid)) for fid in B}
        # ---- FX-input / FX-static: one obligation per reachable function, shallowest first (where a forbidden root enters)
        for fid in sorted(B, key=lambda x: (depth[x], x)):
            s = fx.fn[fid]
            f = s.f
            ctx.note_fn(f)
            b = B[fid]
            if s.unknown:
                r_in.broke("%s: expression kinds outside the region algebra: %s" % (f.sig, sorted(s.unknown)))
            bad_i, bad_g = [], []
            for (nid, syms, kind) in s.stores:
                c = fx.conc(syms, b)
                fi = sorted(x for x in c if x in FORBIDDEN_WHY)
                fg = sorted(x for x in c if x.startswith("G:"))
                if fi:
                    bad_i.append((nid, kind, fi))
                if fg:
                    bad_g.append((nid, kind, fg))
            for (nid, pi, syms) in s.icalls:
                if "UNKNOWN" in b["fp"].get(pi, set()):
                    bad_i.append((nid, "call through a function pointer whose targets are not known", ["U"]))
            # call edges that hand a forbidden region to a callee which writes it
            edges_i, edges_g = [], []
            for (nid, gid, T, P, name) in s.calls:
                ge = eff.get(gid) or ()
                for sy in ge:
                    if sy == "T":
                        c, what, par = fx.conc(T, b), "its receiver", T
                    elif isinstance(sy, tuple):
                        par = P.get(sy[1], frozenset())
                        c = fx.conc(par, b)
                        gp = fx.fn[gid].f.params
                        what = "its parameter `%s`" % (gp[sy[1]]["n"] if sy[1] < len(gp) else sy[1])
                    else:
                        continue
                    fi = sorted(x for x in c if x in FORBIDDEN_WHY)
                    fg = sorted(x for x in c if x.startswith("G:"))
                    intro = any(isinstance(x, str) and (x in ("U", "K") or x.startswith("F:")) for x in par)
                    if fi:
                        edges_i.append((nid, "call of %s, which writes %s," % (name.replace("Qentem::", ""), what), fi, 0 if intro else 1))
                    if fg:
                        edges_g.append((nid, "call of %s, which writes %s," % (name.replace("Qentem::", ""), what), fg))
            n_sites = len(s.stores) + len(s.calls)
            bad_i = [x[:3] for x in sorted(edges_i, key=lambda e: e[3]) if x[3] == 0] + bad_i + [x[:3] for x in edges_i if x[3] == 1]
            bad_g = bad_g + edges_g
            path = " > ".join(p[0].split("(")[0].replace("Qentem::", "") for p in fx.path(fid))
            recv = "this in {%s}" % ",".join(sorted(b["T"])) if f.cls and not f.is_static else ""
            if bad_i:
                nid, kind, fi = bad_i[0]
                r_in.ob(f.sig + tag, "%d store(s), %d call(s)" % (len(s.stores), len(s.calls)), False,
                        "%s `%s` may write %s; reached as %s%s" % (kind, f.text(nid)[:60], " / ".join(FORBIDDEN_WHY[x] for x in fi), path, (" with " + recv) if recv else ""), f.loc(nid))
            else:
                r_in.ob(f.sig + tag, "%d store(s), %d call(s)" % (len(s.stores), len(s.calls)), True, "all land in the stream, the per-call context or locals%s" % ((" (" + recv + ")") if recv else ""),
                        "%s:%d" % (f.file.split("/Include/")[-1], f.line), nontrivial=bool(s.stores or s.calls))
            if bad_g:
                nid, kind, fg = bad_g[0]
                r_st.ob(f.sig + tag, "static storage", False, "%s `%s` writes static storage %s; reached as %s" % (kind, f.text(nid)[:60], fg, path), f.loc(nid))
        # statics read by the reachable code
        statics = {}
        for fid in B:
            f = fx.fn[fid].f
            for n in f.nodes:
                if n["k"] in ("DeclRefExpr", "MemberExpr") and n.get("static") and n.get("dk") == "var":
                    statics.setdefault(n.get("q") or n.get("n"), (n.get("t", ""), f))
                if n["k"] == "DeclStmt":
                    for d in n["decls"]:
                        if d.get("static"):
                            statics.setdefault("%s::%s" % (f.q, d["n"]), (d.get("t", ""), f))
        written = {}
        for x, e in eff.items():
            for sy in e:
                if isinstance(sy, str) and sy.startswith("G:"):
                    written.setdefault(sy[2:], fx_all.fn[x].f.sig)
        for q, (t, f) in sorted(statics.items()):
            t0 = t.strip()
            is_const = t0.startswith("const ") and "*" not in t0 or t0.endswith("const") or "const[" in t0.replace(" ", "") or (t0.startswith("const ") and "[" in t0)
            w = written.get(q)
            r_st.ob(q + tag, "static object read by the renderer", w is None, ("type `%s`; " % t0) + ("no function in the unit writes it" if w is None else "written by %s" % w) +
                    ("" if is_const or w is not None else " (not const-qualified: immutability rests on the absence of writers)"), "read in %s" % f.q)
        # ---- FX-append
        for fid in sorted(B):
            s = fx.fn[fid]
            f = s.f
            b = B[fid]
            if f.cls == "Qentem::StringStream":
                continue
            for (nid, gid, T, P, name) in s.calls:
                g = fx.fn.get(gid)
                if g is None or g.f.cls != "Qentem::StringStream" or g.f.kind in ("ctor", "copyctor", "movector"):
                    continue
                if "S" not in fx.conc(T, b):
                    continue
                mut = "T" in eff.get(gid, set()) or g.f.name in ("Storage", "First", "Last", "End") and not g.f.is_const
                if not mut:
                    continue
                nm = g.f.name
                ok = nm in APPENDERS or (f.cls == "Qentem::Digit" and nm in DIGIT_EDITS)
                r_ap.ob(f.sig + tag, f.text(nid)[:60], ok, "%s on the caller's stream from %s: %s" % (nm, f.q, "appends" if nm in APPENDERS else
                        ("the number formatter edits digits it has just appended" if ok else "may drop or overwrite what the stream already holds")), f.loc(nid))
            direct = [(nid, kind) for (nid, syms, kind) in s.stores if "S" in fx.conc(syms, b)]
            if direct and f.cls not in ("Qentem::StringStream",) and not f.q.startswith(("Qentem::Memory::", "Qentem::Platform::")):
                ok = f.cls == "Qentem::Digit"
                nid, kind = direct[0]
                r_ap.ob(f.sig + tag, "%d raw store(s) into the stream's buffer" % len(direct), ok,
                        "first: `%s`; %s" % (f.text(nid)[:60], "number formatter writing digits in place" if ok else "outside StringStream and the number formatter"), f.loc(nid))
        # ---- FX-context
        s = fx.fn[entry.id]
        ptr_fields = []
        for rec in m.records:
            if rec.get("q") == "Qentem::TemplateCore" and rec.get("targs") and not rec.get("dependent"):
                ptr_fields = [fl["n"] for fl in rec.get("fields", []) if "*" in fl.get("t", "")]
        for fl in ptr_fields:
            if fl == "content_":
                continue
            v = fields.get(fl)
            r_cx.ob(entry.sig + tag, "context pointer %s" % fl, bool(v) and "G" not in "".join(v), "set in Render from the call's arguments/locals: refers to %s" % (sorted(v) if v else "nothing assigned in Render"), "Include/Template.hpp:%d" % entry.line)
        for d in s.decl.values():
            if "LoopItem" in d.get("t", ""):
                r_cx.ob(entry.sig + tag, "loop-item stack `%s`" % d["n"], not d.get("static") and not d.get("ref") and d.get("tk") != "ptr", "automatic object of the call (%s)" % d["t"], "Include/Template.hpp:%d" % entry.line)
        tr = [f for f in m.functions if f.q == "Qentem::Template::Render" and len(f.params) == 5]
        if len(tr) != 1:
            raise AnalysisBroken("Template::Render(content, length, value, stream, tags_cache): %d instantiations" % len(tr))
        tr = tr[0]
        ctx.note_fn(tr)
        decls = [d for n in tr.nodes if n["k"] == "DeclStmt" for d in n["decls"] if "TemplateCore" in d.get("t", "")]
        r_cx.ob(tr.sig + tag, "renderer object", len(decls) == 1 and not decls[0].get("static") and not decls[0].get("ref") and decls[0].get("tk") == "rec",
                "`%s` is an automatic object constructed per call" % (decls[0]["n"] if decls else "?"), "Include/Template.hpp:%d" % tr.line)
        glob = [v for v in m.vars if "TemplateCore<" in v.get("t", "") or "LoopItem" in v.get("t", "")]
        r_cx.ob("Qentem" + tag, "no static renderer or loop-item objects", not glob, "static objects of the renderer types: %s" % ([v["q"] for v in glob] or "none"), "Include/Template.hpp")
        # ---- PR-cache
        parse_calls = [c for c in astq.calls(tr) if (tr.call_simple_name(c) or "") == "Parse"]
        render_calls = [c for c in astq.calls(tr) if (tr.call_simple_name(c) or "") == "Render"]
        cache = tr.params[4]["n"]
        ok = False
        why = "no Parse call"
        if len(parse_calls) == 1:
            # dominated by the true edge of `<cache>.IsEmpty()`
            conds = [b.get("cond") for b in tr.cfg["blocks"] if b.get("cond") is not None]
            ok = False
            for c in conds:
                t = tr.text(c).replace(" ", "")
                if t in ("%s.IsEmpty()" % cache, "(%s.IsEmpty())" % cache) and dataflow.dominated_by_branch(tr, parse_calls[0], c, True):
                    ok = True
                if t in ("%s.IsNotEmpty()" % cache, "!%s.IsNotEmpty()" % cache, "(!%s.IsNotEmpty())" % cache, "%s.Size()==0" % cache) and \
                        dataflow.dominated_by_branch(tr, parse_calls[0], c, t != "%s.IsNotEmpty()" % cache):
                    ok = True
            why = "Parse(%s) runs only on the empty-cache branch" % cache if ok else "Parse(%s) is not guarded by the cache being empty: a filled cache is re-parsed or appended to" % cache
        r_pc.ob(tr.sig + tag, "parse only when empty", ok, why, tr.loc(parse_calls[0]) if parse_calls else "Include/Template.hpp:%d" % tr.line)
        other_mut = []
        for c in astq.calls(tr):
            rc = tr.call_receiver(c)
            if rc is not None and tr.text(rc) == cache:
                g = fx_all.fn.get(tr.nodes[c].get("fd"))
                if g is not None and "T" in eff.get(g.f.id, set()):
                    other_mut.append(tr.text(c))
        r_pc.ob(tr.sig + tag, "cache otherwise untouched", not other_mut, "mutating members called on the cache: %s" % (other_mut or "none"), "Include/Template.hpp:%d" % tr.line)
        ok = len(render_calls) == 1 and tr.nodes[render_calls[0]].get("fd") == entry.id
        r_pc.ob(tr.sig + tag, "renders through TemplateCore::Render(const Array<TagBit> &, ...)", ok and entry.params[0]["t"].startswith("const "),
                "the cache parameter of the renderer is `%s`" % entry.params[0]["t"], tr.loc(render_calls[0]) if render_calls else "")
    from rules.common import rule_copy_kind, rule_stream_past
    rules += [r_in, r_st, r_ap, r_cx, r_pc, rule_copy_kind(ctx, ctx.pattern()), rule_stream_past(ctx, ctx.pattern())]
    return rules


def run(ctx):
    rules_ = list(_run_own(ctx) or [])
    from rules.common import shared
    have = set(r_.rid for r_ in rules_)
    rules_ += [r_ for r_ in shared(ctx, 'C01', ['IDX-ensure']) if r_.rid not in have]
    rules_ += [r_ for r_ in shared(ctx, 'C16', ['BORROW']) if r_.rid not in have]
    return rules_
