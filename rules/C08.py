import re
"""C08 -- Stringify then Parse returns the same tree; the text is valid JSON (table / structure clauses)."""
from qlib import astq, tab
from qlib.bitsym import Unrecognised
from qlib.model import AnalysisBroken
from qlib.report import Rule
from rules import jsontab
from rules.C20 import value_set

META = {
    "explanation": "E-TAB: Escape's map (case labels, the GetReplacementChar table, range arms) composed with UnEscape's "
                   "map is the identity on every unit Escape rewrites (TB-inverse); the set of units Escape rewrites -- "
                   "computed exactly from case labels and from the value-set of range conditions -- contains every "
                   "character RFC 8259 requires to be escaped: 0x00..0x1F, quote, backslash (X-control); a \\u00XX arm "
                   "emits four hex digits of the unit (TB-u00); stringifyValue has an arm for every ValueType except "
                   "Undefined, each calling the writer of its kind; object/array writers skip Undefined members and "
                   "close with the comma-patch protocol (X-stringify); Stringify forwards the caller's precision.",
    "not_decided": "round-trip equality of all trees and numbers (numeric formatting is C10/C11's concern)",
    "assumptions": [],
}
META["explanation"] += " " + 'X-stringify additionally: the member write of the object/array writers is guarded by !isUndefined() (and a null test) only -- nothing else is skipped.'
META["explanation"] += " " + '(PR-flush) typestate per iteration of JSONUtils::Escape\'s loop: no output precedes the flush of the pending slice and an iteration that flushed moves the flushed cursor on. X-stringify additionally: the skip test the container writers use has an arm for the pointer kind (a member pointing to an Undefined value is omitted, not written as `"key":,`).'

KIND_WRITERS = {
    "Object": ("call", "stringifyObject"), "Array": ("call", "stringifyArray"), "String": ("call", "Escape"),
    "UIntLong": ("call", "NumberToString"), "IntLong": ("call", "NumberToString"), "Double": ("call", "NumberToString"),
    "True": ("lit", "TrueString"), "False": ("lit", "FalseString"), "Null": ("lit", "NullString"),
    "ValuePtr": ("call", "stringifyValue"),
}


META["explanation"] += " " + '(PTR-follow, shared by C08 and C12) sibling cross-check over every delegation `value_->m(...)` in the public members of Value: the member asked of the pointee follows pointers itself (it reads value_) or is the caller; the Is...() predicates asked the one-level private tests.'

META["explanation"] += " " + 'Taken over unchanged from other modules because a seeded change to this property was reported by them (rules.common.shared): HC-confirm from C13; TB-bounds/UNS-shift/SB-roundcarry from C09; BORROW from C05; SB-bytes from C14; FX-utf/X-surrogate from C06.'

META["explanation"] += " " + 'Also taken over (a rule id already present here is kept as id/module): BORROW from C16; ALIAS from C14.'

def _run_own(ctx):
    m = ctx.pattern()
    rules = []
    ue, umap, hexlabels, uwhere = jsontab.unescape_map(m)
    es, emap, ranges, ewhere, swvar, table = jsontab.escape_map(m)
    ctx.note_fn(es)
    ctx.note_fn(ue)

    r = Rule("TB-inverse", "UnEscape(Escape(c)) == c for every unit Escape rewrites as a two-character escape", floor=8)
    for unit, letter in sorted(emap.items(), key=lambda kv: (kv[0] is None, kv[0])):
        back = umap.get(letter)
        r.ob(es.q, "unit %#x" % unit if unit is not None else "unit ?", letter not in (None, 0) and back == unit,
             "Escape writes '\\%s', UnEscape maps it back to %r" % (chr(letter) if letter else letter, back), ewhere.get(unit, ""))
    if table is not None:
        labels_max = max([u for u in emap if u is not None and emap[u] != u] or [0])
        r.ob(es.q, "ReplaceList length", len(table) > labels_max, "table has %d entries, largest control label is %d" % (len(table), labels_max),
             "Include/JSONUtils.hpp", nontrivial=False)
    rules.append(r)

    r = Rule("X-control", "Escape rewrites every unit RFC 8259 requires to be escaped (0x00-0x1F, quote, backslash)", floor=1)
    escaped = set(u for u in emap if u is not None)
    range_notes = []
    for (ifn, cond, writes) in ranges:
        try:
            vs = value_set(es, cond, swvar.get("d"), 16)
            for a, b in vs:
                escaped |= set(range(a, min(b, 0xFF) + 1))
            range_notes.append("%s -> %s" % (es.text(cond), vs))
        except Unrecognised as e:
            r.broke("range condition of Escape has an unrecognised shape: %s" % e)
    missing = sorted(jsontab.MUST_ESCAPE - escaped)
    r.ob(es.q, "escaped set", not missing,
         "units emitted raw although RFC 8259 requires an escape: %s" % (", ".join("%#04x" % x for x in missing) if missing else "none"),
         "Include/JSONUtils.hpp:%d" % es.line, {"escaped": sorted(escaped), "ranges": range_notes})
    rules.append(r)

    # \\u00XX arm: BSlash 'u' '0' '0' hexdigit(unit >> 4) hexdigit(unit & 15), decided semantically:
    # digit operands in the bit-vector domain, digit characters as piecewise-linear functions
    from qlib import bitsym, pwl
    from qlib.bitsym import Val, Var
    r = Rule("TB-u00", "a range arm of Escape emits \\u00 followed by the two hex digits of the unit", floor=0)

    def hexdigit_ok(ps, maxv):
        ps = pwl.normalise(ps)
        want_u = pwl.normalise([(0, min(9, maxv), 1, 0x30)] + ([(10, maxv, 1, 0x37)] if maxv > 9 else []))
        want_l = pwl.normalise([(0, min(9, maxv), 1, 0x30)] + ([(10, maxv, 1, 0x57)] if maxv > 9 else []))
        return ps == want_u or ps == want_l

    for (ifn, cond, writes) in ranges:
        try:
            vs = value_set(es, cond, swvar.get("d"), 16)
            top = max(b for a, b in vs) if vs else 0
            r.ob(es.q, "range arm `%s` domain" % es.text(cond), top <= 0xFF,
                 "the arm rewrites units up to %#x; \\u00XX has two significant hex digits, so it may only apply to units <= 0xFF "
                 "(for char16_t/char32_t/wchar_t the test must look at the whole unit)" % top, es.loc(ifn))
            top = min(top, 0xFF)
            vals = [jsontab.const_of(m, es, w[1]) for w in writes]
            ok = len(writes) == 6 and vals[:4] == [ord("\\"), ord("u"), ord("0"), ord("0")]
            why = "prefix %s" % vals[:4]
            if ok:
                # locals defined inside the arm from the unit
                unit = Var("c", 0, top)
                defs = {}
                for i in es.walk(es.nodes[ifn]["then"]):
                    dn = es.nodes[i]
                    if dn["k"] == "DeclStmt":
                        for d in dn["decls"]:
                            if d.get("init", -1) >= 0:
                                defs[d["d"]] = d["init"]

                def bv(x):
                    x = es.strip(x)
                    xn = es.nodes[x]
                    if "cv" in xn and xn["k"] != "DeclRefExpr":
                        return Val.const(xn["cv"])
                    if xn["k"] == "DeclRefExpr" and xn.get("d") == swvar.get("d"):
                        return Val(unit.bits())
                    if xn["k"] in ("CXXFunctionalCastExpr", "CXXStaticCastExpr", "CStyleCastExpr", "CXXUnresolvedConstructExpr") and len(xn.get("ch", [])) == 1:
                        return bv(xn["ch"][0])
                    if xn["k"] == "BinaryOperator":
                        return bitsym.binop(xn["op"], bv(xn["ch"][0]), bv(xn["ch"][1]))
                    raise bitsym.Unrecognised(es.text(x))

                def digit(expr, want_bits, maxv):
                    # expr is  f(L) with L a local (or inline) operand equal to `want_bits` of the unit
                    locs = [es.nodes[i] for i in es.walk(expr) if es.nodes[i]["k"] == "DeclRefExpr" and es.nodes[i].get("d") in defs]
                    if locs:
                        d = locs[0]["d"]
                        operand = bv(defs[d])
                        return operand == want_bits and hexdigit_ok(pwl.pieces(es, expr, d, 0, maxv), maxv)
                    # inline: '0' + (unit >> 4)
                    en = es.nodes[es.strip_casts(expr)]
                    if en["k"] == "BinaryOperator" and en["op"] == "+":
                        c0 = es.const_value(en["ch"][0])
                        return c0 == 0x30 and maxv <= 9 and bv(en["ch"][1]) == want_bits
                    raise bitsym.Unrecognised(es.text(expr))
                u = Val(unit.bits())
                hi_bits = bitsym.binop(">>", u, Val.const(4))
                lo_bits = bitsym.binop("&", u, Val.const(15))
                ok_hi = digit(writes[4][1], hi_bits, top >> 4)
                ok_lo = digit(writes[5][1], lo_bits, 15)
                ok = ok_hi and ok_lo
                why = "high digit %s, low digit %s" % ("ok" if ok_hi else "WRONG", "ok" if ok_lo else "WRONG")
            r.ob(es.q, "range arm `%s`" % es.text(cond), ok, why, es.loc(ifn))
        except bitsym.Unrecognised as e:
            r.broke("\\u00XX arm of Escape has an unrecognised shape: %s" % e)
    rules.append(r)

    r = Rule("X-stringify", "stringifyValue has an arm per value kind calling the matching writer; containers skip Undefined and patch the last comma", floor=14)
    sv = m.fn("Qentem::Value::stringifyValue")
    ctx.note_fn(sv)
    sws = astq.nodes_of(sv, "SwitchStmt")
    if len(sws) != 1:
        raise AnalysisBroken("stringifyValue: expected one switch")
    seen = {}
    for labels, stmts in astq.switch_arms(sv, sws[0]):
        for l in labels:
            if l[0] != "default":
                seen[l[0]] = stmts
    vt = m.enum("Qentem::ValueType")
    for e in vt["enumerators"]:
        name = e["n"]
        if name == "Undefined":
            r.ob(sv.q, "case Undefined", name not in seen or not any(jsontab.stream_writes(sv, s) or astq.calls(sv, None, s) for s in seen[name]),
                 "Undefined writes nothing", "Include/Value.hpp:%d" % sv.line, nontrivial=False)
            continue
        w = KIND_WRITERS.get(name)
        if w is None:
            r.broke("ValueType::%s has no expected writer in the rule table (new kind?)" % name)
            continue
        stmts = seen.get(name)
        if stmts is None:
            r.ob(sv.q, "case " + name, False, "value kind has no arm: it would be omitted from the text", "Include/Value.hpp:%d" % sv.line)
            continue
        if w[0] == "call":
            ok = any(astq.calls(sv, w[1], s) for s in stmts)
        else:
            ok = any(sv.nodes[i].get("n") == w[1] for s in stmts for i in sv.walk(s)) and any(astq.calls(sv, "Write", s) for s in stmts)
        # the member accessed matches the kind (number_.Natural / Integer / Real)
        if name in ("UIntLong", "IntLong", "Double"):
            fld = {"UIntLong": "Natural", "IntLong": "Integer", "Double": "Real"}[name]
            ok = ok and any(sv.nodes[i].get("n") == fld for s in stmts for i in sv.walk(s))
        if name in ("Double", "ValuePtr", "Object", "Array"):
            # the caller's precision must reach every nested writer
            cs = [c for s in stmts for c in astq.calls(sv, w[1], s)]
            ok = ok and bool(cs) and all(sv.nodes[sv.strip(sv.call_args(c)[-1])].get("n") == "precision" and len(sv.call_args(c)) == 3 for c in cs)
        r.ob(sv.q, "case " + name, ok, "arm uses %s" % w[1], sv.loc(stmts[0]))
    # container writers
    for fname, open_c, close_c in (("stringifyObject", "SCurlyChar", "ECurlyChar"), ("stringifyArray", "SSquareChar", "ESquareChar")):
        f = m.fn("Qentem::Value::" + fname)
        ctx.note_fn(f)
        loops = astq.nodes_of(f, "WhileStmt")
        names = [f.nodes[i].get("n") for i in f.walk() if f.nodes[i]["k"] in ("DependentScopeDeclRefExpr", "CXXDependentScopeMemberExpr", "MemberExpr", "DeclRefExpr")]
        ok_open = names.count(open_c) == 1 and names.count(close_c) == 2
        r.ob(f.q, "brackets", ok_open, "opens with %s once, closes with %s on both comma-patch branches" % (open_c, close_c), "Include/Value.hpp:%d" % f.line)
        # inside the loop: emission guarded by !isUndefined()
        ok_skip = False
        comma_in_guard = False
        for lp in loops:
            for i in astq.nodes_of(f, "IfStmt", f.nodes[lp]["body"]):
                ct = f.text(f.nodes[i]["cond"])
                if re.search(r"[iI]sUndefined\(\)", ct) and "!" in ct:
                    inner_calls = astq.calls(f, "stringifyValue", f.nodes[i]["then"])
                    outside = [c for c in astq.calls(f, "stringifyValue", f.nodes[lp]["body"]) if c not in inner_calls]
                    ok_skip = bool(inner_calls) and not outside
                    comma_in_guard = any(f.nodes[x].get("n") == "CommaChar" for x in f.walk(f.nodes[i]["then"])) and \
                        not any(f.nodes[x].get("n") == "CommaChar" for x in f.walk(f.nodes[lp]["body"]) if x not in set(f.walk(f.nodes[i]["then"])))
        r.ob(f.q, "skip Undefined", ok_skip, "members are written only under !isUndefined()", "Include/Value.hpp:%d" % f.line)
        # ... and under nothing else: every live member is written (a test of the key, the kind or the position would drop members)
        extra = []
        for lp in loops:
            for c_ in astq.calls(f, "stringifyValue", f.nodes[lp]["body"]):
                x = astq.enclosing(f, c_, ("IfStmt",))
                while x is not None and x in set(f.walk(f.nodes[lp]["body"])):
                    atoms = []

                    def flat(nid):
                        nn = f.nodes[f.strip(nid)]
                        if nn["k"] == "BinaryOperator" and nn["op"] == "&&":
                            flat(nn["ch"][0])
                            flat(nn["ch"][1])
                        else:
                            atoms.append(f.text(f.strip(nid)).replace(" ", ""))
                    flat(f.nodes[x]["cond"])
                    for a_ in atoms:
                        if re.match(r"^\(*!\(*[\w.>\-]*[iI]sUndefined\(\)\)*$", a_):
                            continue
                        if re.match(r"^\(*\w+!=nullptr\)*$", a_):
                            continue
                        extra.append(a_)
                    x = astq.enclosing(f, x, ("IfStmt",))
        r.ob(f.q, "nothing but Undefined is skipped", not extra, "the member write is guarded by `!isUndefined()` (and a null test) only%s" % (
             "" if not extra else "; also by %s: live members failing that test are silently dropped from the text" % extra), "Include/Value.hpp:%d" % f.line)
        # the skip test must see through the pointer kind: stringifyValue writes a pointer member by recursing into its target,
        # which may be Undefined (nothing is written then, and the text reads "b":, ) -- the predicate used has a ValuePtr arm
        preds = set()
        for lp in loops:
            for c_ in astq.calls(f, None, f.nodes[lp]["body"]):
                nm_ = f.call_simple_name(c_) or ""
                if re.match(r"^[iI]sUndefined$", nm_):
                    preds.add(nm_)
        for nm_ in sorted(preds):
            defs = [g for g in m.functions if not g.inst and g.cls == "Qentem::Value" and g.name == nm_ and g.cfg]
            follows = any(any(g.nodes[y].get("n") == "ValuePtr" or "ValuePtr" in (g.text(y) if g.nodes[y]["k"] in ("DeclRefExpr", "DependentScopeDeclRefExpr") else "") for y in g.walk()) for g in defs)
            r.ob(f.q, "skip test %s() sees through pointers" % nm_, follows, "its definition %s" % (
                "has an arm for the pointer kind" if follows else "compares the kind with Undefined only: a member that points to an Undefined value passes the test, stringifyValue then writes nothing for it and the text is `\"key\":,`"),
                "Include/Value.hpp:%d" % (defs[0].line if defs else f.line))
        r.ob(f.q, "comma after emitted member only", comma_in_guard, "',' is written only inside the same guard", "Include/Value.hpp:%d" % f.line)
        # comma patch: if (*last == Comma) *last = close; else stream += close
        patch = False
        for i in astq.nodes_of(f, "IfStmt"):
            ct = f.text(f.nodes[i]["cond"])
            if "CommaChar" in ct and "last" in ct and "nullptr" in ct:
                n = f.nodes[i]
                patch = n["else"] >= 0 and close_c in f.text(n["then"]) + " ".join(f.text(x) for x in f.walk(n["then"])) and \
                    any(f.nodes[x].get("n") == close_c for x in f.walk(n["else"]))
        r.ob(f.q, "comma patch", patch, "a trailing ',' is replaced by the closing bracket, otherwise the bracket is appended", "Include/Value.hpp:%d" % f.line)
    rules.append(r)

    r = Rule("PR-precision", "Stringify(stream, precision) forwards the caller's precision to the writer", floor=1)
    for f in m.fns("Qentem::Value::Stringify"):
        if len(f.params) == 2:
            ctx.note_fn(f)
            calls = astq.calls(f, "stringifyValue") + astq.calls(f, "stringifyObject") + astq.calls(f, "stringifyArray")
            ok = bool(calls) and all(any(f.nodes[x].get("n") == "precision" for x in f.walk(c)) for c in calls)
            r.ob(f.q, "forward precision", ok, "every writer call receives `precision`", "Include/Value.hpp:%d" % f.line)
    rules.append(r)
    from rules.common import rule_flush_first
    rules.append(rule_flush_first(ctx, m, "Qentem::JSONUtils::Escape"))
    from rules.common import rule_pointer_follow
    rules.append(rule_pointer_follow(ctx, m))
    return rules


def run(ctx):
    rules_ = list(_run_own(ctx) or [])
    from rules.common import shared
    have = set(r_.rid for r_ in rules_)
    rules_ += [r_ for r_ in shared(ctx, 'C13', ['HC-confirm']) if r_.rid not in have]
    rules_ += [r_ for r_ in shared(ctx, 'C09', ['TB-bounds', 'UNS-shift', 'SB-roundcarry']) if r_.rid not in have]
    rules_ += [r_ for r_ in shared(ctx, 'C05', ['BORROW']) if r_.rid not in have]
    rules_ += [r_ for r_ in shared(ctx, 'C14', ['SB-bytes']) if r_.rid not in have]
    rules_ += [r_ for r_ in shared(ctx, 'C06', ['FX-utf', 'X-surrogate']) if r_.rid not in have]
    for r_ in shared(ctx, 'C16', ['BORROW']):
        if r_.rid in set(x.rid for x in rules_):
            r_.rid = r_.rid + "/C16"
        rules_.append(r_)
    for r_ in shared(ctx, 'C14', ['ALIAS']):
        if r_.rid in set(x.rid for x in rules_):
            r_.rid = r_.rid + "/C14"
        rules_.append(r_)
    return rules_
