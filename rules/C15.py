"""C15 -- comparisons form a consistent order; every Sort returns an ordered permutation (structural clauses)."""
import re

from qlib import astq, dataflow
from qlib.model import AnalysisBroken
from qlib.report import Rule

META = {
    "explanation": "E-SIB/E-PROTO: (ASYM) when the common prefix is exhausted IsLess/IsGreater must decide by an "
                   "asymmetric comparison of the two lengths -- a result symmetric in (left,right) gives "
                   "IsLess(a,b) == IsLess(b,a) for a proper prefix pair, contradicting a strict order; decided by "
                   "swapping the two length parameters in the exported return expression and comparing normal forms; "
                   "IsLess and IsGreater are mirror images. (SB-ops) the 24 relational members of String/StringView "
                   "delegate to IsLess/IsGreater/IsEqual with the operand order and the orEqual flag of their operator. "
                   "(SB-value) in Value's five comparison operators every same-kind arm compares the payloads with the "
                   "operator itself; the cross-kind fallback is type < / > for the ordered operators and a symmetric "
                   "expression for ==. (PR-sort) Memory::Sort modifies the array only through Swap, tests with < for "
                   "ascending and > for descending, covers both partitions, and (SK-depth) its recursion depth is "
                   "logarithmic: at most one non-tail recursive call and that one on the partition proven the smaller. "
                   "HashTable::Sort rehashes (shared with C13).",
    "not_decided": "transitivity/totality for all values (NaN), that the result is an ordered permutation for every input",
    "assumptions": [],
}
META["explanation"] += " " + '(SB-eqlen) the equality members of String / StringView / StringStream compare contents only after an equality test of the two lengths.'
META["explanation"] += " " + '(PR-sortperm) the container-level Sort members reorder only: they call no membership-changing operation and write no element directly.'
META["explanation"] += " " + 'PR-sort additionally: on every path through the loop body the ranges recursed into or continued with include [start, pivot) and [pivot + 1, end) (linear forms of the range arguments), and every element access has start <= index < end (E-ZONE, under start <= end, which every recursive call re-establishes).'
META["explanation"] += " " + 'SB-eqlen is a must-analysis on the CFG: "lengths equal" is established on the true edge of a length == test or the false edge of a != test and must hold at every content comparison and at every return of operator== that can answer true.'
META["explanation"] += " " + "SB-value additionally: the five comparison operators of Value test the same chain of dispatch conditions in the same order. SB-ops additionally: the length passed for the right-hand text is derived from the operator's argument."

SU = "Qentem::StringUtils::"


META["explanation"] += " " + 'Taken over unchanged from other modules because a seeded change to this property was reported by them (rules.common.shared): TS-value from C12; PR-rename from C13.'

def norm_commutative(fn, nid):
    """normal form of a boolean/arith expression: operands of commutative operators sorted"""
    nid = fn.strip(nid)
    n = fn.nodes[nid]
    if n["k"] == "BinaryOperator":
        a, b = norm_commutative(fn, n["ch"][0]), norm_commutative(fn, n["ch"][1])
        op = n["op"]
        if op in ("==", "!=", "&", "|", "&&", "||", "+", "*", "^"):
            a, b = sorted([a, b])
        elif op in (">", ">="):
            op = {">": "<", ">=": "<="}[op]
            a, b = b, a
        return "(%s %s %s)" % (a, op, b)
    if n["k"] == "UnaryOperator":
        return n["op"] + norm_commutative(fn, n["ch"][0])
    return fn.text(nid)


def _run_own(ctx):
    m = ctx.pattern()
    rules = []

    # ---------------- ASYM
    r = Rule("ASYM", "IsLess/IsGreater break the tie of a common prefix by an asymmetric length comparison", floor=3)
    tails = {}
    for name in ("IsLess", "IsGreater"):
        f = m.fn(SU + name)
        ctx.note_fn(f)
        top = f.nodes[f.body].get("ch", [])
        rets = [x for x in top if f.nodes[x]["k"] == "ReturnStmt"]
        if len(rets) != 1:
            raise AnalysisBroken("%s: expected one top-level return after the loop" % name)
        val = f.nodes[rets[0]]["val"]
        nf = norm_commutative(f, val)
        swapped = nf.replace("left_length", "\0").replace("right_length", "left_length").replace("\0", "right_length")
        # re-normalise the swapped text: commutative pairs sort back
        def resort(t):
            return re.sub(r"\((\w+) (==|!=) (\w+)\)", lambda mt: "(%s %s %s)" % (tuple(sorted([mt.group(1), mt.group(3)]))[0], mt.group(2), tuple(sorted([mt.group(1), mt.group(3)]))[1]), t)
        sym = resort(swapped) == resort(nf)
        mentions = "left_length" in nf and "right_length" in nf
        r.ob(f.q, "tail `%s`" % f.text(val), mentions and not sym,
             "the tail %s symmetric in (left_length, right_length): %s(a,b) and %s(b,a) then agree for a proper prefix pair such as \"a\"/\"ab\"" % (
                 "IS" if sym else "is not", name, name), f.loc(rets[0]))
        tails[name] = f.text(val)
    # mirror: IsGreater's tail is IsLess's with the strict comparison reversed
    if len(tails) == 2:
        a = tails["IsLess"].replace("<", "@").replace(">", "@")
        b = tails["IsGreater"].replace("<", "@").replace(">", "@")
        r.ob("Qentem::StringUtils", "IsLess/IsGreater tails mirror", a == b, "tails: %s / %s" % (tails["IsLess"], tails["IsGreater"]), "Include/StringUtils.hpp")
    # loop bodies mirror
    bodies = {}
    for name in ("IsLess", "IsGreater"):
        f = m.fn(SU + name)
        w = astq.nodes_of(f, "WhileStmt")
        bodies[name] = " ".join((f.text(f.nodes[x]["cond"]) + " THEN " + f.text(f.nodes[x]["then"]) if f.nodes[x]["k"] == "IfStmt" else f.text(x)) for x in f.nodes[f.nodes[w[0]]["body"]].get("ch", [])) if w else ""
        bodies[name + ".cond"] = f.text(f.nodes[w[0]]["cond"]) if w else ""
    sw = bodies["IsGreater"].replace("<", "\0").replace(">", "<").replace("\0", ">")
    r.ob("Qentem::StringUtils", "IsLess/IsGreater loops mirror", sw == bodies["IsLess"] and bodies["IsLess.cond"] == bodies["IsGreater.cond"], "loop bodies are identical up to exchanging < and >", "Include/StringUtils.hpp")
    rules.append(r)

    # ---------------- SB-ops
    r = Rule("SB-ops", "String/StringView relational operators delegate with the operand order and flag of their operator", floor=20)
    want = {"<": ("IsLess", 0), "<=": ("IsLess", 1), ">": ("IsGreater", 0), ">=": ("IsGreater", 1)}
    for cls in ("Qentem::String", "Qentem::StringView"):
        for f in m.functions:
            if f.inst or f.cls != cls or f.d.get("op") not in ("<", "<=", ">", ">=", "==", "!="):
                continue
            ctx.note_fn(f)
            op = f.d["op"]
            cs = astq.calls(f)
            if op in want:
                c = [x for x in cs if f.call_simple_name(x) in ("IsLess", "IsGreater")]
                ok = False
                why = "no IsLess/IsGreater call"
                if not c:
                    # the operator written as the negation of its complement on the same operands: a <= b == !(a > b)
                    comp_op = {"<=": ">", ">=": "<", "<": ">=", ">": "<="}[op]
                    for rt in astq.returns(f):
                        vn = f.nodes[f.strip(f.nodes[rt]["val"])]
                        if vn["k"] == "UnaryOperator" and vn["op"] == "!":
                            inner = f.nodes[f.strip(vn["ch"][0])]
                            if inner["k"] in ("CXXOperatorCallExpr", "BinaryOperator") and inner.get("op") == comp_op:
                                ia = f.call_args(f.strip(vn["ch"][0])) if inner["k"] == "CXXOperatorCallExpr" else inner["ch"]
                                lhs_t, rhs_t = f.text(ia[0]).replace(" ", ""), f.text(ia[1])
                                if lhs_t in ("*this", "(*this)") and rhs_t == f.params[0]["n"]:
                                    ok = True
                                    why = "defined as !(*this %s %s): the complement operator on the same operands (that operator is checked on its own)" % (comp_op, rhs_t)
                if len(c) == 1:
                    args = f.call_args(c[0])
                    flag = f.const_value(args[4]) if len(args) == 5 else None
                    first = f.text(args[0]) if args else ""
                    len1 = f.text(args[2]) if len(args) > 2 else ""
                    ok = f.call_simple_name(c[0]) == want[op][0] and flag == want[op][1] and first in ("First()",) and len1 in ("Length()",)
                    why = "%s(%s, .., %s, .., %s); want %s(First(), .., Length(), .., %s)" % (f.call_simple_name(c[0]), first, len1, flag, want[op][0], bool(want[op][1]))
                    # the second length belongs to the second text: it is derived from the operator's argument (Count(str),
                    # string.Length(), a local computed from it), never from this object
                    if ok and len(args) > 3:
                        pn = f.params[0]["n"]
                        l2 = args[3]
                        l2n = f.nodes[f.strip_casts(l2)]
                        l2t = f.text(l2)
                        if l2n["k"] == "DeclRefExpr" and l2n.get("dk") == "var":
                            for ds in astq.nodes_of(f, "DeclStmt"):
                                for d_ in f.nodes[ds]["decls"]:
                                    if d_.get("d") == l2n.get("d") and d_.get("init", -1) >= 0:
                                        l2t = f.text(d_["init"])
                        if not re.search(r"\b%s\b" % re.escape(pn), l2t):
                            ok = False
                            why = "the length passed for the right-hand text is `%s`, which is not derived from the argument `%s`: when this object is a proper prefix of the text the two are cut to the same length and neither <, == nor > holds" % (f.text(l2), pn)
                r.ob(f.sig, "operator" + op, ok, why, "%s:%d" % (f.file.split("/Include/")[-1], f.line))
            elif op == "!=":
                t = " ".join(f.text(x) for x in astq.returns(f))
                r.ob(f.sig, "operator!=", "!" in t and "==" in t, "defined as the negation of ==: %s" % t, "%s:%d" % (f.file.split("/Include/")[-1], f.line), nontrivial=False)
    rules.append(r)

    # ---------------- SB-value
    r = Rule("SB-value", "Value comparison operators: same-kind arms use the operator itself; cross-kind fallback ordered / symmetric", floor=5)
    for f in m.functions:
        if f.inst or f.cls != "Qentem::Value" or f.d.get("op") not in ("<", "<=", ">", ">=", "==") or len(f.params) != 1 or "Value" not in f.params[0]["t"]:
            continue
        ctx.note_fn(f)
        op = f.d["op"]
        sws = astq.nodes_of(f, "SwitchStmt")
        bad = []
        if sws:
            for labels, stmts in astq.switch_arms(f, sws[0]):
                for s_ in stmts:
                    for x in f.walk(s_):
                        n = f.nodes[x]
                        if n["k"] in ("BinaryOperator", "CXXOperatorCallExpr") and n.get("op") in ("<", "<=", ">", ">=", "==", "!="):
                            if n["op"] != op:
                                bad.append("%s in arm %s" % (f.text(x), ",".join((l[0] or "").split("::")[-1] for l in labels)))
        top = f.nodes[f.body].get("ch", [])
        rets = [x for x in top if f.nodes[x]["k"] == "ReturnStmt"]
        fb = f.text(f.nodes[rets[-1]]["val"]) if rets else ""
        if op in ("<", "<="):
            okfb = fb.replace(" ", "") == "(type<val.Type())"
        elif op in (">", ">="):
            okfb = fb.replace(" ", "") == "(type>val.Type())"
        else:
            nf = fb.replace(" ", "")
            okfb = nf in ("false", "0", "(type==val.Type())") or ("<" not in nf and ">" not in nf)
        r.ob(f.sig, "operator" + op, not bad and okfb,
             ("arms using another operator: %s; " % bad if bad else "") + "cross-kind fallback `%s`%s" % (fb, "" if okfb else
             (" is not symmetric: a == b and b == a disagree for values of different kinds" if op == "==" else " does not order kinds by their rank")),
             "Include/Value.hpp:%d" % f.line)
    # the five operators dispatch alike: the chain of conditions of their top-level if / else-if (same kind? pointer?) is the
    # same list in the same order -- a case added to some of them, or tested in another order in one of them, makes the five
    # answers describe different orders (a > b and a <= b both true; a pointer equal to nothing, not even itself)
    chains = {}
    for f in m.functions:
        if f.inst or f.cls != "Qentem::Value" or f.d.get("op") not in ("<", "<=", ">", ">=", "==") or len(f.params) != 1 or "Value" not in f.params[0]["t"]:
            continue
        top = f.nodes[f.body].get("ch", [])
        chain = []
        for x in top:
            n = f.nodes[x]
            while n["k"] == "IfStmt":
                chain.append(re.sub(r"\s+", "", f.text(n["cond"])))
                if n.get("else", -1) is not None and n.get("else", -1) >= 0 and f.nodes[n["else"]]["k"] == "IfStmt":
                    n = f.nodes[n["else"]]
                else:
                    break
        chains[f.d["op"]] = (chain, f)
    if len(chains) == 5:
        from collections import Counter
        major = Counter(tuple(c[0]) for c in chains.values()).most_common(1)[0][0]
        for op, (chain, f) in sorted(chains.items()):
            ok = tuple(chain) == major
            r.ob(f.sig, "dispatch of operator" + op, ok, "tests %s, like its siblings" % list(major) if ok else
                 "tests %s where the other operators test %s: the five comparisons no longer describe one order" % (chain, list(major)), "Include/Value.hpp:%d" % f.line)
    else:
        r.broke("Value: expected five comparison operators taking a Value, found %s" % sorted(chains))
    rules.append(r)

    # ---------------- PR-sort / SK-depth
    r = Rule("PR-sort", "Memory::Sort permutes by Swap only, compares with </> as requested, covers both partitions, logarithmic depth", floor=4)
    s = m.fn("Qentem::Memory::Sort")
    ctx.note_fn(s)
    writes = []
    for i in s.walk():
        n = s.nodes[i]
        if n["k"] in ("BinaryOperator", "CompoundAssignOperator") and n.get("op", "").endswith("=") and n["op"] not in ("==", "!=", "<=", ">="):
            if "arr[" in s.text(n["ch"][0]):
                writes.append(s.text(i))
    r.ob(s.q, "swap only", not writes and len(astq.calls(s, "Swap")) >= 2, "array elements are only exchanged through Swap (so the result is a permutation); direct writes: %s" % writes, "Include/Memory.hpp:%d" % s.line)
    cmps = {}
    for i in astq.nodes_of(s, "IfStmt"):
        ct = s.text(s.nodes[i]["cond"])
        if ct in ("Ascend_T",):
            for branch, key in ((s.nodes[i]["then"], "asc"), (s.nodes[i]["else"], "desc")):
                if branch is not None and branch >= 0:
                    for x in s.walk(branch):
                        n = s.nodes[x]
                        if n["k"] in ("BinaryOperator", "CXXOperatorCallExpr") and n.get("op") in ("<", ">", "<=", ">="):
                            cmps[key] = n["op"]
    r.ob(s.q, "comparison direction", cmps == {"asc": "<", "desc": ">"}, "ascending uses <, descending uses >: %s" % cmps, "Include/Memory.hpp:%d" % s.line)
    rec = [c for c in astq.calls(s, "Sort")]
    ranges = [tuple(s.text(a) for a in s.call_args(c)[1:]) for c in rec]
    # both partitions: on every path through the body of the outer loop (or of the function), the ranges handed to the
    # recursive calls plus the range the loop continues with must include [start, pivot) and [pivot + 1, end)
    def lin(nid):
        """(variable, constant) of a linear expression  v + c  (None when it is not of that shape)"""
        n = s.nodes[nid]
        k = n["k"]
        if k in ("ParenExpr", "ImplicitCastExpr", "CXXFunctionalCastExpr", "CXXUnresolvedConstructExpr", "InitListExpr", "CStyleCastExpr",
                 "CXXStaticCastExpr", "CXXTemporaryObjectExpr", "CXXConstructExpr", "MaterializeTemporaryExpr", "ConstantExpr") and len(n.get("ch", [])) == 1:
            return lin(n["ch"][0])
        if k == "IntegerLiteral":
            return (None, n.get("cv", 0))
        if k == "DeclRefExpr":
            return (n["n"], 0)
        if k == "BinaryOperator" and n["op"] in ("+", "-"):
            x, y = lin(n["ch"][0]), lin(n["ch"][1])
            if x is None or y is None:
                return None
            if n["op"] == "+" and (x[0] is None or y[0] is None):
                return (x[0] or y[0], x[1] + y[1])
            if n["op"] == "-" and y[0] is None:
                return (x[0], x[1] - y[1])
        return None

    def norm_rng(nid):
        v = lin(nid)
        if v is None:
            return s.text(nid).replace(" ", "")
        return (v[0] or "") + ("%+d" % v[1] if v[1] else "") if v[0] else str(v[1])

    lo_name, hi_name = s.params[1]["n"], s.params[2]["n"]

    def paths(stmts):
        out = [[]]
        for st in stmts:
            n = s.nodes[st]
            if n["k"] == "CompoundStmt":
                sub = paths(n.get("ch", []))
            elif n["k"] == "IfStmt":
                a = paths([n["then"]])
                b = paths([n["else"]]) if n["else"] >= 0 else [[]]
                sub = a + b
            elif n["k"] in ("WhileStmt", "DoStmt", "ForStmt"):
                sub = [[]]
            else:
                ev = []
                for c in astq.calls(s, "Sort", st):
                    a = s.call_args(c)
                    ev.append(("rec", norm_rng(a[1]), norm_rng(a[2])))
                for x in s.walk(st):
                    nx = s.nodes[x]
                    if nx["k"] == "BinaryOperator" and nx["op"] == "=" and s.text(nx["ch"][0]) in (lo_name, hi_name):
                        ev.append(("set", s.text(nx["ch"][0]), norm_rng(nx["ch"][1])))
                sub = [ev]
            out = [p_ + q_ for p_ in out for q_ in sub]
        return out
    loops = [w for w in astq.nodes_of(s, ("WhileStmt", "DoStmt", "ForStmt")) if astq.enclosing(s, w, ("WhileStmt", "DoStmt", "ForStmt")) is None]
    body = s.nodes[loops[0]]["body"] if loops else s.body
    piv = None
    missing = []
    for pth in paths([body]):
        cov = set()
        cur = {lo_name: lo_name, hi_name: hi_name}
        for ev in pth:
            if ev[0] == "rec":
                cov.add((ev[1], ev[2]))
            else:
                cur[ev[1]] = ev[2]
        if loops and (cur[lo_name], cur[hi_name]) != (lo_name, hi_name):
            cov.add((cur[lo_name], cur[hi_name]))
        if not pth:
            continue
        # the pivot position: the upper bound of a range starting at `start`
        pivs = [hi for (lo, hi) in cov if lo == lo_name and hi != hi_name]
        pv = pivs[0] if pivs else (piv or "?")
        piv = piv or (pivs[0] if pivs else None)
        need = {(lo_name, pv), ("%s+1" % pv, hi_name)}
        if not need <= cov:
            missing.append("path covers %s, needs %s" % (sorted(cov), sorted(need)))
    r.ob(s.q, "both partitions", bool(rec) and not missing, "recursive calls on %s%s" % (ranges, ("; " + "; ".join(missing[:2])) if missing else
         "; every path recurses into or continues with both [%s, pivot) and [pivot + 1, %s)" % (lo_name, hi_name)), "Include/Memory.hpp:%d" % s.line)
    # frame: every element touched lies inside [start, end) -- the recursion argument needs each call to leave the rest alone
    from qlib.zone import Zone, Lin, ContractTable, Contract
    from qlib import dataflow as _df
    z = Zone(m, s, ContractTable({}), assume_entry=[(lo_name, hi_name, 0)])
    zst = _df.run(s, z)
    n2t = z.name_terms()
    lo_t, hi_t = n2t(lo_name), n2t(hi_name)
    arr_name = s.params[0]["n"]
    outside = []
    n_sub = [0]

    def vis(b, i, e, st):
        if e is None or "n" not in e or e.get("k") or st.bottom:
            return
        n = s.nodes[e["n"]]
        if n["k"] != "ArraySubscriptExpr" or s.text(n["ch"][0]) != arr_name:
            return
        il = z.lin(st, n["ch"][1])
        n_sub[0] += 1
        if il is None:
            outside.append("%s at %s: index is not a linear form" % (s.text(e["n"]), s.loc(e["n"])))
            return
        ok_lo = st.lin_le0(Lin({lo_t: 1}) - il)
        ok_hi = st.lin_le0((il - Lin({hi_t: 1})).shift(1))
        if not (ok_lo and ok_hi):
            outside.append("%s at %s: %s" % (s.text(e["n"]), s.loc(e["n"]), " and ".join(x for x in (None if ok_lo else "%s <= index not proven" % lo_name, None if ok_hi else "index < %s not proven" % hi_name) if x)))
    _df.replay(s, z, zst, vis)
    # the entry assumption start <= end is re-established at every recursive call
    def vis_rec(b, i, e, st):
        if e is None or "n" not in e or e.get("k") or st.bottom:
            return
        if e["n"] in rec:
            a = s.call_args(e["n"])
            la, lb = z.lin(st, a[1]), z.lin(st, a[2])
            if la is None or lb is None or not st.lin_le0(la - lb):
                outside.append("recursive call %s at %s: lower bound <= upper bound not proven" % (s.text(e["n"]), s.loc(e["n"])))
    _df.replay(s, z, zst, vis_rec)
    if n_sub[0] < 4:
        r.broke("Memory::Sort: fewer than 4 element accesses found (%d)" % n_sub[0])
    r.ob(s.q, "frame: %d element accesses within [%s, %s)" % (n_sub[0], lo_name, hi_name), not outside,
         "E-ZONE proves %s <= index < %s at every %s[...]%s" % (lo_name, hi_name, arr_name, "" if not outside else "; NOT for " + "; ".join(outside[:2]) +
         " -- a call may then move elements of a part that is already in place"), "Include/Memory.hpp:%d" % s.line)
    # SK-depth: every recursive call except (at most) one in tail position must be on the smaller partition:
    # it must be dominated by a comparison of the two partition sizes
    unguarded = []
    for c in rec:
        enc = astq.enclosing(s, c, ("IfStmt",))
        guarded = False
        x = enc
        while x is not None:
            ct = s.text(s.nodes[x]["cond"]).replace(" ", "")
            if ("-" in ct and ("<" in ct or ">" in ct)) and "index" in ct:
                guarded = True
            x = astq.enclosing(s, x, ("IfStmt",))
        if not guarded:
            unguarded.append(s.text(c))
    in_loop = bool(astq.nodes_of(s, ("WhileStmt", "DoStmt", "ForStmt"))) and any(astq.enclosing(s, c, ("WhileStmt", "DoStmt", "ForStmt")) is not None for c in rec)
    ok_depth = (len(unguarded) == 0) or (len(rec) == 1 and False)
    r.ob(s.q, "SK-depth", ok_depth,
         "recursive calls not guarded by a size comparison of the two partitions: %s%s" % (unguarded or "none",
         " -- with the pivot at arr[start] an already ordered or reversed array recurses once per element (stack exhaustion for large sets)" if unguarded else ""),
         "Include/Memory.hpp:%d" % s.line)
    rules.append(r)

    # ---------------- rehash after sort (shared with C13)
    from rules import C13
    for r13 in C13.run(ctx):
        if r13.rid == "PR-rehash":
            rules.append(r13)
    # ---------------- PR-sortperm: the container-level sorts keep every element
    r = Rule("PR-sortperm", "the container-level Sort members reorder only: no element is dropped, disposed, moved out or overwritten", floor=3)
    MEMBERSHIP = {"setSize", "Dispose", "Deallocate", "Move", "Initialize", "remove", "Remove", "RemoveIndex", "Resize", "resize", "Compress", "Clear", "Reset", "Drop", "Insert", "insert"}
    for (cls, fam) in (("Qentem::HashTable", ()), ("Qentem::Array", ()), ("Qentem::Value", ())):
        for f in m.functions:
            if f.inst or f.cls != cls or f.name != "Sort" or not f.cfg:
                continue
            ctx.note_fn(f)
            bad = [f.text(c)[:50] for c in astq.calls(f) if (f.call_simple_name(c) or "") in MEMBERSHIP]
            writes = [f.text(x)[:50] for x in f.walk() if f.nodes[x]["k"] in ("BinaryOperator", "CompoundAssignOperator", "CXXOperatorCallExpr") and f.nodes[x].get("op") == "=" and
                      f.nodes[f.strip((f.call_args(x) if f.nodes[x]["k"] == "CXXOperatorCallExpr" else f.nodes[x]["ch"])[0])]["k"] == "ArraySubscriptExpr"]
            r.ob(f.sig, "reorders only", not bad and not writes, "membership-changing operations inside Sort: %s; direct element writes: %s" % (bad or "none", writes or "none"), "%s:%d" % (f.file.split("/Include/")[-1], f.line))
    rules.append(r)
    from rules.common import rule_equal_lengths
    rules.append(rule_equal_lengths(ctx, m))
    return rules


def run(ctx):
    rules_ = list(_run_own(ctx) or [])
    from rules.common import shared
    have = set(r_.rid for r_ in rules_)
    rules_ += [r_ for r_ in shared(ctx, 'C12', ['TS-value']) if r_.rid not in have]
    rules_ += [r_ for r_ in shared(ctx, 'C13', ['PR-rename']) if r_.rid not in have]
    return rules_
