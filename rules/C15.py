"""C15 -- comparisons form a consistent order; every Sort returns an ordered permutation (structural clauses)."""
import re

from qlib import astq, dataflow
from qlib.model import AnalysisBroken
from qlib.report import Rule

META = {
    "explanation": "E-SIB/E-PROTO: (ASYM) when the common prefix is exhausted IsLess/IsGreater must decide by an "
                   "asymmetric comparison of the two lengths -- a result symmetric in (left,right) gives "
                   "IsLess(a,b) == IsLess(b,a) for a proper prefix pair, contradicting a strict order; decided by "
                   "swapping the two length parameters in the exported return expression and comparing normal forms; "
                   "IsLess and IsGreater are mirror images. (SB-ops) the 24 relational members of String/StringView "
                   "delegate to IsLess/IsGreater/IsEqual with the operand order and the orEqual flag of their operator. "
                   "(SB-value) in Value's five comparison operators every same-kind arm compares the payloads with the "
                   "operator itself; the cross-kind fallback is type < / > for the ordered operators and a symmetric "
                   "expression for ==. (PR-sort) Memory::Sort modifies the array only through Swap, tests with < for "
                   "ascending and > for descending, covers both partitions, and (SK-depth) its recursion depth is "
                   "logarithmic: at most one non-tail recursive call and that one on the partition proven the smaller. "
                   "HashTable::Sort rehashes (shared with C13).",
    "not_decided": "transitivity/totality for all values (NaN), that the result is an ordered permutation for every input",
    "assumptions": [],
}

SU = "Qentem::StringUtils::"


def norm_commutative(fn, nid):
    """normal form of a boolean/arith expression: operands of commutative operators sorted"""
    nid = fn.strip(nid)
    n = fn.nodes[nid]
    if n["k"] == "BinaryOperator":
        a, b = norm_commutative(fn, n["ch"][0]), norm_commutative(fn, n["ch"][1])
        op = n["op"]
        if op in ("==", "!=", "&", "|", "&&", "||", "+", "*", "^"):
            a, b = sorted([a, b])
        elif op in (">", ">="):
            op = {">": "<", ">=": "<="}[op]
            a, b = b, a
        return "(%s %s %s)" % (a, op, b)
    if n["k"] == "UnaryOperator":
        return n["op"] + norm_commutative(fn, n["ch"][0])
    return fn.text(nid)


def run(ctx):
    m = ctx.pattern()
    rules = []

    # ---------------- ASYM
    r = Rule("ASYM", "IsLess/IsGreater break the tie of a common prefix by an asymmetric length comparison", floor=3)
    tails = {}
    for name in ("IsLess", "IsGreater"):
        f = m.fn(SU + name)
        ctx.note_fn(f)
        top = f.nodes[f.body].get("ch", [])
        rets = [x for x in top if f.nodes[x]["k"] == "ReturnStmt"]
        if len(rets) != 1:
            raise AnalysisBroken("%s: expected one top-level return after the loop" % name)
        val = f.nodes[rets[0]]["val"]
        nf = norm_commutative(f, val)
        swapped = nf.replace("left_length", "\0").replace("right_length", "left_length").replace("\0", "right_length")
        # re-normalise the swapped text: commutative pairs sort back
        def resort(t):
            return re.sub(r"\((\w+) (==|!=) (\w+)\)", lambda mt: "(%s %s %s)" % (tuple(sorted([mt.group(1), mt.group(3)]))[0], mt.group(2), tuple(sorted([mt.group(1), mt.group(3)]))[1]), t)
        sym = resort(swapped) == resort(nf)
        mentions = "left_length" in nf and "right_length" in nf
        r.ob(f.q, "tail `%s`" % f.text(val), mentions and not sym,
             "the tail %s symmetric in (left_length, right_length): %s(a,b) and %s(b,a) then agree for a proper prefix pair such as \"a\"/\"ab\"" % (
                 "IS" if sym else "is not", name, name), f.loc(rets[0]))
        tails[name] = f.text(val)
    # mirror: IsGreater's tail is IsLess's with the strict comparison reversed
    if len(tails) == 2:
        a = tails["IsLess"].replace("<", "@").replace(">", "@")
        b = tails["IsGreater"].replace("<", "@").replace(">", "@")
        r.ob("Qentem::StringUtils", "IsLess/IsGreater tails mirror", a == b, "tails: %s / %s" % (tails["IsLess"], tails["IsGreater"]), "Include/StringUtils.hpp")
    # loop bodies mirror
    bodies = {}
    for name in ("IsLess", "IsGreater"):
        f = m.fn(SU + name)
        w = astq.nodes_of(f, "WhileStmt")
        bodies[name] = " ".join((f.text(f.nodes[x]["cond"]) + " THEN " + f.text(f.nodes[x]["then"]) if f.nodes[x]["k"] == "IfStmt" else f.text(x)) for x in f.nodes[f.nodes[w[0]]["body"]].get("ch", [])) if w else ""
        bodies[name + ".cond"] = f.text(f.nodes[w[0]]["cond"]) if w else ""
    sw = bodies["IsGreater"].replace("<", "\0").replace(">", "<").replace("\0", ">")
    r.ob("Qentem::StringUtils", "IsLess/IsGreater loops mirror", sw == bodies["IsLess"] and bodies["IsLess.cond"] == bodies["IsGreater.cond"], "loop bodies are identical up to exchanging < and >", "Include/StringUtils.hpp")
    rules.append(r)

    # ---------------- SB-ops
    r = Rule("SB-ops", "String/StringView relational operators delegate with the operand order and flag of their operator", floor=20)
    want = {"<": ("IsLess", 0), "<=": ("IsLess", 1), ">": ("IsGreater", 0), ">=": ("IsGreater", 1)}
    for cls in ("Qentem::String", "Qentem::StringView"):
        for f in m.functions:
            if f.inst or f.cls != cls or f.d.get("op") not in ("<", "<=", ">", ">=", "==", "!="):
                continue
            ctx.note_fn(f)
            op = f.d["op"]
            cs = astq.calls(f)
            if op in want:
                c = [x for x in cs if f.call_simple_name(x) in ("IsLess", "IsGreater")]
                ok = False
                why = "no IsLess/IsGreater call"
                if len(c) == 1:
                    args = f.call_args(c[0])
                    flag = f.const_value(args[4]) if len(args) == 5 else None
                    first = f.text(args[0]) if args else ""
                    len1 = f.text(args[2]) if len(args) > 2 else ""
                    ok = f.call_simple_name(c[0]) == want[op][0] and flag == want[op][1] and first in ("First()",) and len1 in ("Length()",)
                    why = "%s(%s, .., %s, .., %s); want %s(First(), .., Length(), .., %s)" % (f.call_simple_name(c[0]), first, len1, flag, want[op][0], bool(want[op][1]))
                r.ob(f.sig, "operator" + op, ok, why, "%s:%d" % (f.file.split("/Include/")[-1], f.line))
            elif op == "!=":
                t = " ".join(f.text(x) for x in astq.returns(f))
                r.ob(f.sig, "operator!=", "!" in t and "==" in t, "defined as the negation of ==: %s" % t, "%s:%d" % (f.file.split("/Include/")[-1], f.line), nontrivial=False)
    rules.append(r)

    # ---------------- SB-value
    r = Rule("SB-value", "Value comparison operators: same-kind arms use the operator itself; cross-kind fallback ordered / symmetric", floor=5)
    for f in m.functions:
        if f.inst or f.cls != "Qentem::Value" or f.d.get("op") not in ("<", "<=", ">", ">=", "==") or len(f.params) != 1 or "Value" not in f.params[0]["t"]:
            continue
        ctx.note_fn(f)
        op = f.d["op"]
        sws = astq.nodes_of(f, "SwitchStmt")
        bad = []
        if sws:
            for labels, stmts in astq.switch_arms(f, sws[0]):
                for s_ in stmts:
                    for x in f.walk(s_):
                        n = f.nodes[x]
                        if n["k"] in ("BinaryOperator", "CXXOperatorCallExpr") and n.get("op") in ("<", "<=", ">", ">=", "==", "!="):
                            if n["op"] != op:
                                bad.append("%s in arm %s" % (f.text(x), ",".join((l[0] or "").split("::")[-1] for l in labels)))
        top = f.nodes[f.body].get("ch", [])
        rets = [x for x in top if f.nodes[x]["k"] == "ReturnStmt"]
        fb = f.text(f.nodes[rets[-1]]["val"]) if rets else ""
        if op in ("<", "<="):
            okfb = fb.replace(" ", "") == "(type<val.Type())"
        elif op in (">", ">="):
            okfb = fb.replace(" ", "") == "(type>val.Type())"
        else:
            nf = fb.replace(" ", "")
            okfb = nf in ("false", "0", "(type==val.Type())") or ("<" not in nf and ">" not in nf)
        r.ob(f.sig, "operator" + op, not bad and okfb,
             ("arms using another operator: %s; " % bad if bad else "") + "cross-kind fallback `%s`%s" % (fb, "" if okfb else
             (" is not symmetric: a == b and b == a disagree for values of different kinds" if op == "==" else " does not order kinds by their rank")),
             "Include/Value.hpp:%d" % f.line)
    rules.append(r)

    # ---------------- PR-sort / SK-depth
    r = Rule("PR-sort", "Memory::Sort permutes by Swap only, compares with </> as requested, covers both partitions, logarithmic depth", floor=4)
    s = m.fn("Qentem::Memory::Sort")
    ctx.note_fn(s)
    writes = []
    for i in s.walk():
        n = s.nodes[i]
        if n["k"] in ("BinaryOperator", "CompoundAssignOperator") and n.get("op", "").endswith("=") and n["op"] not in ("==", "!=", "<=", ">="):
            if "arr[" in s.text(n["ch"][0]):
                writes.append(s.text(i))
    r.ob(s.q, "swap only", not writes and len(astq.calls(s, "Swap")) >= 2, "array elements are only exchanged through Swap (so the result is a permutation); direct writes: %s" % writes, "Include/Memory.hpp:%d" % s.line)
    cmps = {}
    for i in astq.nodes_of(s, "IfStmt"):
        ct = s.text(s.nodes[i]["cond"])
        if ct in ("Ascend_T",):
            for branch, key in ((s.nodes[i]["then"], "asc"), (s.nodes[i]["else"], "desc")):
                if branch is not None and branch >= 0:
                    for x in s.walk(branch):
                        n = s.nodes[x]
                        if n["k"] in ("BinaryOperator", "CXXOperatorCallExpr") and n.get("op") in ("<", ">", "<=", ">="):
                            cmps[key] = n["op"]
    r.ob(s.q, "comparison direction", cmps == {"asc": "<", "desc": ">"}, "ascending uses <, descending uses >: %s" % cmps, "Include/Memory.hpp:%d" % s.line)
    rec = [c for c in astq.calls(s, "Sort")]
    ranges = [tuple(s.text(a) for a in s.call_args(c)[1:]) for c in rec]
    r.ob(s.q, "both partitions", len(rec) >= 2 or (len(rec) == 1 and bool(astq.nodes_of(s, ("WhileStmt", "DoStmt", "ForStmt")))), "recursive calls on %s" % ranges, "Include/Memory.hpp:%d" % s.line)
    # SK-depth: every recursive call except (at most) one in tail position must be on the smaller partition:
    # it must be dominated by a comparison of the two partition sizes
    unguarded = []
    for c in rec:
        enc = astq.enclosing(s, c, ("IfStmt",))
        guarded = False
        x = enc
        while x is not None:
            ct = s.text(s.nodes[x]["cond"]).replace(" ", "")
            if ("-" in ct and ("<" in ct or ">" in ct)) and "index" in ct:
                guarded = True
            x = astq.enclosing(s, x, ("IfStmt",))
        if not guarded:
            unguarded.append(s.text(c))
    in_loop = bool(astq.nodes_of(s, ("WhileStmt", "DoStmt", "ForStmt"))) and any(astq.enclosing(s, c, ("WhileStmt", "DoStmt", "ForStmt")) is not None for c in rec)
    ok_depth = (len(unguarded) == 0) or (len(rec) == 1 and False)
    r.ob(s.q, "SK-depth", ok_depth,
         "recursive calls not guarded by a size comparison of the two partitions: %s%s" % (unguarded or "none",
         " -- with the pivot at arr[start] an already ordered or reversed array recurses once per element (stack exhaustion for large sets)" if unguarded else ""),
         "Include/Memory.hpp:%d" % s.line)
    rules.append(r)

    # ---------------- rehash after sort (shared with C13)
    from rules import C13
    for r13 in C13.run(ctx):
        if r13.rid == "PR-rehash":
            rules.append(r13)
    return rules
