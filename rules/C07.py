import re
"""C07 -- JSON parsing is all-or-nothing (failure protocol of the three descent functions)."""
from qlib import dataflow, astq
from qlib.model import AnalysisBroken
from qlib.partition import Partitioned
from qlib.report import Rule
from qlib.zone import Zone, ContractTable, ZERO
from qlib.zonecheck import fmt_state
from tables.contracts import CONTRACTS

META = {
    "explanation": "Must-pass-through / typestate on the clang CFG of the uninstantiated parser (all Char_T): "
                   "(PR-gate) the only non-default return of JSONParser::Parse is reached with the zone fact "
                   "offset == length after the trailing TrimLeft; (PR-fail) every failing exit of parseValue, "
                   "parseObject and parseArray (default-constructed result, or the local container after Reset()) "
                   "carries the sentinel fact offset >= length, so no enclosing member loop can resume; (PR-closed) a "
                   "container is returned un-reset only right after an equality test of the current input unit (the "
                   "closing bracket) followed by one increment; (PR-unescape) UnEscape returns 0 on raw control "
                   "characters and unknown escapes and both callers treat 0 as failure. Decides the protocol on all "
                   "paths; does not decide the acceptance grammar of the number/hex sub-scanners.",
    "not_decided": "whether the sub-scanners accept exactly the RFC grammar (lenient \\u digits, number forms)",
    "assumptions": ["cursor + small constant does not overflow SizeT", "by-reference parameters do not alias"],
}
META["explanation"] += " " + "(PR-forward) the public JSON::Parse overloads hand the caller's content and length on unchanged (Count(content) for the one-argument form)."
META["explanation"] += " " + '(SIGN-unit) a raw code unit is ordered against a constant only where signed and unsigned units get the same answer (the UTF-8 build must not reject what the wide builds accept).'

PARSER = "Qentem::JSON::JSONParser::"
DESCENT = ("parseValue", "parseObject", "parseArray")


META["explanation"] += " " + "(PR-quote) abstract paths through parseValue's string arm: every path from the UnEscape call to the return of the string has found the unit at (returned length - 1) equal to the quote, and a path between that test and the return looks for a backslash in front of it (UnEscape also returns at the end of the text). (PR-scratch, shared with C06) every path of JSONParser::Parse clears the scratch stream before parseValue."

META["explanation"] += " " + '(ERR-scan, shared with C09) the bool result of a scanner that moves a by-reference cursor (parseExponent) is never an expression statement of its own. (KW-exhaust) must-analysis: a keyword kind (True/False/Null) is returned, or a keyword-matching helper returns true, only where `*w == 0` is known for the pointer w that walks the literal.'

META["explanation"] += " " + '(HEX-four) every HexStringToNumber call in UnEscape is the cursor form and the cursor is compared with the expected end afterwards. (PR-lowsurr) the two-unit skip in front of a low surrogate is unreachable once the true edges of the tests of those units against the backslash and against u/U are cut.'

META["explanation"] += " " + 'Taken over unchanged from other modules because a seeded change to this property was reported by them (rules.common.shared): TB-ws/TB-brackets/X-surrogate/X-valuestart from C06.'

def cursor_and_bound(fn):
    """(by-ref unsigned cursor parameter, bound parameter) of a descent function"""
    c = CONTRACTS.get(fn.q)
    if c is None or len(c.buffers) != 1:
        raise AnalysisBroken("no single-buffer contract for %s" % fn.q)
    bound = list(c.buffers.values())[0]
    cur = [p for p in fn.params if p["ref"] and not p.get("pconst") and p["tk"] == "uint"]
    if len(cur) != 1:
        raise AnalysisBroken("%s: expected exactly one by-reference cursor parameter" % fn.q)
    bp = [p for p in fn.params if p["n"] == bound]
    if not bp:
        raise AnalysisBroken("%s: bound parameter %s vanished" % (fn.q, bound))
    return "v:%s#%d" % (cur[0]["n"], cur[0]["d"]), "v:%s#%d" % (bp[0]["n"], bp[0]["d"]), cur[0]["n"], bound


def container_local(fn):
    """names of the locals the function returns (the container being built; none for parseValue)"""
    local = set()
    for st in astq.nodes_of(fn, "DeclStmt"):
        for d in fn.nodes[st]["decls"]:
            if "n" in d and not d.get("ref") and d.get("tk") != "ptr":
                local.add(d["n"])
    names = set()
    for r in astq.returns(fn):
        v = fn.nodes[r].get("val", -1)
        if v is None or v < 0:
            continue
        vn = fn.nodes[fn.strip_casts(v)]
        while vn["k"] in ("CXXConstructExpr", "MaterializeTemporaryExpr", "ExprWithCleanups", "CXXBindTemporaryExpr") and len(vn.get("ch", [])) == 1:
            vn = fn.nodes[fn.strip_casts(vn["ch"][0])]
        if vn["k"] == "DeclRefExpr" and vn.get("n") in local and not astq.is_default_constructed(fn, fn.strip_casts(v)):
            names.add(vn["n"])
    return names


def is_unit_test(fn, cond):
    """cond is  <input unit> ==/!= <constant>: returns ('==' or '!=') else None"""
    n = fn.nodes[fn.strip(cond)]
    if n["k"] != "BinaryOperator" or n["op"] not in ("==", "!="):
        return None
    for x, y in (n["ch"], n["ch"][::-1]):
        xn = fn.nodes[fn.strip(x)]
        yn = fn.nodes[fn.strip_casts(y)]
        const = yn["k"] in ("DependentScopeDeclRefExpr", "CharacterLiteral", "IntegerLiteral") or "cv" in yn
        unit = xn["k"] == "ArraySubscriptExpr"
        if xn["k"] == "DeclRefExpr" and xn.get("dk") == "var":
            # a local initialised from content[offset]
            for i in fn.walk():
                d = fn.nodes[i]
                if d["k"] == "DeclStmt":
                    for dd in d["decls"]:
                        if dd.get("d") == xn["d"] and dd.get("init", -1) >= 0 and \
                                fn.nodes[fn.strip(dd["init"])]["k"] == "ArraySubscriptExpr":
                            unit = True
        if const and unit:
            return n["op"]
    return None


def rule_scratch(ctx, m):
    """PR-scratch (shared with C06): the caller-supplied scratch stream is emptied on every path before parseValue runs"""
    scratch = Rule("PR-scratch", "JSONParser::Parse empties the scratch stream before parsing", floor=1)
    # PR-scratch: the caller-supplied scratch stream is emptied before anything is unescaped into it (a rejected parse
    # leaves its partial text behind)
    pf = [g for g in m.fns(PARSER + "Parse") if not g.inst]
    for g in pf:
        ctx.note_fn(g)
        if not g.cfg:
            continue
        calls_ = [(x, g.call_simple_name(x) or "") for x in g.walk() if g.nodes[x]["k"] in ("CallExpr", "CXXMemberCallExpr")]
        pv = [x for x, n_ in calls_ if n_ == "parseValue"]
        clears = [y for y, n_ in calls_ if n_ == "Clear" and g.call_receiver(y) is not None and
                  g.nodes[g.strip(g.call_receiver(y))].get("n") == "stream"]
        for x in pv:
            tb = dataflow.block_of(g, x)
            if tb is None:
                raise AnalysisBroken("JSONParser::Parse: parseValue call is not a CFG element")
            # blocks in which a Clear precedes (or, in another block, simply occurs): cut them out and ask whether the
            # parseValue block is still reachable from the entry
            cut = set()
            for y in clears:
                yb = dataflow.block_of(g, y)
                if yb is None:
                    continue
                if yb == tb:
                    els = [e.get("n") for e in g.blocks()[tb]["el"]]
                    if els.index(y) < els.index(x):
                        cut.add("same")
                else:
                    cut.add(yb)
            if "same" in cut:
                ok = True
            else:
                seen = dataflow.reachable(g, avoid_edge=lambda b, s_, kind, payload: b["id"] in cut)
                ok = tb not in seen and g.cfg["entry"] not in cut or (g.cfg["entry"] in cut)
            scratch.ob(g.q, g.text(x), ok, "the scratch stream must be cleared on every path before parseValue runs", g.loc(x))
    return scratch


def _run_own(ctx):
    m = ctx.pattern()
    table = ContractTable(CONTRACTS)
    gate = Rule("PR-gate", "Parse returns the parsed value only under offset == length after the trailing whitespace skip", floor=2)
    fail = Rule("PR-fail", "every failing exit of the descent functions establishes the sentinel offset >= length", floor=4)
    closed = Rule("PR-closed", "a container is returned without Reset() only right after the closing-bracket test", floor=4)
    unesc = Rule("PR-unescape", "UnEscape returns 0 on bad escapes/raw control characters; callers treat 0 as failure", floor=5)
    quote = Rule("PR-quote", "a string is accepted only when the unit before the position UnEscape returned is the closing quote", floor=2)

    # ---------------- PR-gate
    parse = m.fn(PARSER + "Parse", nparams=3)
    ctx.note_fn(parse)
    pv_calls = [c for c in astq.calls(parse, "parseValue")]
    if len(pv_calls) != 1:
        raise AnalysisBroken("Parse: expected one parseValue call, found %d" % len(pv_calls))
    args = parse.call_args(pv_calls[0])
    z = Zone(m, parse, table)
    cur_t, bound_t = z.term_of(args[2]), z.term_of(args[3])
    if cur_t is None or bound_t is None:
        raise AnalysisBroken("Parse: cursor/bound arguments of parseValue are not plain variables")
    # the local holding the result: declared from / assigned from the parseValue call
    holder = None
    for i in parse.walk():
        n = parse.nodes[i]
        if n["k"] == "DeclStmt":
            for d in n["decls"]:
                if d.get("init", -1) >= 0 and pv_calls[0] in list(parse.walk(d["init"])):
                    holder = d["n"]
        if n["k"] in ("BinaryOperator", "CXXOperatorCallExpr") and n.get("op") == "=" and pv_calls[0] in list(parse.walk(i)):
            lhs = parse.nodes[parse.strip(n["ch"][0] if n["k"] == "BinaryOperator" else parse.call_args(i)[0])]
            if lhs["k"] == "DeclRefExpr":
                holder = lhs["n"]
    if holder is None:
        raise AnalysisBroken("Parse: result of parseValue is not held in a local")

    def g_retag(fn, tag, e):
        if "n" not in e or e.get("k"):
            return tag
        n = fn.nodes[e["n"]]
        if n["k"] == "DeclStmt":
            for d in n["decls"]:
                if d.get("n") == holder:
                    return "parsed" if d.get("init", -1) >= 0 and pv_calls[0] in list(fn.walk(d["init"])) else "fresh"
        if n["k"] in ("BinaryOperator", "CXXOperatorCallExpr") and n.get("op") == "=":
            lhs = fn.nodes[fn.strip(n["ch"][0] if n["k"] == "BinaryOperator" else fn.call_args(e["n"])[0])]
            if lhs["k"] == "DeclRefExpr" and lhs["n"] == holder:
                return "parsed" if pv_calls[0] in list(fn.walk(e["n"])) else "other"
        if n["k"] in ("CallExpr", "CXXMemberCallExpr") and fn.call_simple_name(e["n"]) == "Reset":
            rc = fn.call_receiver(e["n"])
            if rc is not None and fn.nodes[fn.strip(rc)].get("n") == holder:
                return "reset"
        return tag

    pz = Partitioned(z, g_retag, "fresh")
    states = dataflow.run(parse, pz)

    def visit_gate(b, i, e, pst):
        if e is None or "n" not in e or e.get("k"):
            return
        n = parse.nodes[e["n"]]
        if n["k"] != "ReturnStmt":
            return
        v = n.get("val", -1)
        if astq.is_default_constructed(parse, v):
            gate.ob(parse.q, parse.text(e["n"]), True, "failing exit returns a default-constructed value", parse.loc(e["n"]), nontrivial=False)
            return
        if astq.refs_decl(parse, v, holder):
            for tag, st in sorted(pst.items()):
                if st.bottom:
                    continue
                if tag in ("fresh", "reset"):
                    gate.ob(parse.q, parse.text(e["n"]) + " [%s]" % tag, True, "the value returned on this path is Undefined", parse.loc(e["n"]), nontrivial=False)
                    continue
                ok = st.le(bound_t, cur_t, 0)
                gate.ob(parse.q, parse.text(e["n"]) + " [%s]" % tag, ok,
                        "the parsed value may be returned only when nothing but whitespace is left: need %s >= %s" % (Zone.pretty_term(cur_t), Zone.pretty_term(bound_t)),
                        parse.loc(e["n"]), {"facts": fmt_state(st, {cur_t, bound_t})})
            return
        gate.broke("Parse: return of unrecognised shape %s" % parse.text(e["n"]))
    dataflow.replay(parse, pz, states, visit_gate)

    # ---------------- PR-fail / PR-closed
    for name in DESCENT:
        f = m.fn(PARSER + name)
        ctx.note_fn(f)
        cur_t, bound_t, cur_n, bound_n = cursor_and_bound(f)
        locals_reset = container_local(f)
        if name != "parseValue" and len(locals_reset) != 1:
            raise AnalysisBroken("%s: expected one returned local container, found %s" % (name, sorted(locals_reset)))
        holder = list(locals_reset)[0] if locals_reset else None

        def retag(fn, tag, e, holder=holder):
            if "n" not in e or e.get("k"):
                return tag
            n = fn.nodes[e["n"]]
            k = n["k"]
            if k in ("CallExpr", "CXXMemberCallExpr", "CXXOperatorCallExpr"):
                nm = fn.call_simple_name(e["n"])
                r = fn.call_receiver(e["n"])
                if nm == "Reset" and r is not None and fn.nodes[fn.strip(r)].get("n") == holder:
                    return "reset"
                if tag == "closed":
                    return "live"
                return tag
            if tag == "closed" and k in ("CompoundAssignOperator",) :
                return "live"
            if tag == "closed" and k == "BinaryOperator" and n["op"] == "=":
                return "live"
            if tag == "closed" and k == "UnaryOperator" and n["op"] in ("++", "--"):
                return "closed+1" if n["op"] == "++" else "live"
            if tag == "closed+1" and k == "UnaryOperator" and n["op"] in ("++", "--"):
                return "live"
            if tag == "closed+1" and k in ("CompoundAssignOperator",):
                return "live"
            return tag

        def retag_edge(fn, tag, cond, truth):
            if tag == "reset":
                return tag
            op = is_unit_test(fn, cond)
            if op is not None:
                if (op == "==") == truth:
                    return "closed"
                return "live" if tag in ("closed", "closed+1") else tag
            return tag

        z = Zone(m, f, table)
        pz = Partitioned(z, retag, "live", retag_edge)
        states = dataflow.run(f, pz)

        def visit(b, i, e, pst, f=f, holder=holder, cur_t=cur_t, bound_t=bound_t):
            if e is None or "n" not in e or e.get("k"):
                return
            n = f.nodes[e["n"]]
            if n["k"] != "ReturnStmt":
                return
            v = n.get("val", -1)
            txt = f.text(e["n"])
            vs = f.strip(v)
            vn = f.nodes[vs] if vs is not None and vs >= 0 else None
            for tag, st in sorted(pst.items()):
                if st.bottom:
                    continue
                failing = None
                if astq.is_default_constructed(f, v):
                    failing = True
                elif vn is not None and vn["k"] in ("CallExpr", "CXXMemberCallExpr") and f.call_simple_name(vs) in DESCENT:
                    fail.ob(f.q, txt, True, "delegated to %s, whose own exits are checked" % f.call_simple_name(vs), f.loc(e["n"]), nontrivial=False)
                    continue
                elif holder is not None and astq.refs_decl(f, v, holder):
                    failing = (tag == "reset")
                    if not failing:
                        closed.ob(f.q, txt, tag == "closed+1",
                                  "the local container is returned without Reset(): must come right after "
                                  "`unit == closing bracket` and one increment (path typestate here: %s)" % tag,
                                  f.loc(e["n"]))
                        continue
                else:
                    fail.ob(f.q, txt, True, "success exit (freshly constructed scalar/string value)", f.loc(e["n"]), nontrivial=False)
                    continue
                ok = st.le(bound_t, cur_t, 0)
                fail.ob(f.q, txt + (" [after %s.Reset()]" % holder if tag == "reset" else ""), ok,
                        "failing exit needs %s >= %s" % (Zone.pretty_term(cur_t), Zone.pretty_term(bound_t)),
                        f.loc(e["n"]), {"facts": fmt_state(st, {cur_t, bound_t}), "typestate": tag})
        dataflow.replay(f, pz, states, visit)

    # ---------------- PR-unescape
    ue = m.fn("Qentem::JSONUtils::UnEscape")
    ctx.note_fn(ue)
    sws = astq.nodes_of(ue, "SwitchStmt")
    if len(sws) != 2:
        raise AnalysisBroken("UnEscape: expected an outer and an inner switch, found %d" % len(sws))
    outer, inner = sws[0], sws[1]

    def arm_returns_zero(fn, stmts):
        """the arm's statements end in `return 0` on every path that leaves the arm other than continue"""
        rets = [r for s in stmts for r in astq.returns(fn, s)]
        return bool(rets) and fn.const_value(fn.nodes[rets[-1]].get("val", -1)) == 0 and \
            fn.nodes[fn.strip(stmts[-1] if fn.nodes[stmts[-1]]["k"] != "CompoundStmt" else fn.nodes[stmts[-1]]["ch"][-1])]["k"] == "ReturnStmt"

    ctrl_seen = set()
    for labels, stmts in astq.switch_arms(ue, outer):
        names = [l[0] for l in labels]
        if any(x and x.endswith("ControlChar") for x in names):
            ok = arm_returns_zero(ue, stmts)
            for x in names:
                ctrl_seen.add(x.split("::")[-1])
            unesc.ob(ue.q, "case %s" % ",".join(x.split("::")[-1] for x in names), ok, "raw control character arm must return 0", ue.loc(stmts[0]))
    for need in ("LineControlChar", "TabControlChar", "CarriageControlChar"):
        if need not in ctrl_seen:
            unesc.ob(ue.q, "case " + need, False, "raw control character has no rejecting arm", ue.loc(outer))
    inner_default = [a for a in astq.switch_arms(ue, inner) if any(l[0] == "default" for l in a[0])]
    unesc.ob(ue.q, "inner switch default", bool(inner_default) and arm_returns_zero(ue, inner_default[0][1]),
             "unknown escape letter must return 0", ue.loc(inner))
    uarm = [a for a in astq.switch_arms(ue, inner) if any(l[0] and l[0].endswith("U_Char") for l in a[0])]
    unesc.ob(ue.q, "\\u arm", bool(uarm) and arm_returns_zero(ue, uarm[0][1]),
             "a truncated \\u escape must fall to return 0", ue.loc(inner))
    # callers: result tested != 0 before use
    for name in ("parseObject", "parseValue"):
        f = m.fn(PARSER + name)
        for c in astq.calls(f, "UnEscape"):
            # held in a local tested `!= 0` by the next if
            par = f.parents()
            holder = None
            for i in f.walk():
                n = f.nodes[i]
                if n["k"] == "DeclStmt":
                    for d in n["decls"]:
                        if d.get("init", -1) >= 0 and c in list(f.walk(d["init"])):
                            holder = d
            ok = False
            if holder is not None:
                for i in astq.nodes_of(f, "IfStmt"):
                    # the condition is `len != 0` or a conjunction whose FIRST atom is that test (the later atoms are
                    # evaluated only when it held)
                    atoms = []

                    def conj(x):
                        x = f.strip(x)
                        nn = f.nodes[x]
                        if nn["k"] == "BinaryOperator" and nn["op"] == "&&":
                            conj(nn["ch"][0])
                            conj(nn["ch"][1])
                        else:
                            atoms.append(x)
                    conj(f.nodes[i]["cond"])
                    cn = f.nodes[atoms[0]]
                    if cn["k"] == "BinaryOperator" and cn["op"] == "!=" and \
                            f.nodes[f.strip(cn["ch"][0])].get("d") == holder["d"] and f.const_value(cn["ch"][1]) == 0:
                        # every use of the holder other than the test lies inside the then-branch or a later atom
                        then = set(f.walk(f.nodes[i]["then"]))
                        guarded = set(f.walk(atoms[0]))
                        for a in atoms[1:]:
                            guarded |= set(f.walk(a))
                        uses = [u for u in f.walk() if f.nodes[u]["k"] == "DeclRefExpr" and f.nodes[u].get("d") == holder["d"]]
                        ok = all(u in then or u in guarded for u in uses)
            unesc.ob(f.q, f.text(c), ok, "length returned by UnEscape must be used only under `len != 0`", f.loc(c))
    # ---------------- PR-quote (abstract paths through parseValue's string arm)
    # UnEscape also returns (the whole length) when the text ENDS inside the string, so a non-zero result does not say the
    # string was closed.  On every path from the UnEscape call to the `return ValueT{String{...}}` of the same arm the unit
    # at (returned length - 1) of the scanned text has been found equal to the quote; and, because `\"` is not a closing
    # quote, some path between that test and the return looks at a unit for the backslash.  State per path: quote found,
    # backslash looked at, the known values of the bool locals (a flag-guarded return is followed only where the flag can
    # be true), which index locals still hold their initialiser.
    tail_rets = [x for x in astq.nodes_of(ue, "ReturnStmt")]
    ends_nonzero = bool(tail_rets) and ue.const_value(ue.nodes[tail_rets[-1]].get("val", -1)) != 0
    f = m.fn(PARSER + "parseValue")
    if not f.cfg:
        raise AnalysisBroken("parseValue has no CFG")
    if not ends_nonzero:
        quote.ob(f.q, "UnEscape tail", True, "UnEscape no longer returns a length at the end of the text: nothing to test in the caller", ue.loc(tail_rets[-1]) if tail_rets else "")
    for c in ([] if not ends_nonzero else astq.calls(f, "UnEscape")):
        holder = None
        for st_ in astq.nodes_of(f, "DeclStmt"):
            for d in f.nodes[st_]["decls"]:
                if d.get("init", -1) >= 0 and c in set(f.walk(d["init"])):
                    holder = d
        arg0 = f.nodes[f.strip_casts(f.call_args(c)[0])]
        if holder is None or arg0.get("d") is None:
            quote.ob(f.q, f.text(c), False, "the result of UnEscape is not held in a local / its text argument is not a local", f.loc(c))
            continue
        # the enclosing switch arm: sinks are its returns that build a string value
        par = f.parents()
        arm = c
        while arm in par and f.nodes[arm]["k"] not in ("CaseStmt", "DefaultStmt"):
            arm = par[arm]
        region = set(f.walk(arm))
        sinks = set(x for x in region if f.nodes[x]["k"] == "ReturnStmt" and "String<" in f.text(x))
        if not sinks:
            raise AnalysisBroken("parseValue: the string arm has no `return ValueT{String{...}}`")
        last_form = re.compile(r"^\(?%s-(fcast<[^>]*>\(\{1\}\)|1U?|SizeT\{1\})\)?$" % re.escape(holder["n"]))
        idx_locals = set(d["d"] for st_ in astq.nodes_of(f, "DeclStmt") for d in f.nodes[st_]["decls"]
                         if "d" in d and d.get("init", -1) >= 0 and last_form.match(re.sub(r"\s+", "", f.text(d["init"]))))
        bool_locals = set(d["d"] for st_ in astq.nodes_of(f, "DeclStmt") for d in f.nodes[st_]["decls"] if "d" in d and d.get("tk") == "bool" and st_ in region)

        def unit_cmp(x, what):
            """x is `str[i] ==/!= <what>`: returns (op, index node) else None"""
            n_ = f.nodes[f.strip(x)]
            if n_["k"] != "BinaryOperator" or n_["op"] not in ("==", "!="):
                return None
            for a_, b_ in ((n_["ch"][0], n_["ch"][1]), (n_["ch"][1], n_["ch"][0])):
                an = f.nodes[f.strip_casts(a_)]
                if an["k"] == "ArraySubscriptExpr" and f.nodes[f.strip_casts(an["ch"][0])].get("d") == arg0["d"] and f.text(b_).endswith(what):
                    return (n_["op"], an["ch"][1])
            return None
        blocks = f.blocks()
        cb = dataflow.block_of(f, c)
        if cb is None:
            raise AnalysisBroken("parseValue: the UnEscape call is not a CFG element")
        work = [(cb, False, False, frozenset(), frozenset(idx_locals | {holder["d"]}), True)]
        seen = set()
        bad, good_bs, reached = {}, set(), set()
        steps = 0
        while work and steps < 100000:
            steps += 1
            bid, q, bs, flags, clean, first = work.pop()
            key = (bid, q, bs, flags, clean, first)
            if key in seen:
                continue
            seen.add(key)
            fl = dict(flags)
            cl = set(clean)
            started = not first
            for e in blocks[bid]["el"]:
                x = e.get("n")
                if not isinstance(x, int) or e.get("k"):
                    continue
                if not started:
                    started = (x == c)
                    continue
                n_ = f.nodes[x]
                if n_["k"] == "DeclStmt":
                    for d in n_["decls"]:
                        if d.get("d") in bool_locals and d.get("init", -1) >= 0:
                            v = f.const_value(d["init"])
                            fl[d["d"]] = None if v is None else bool(v)
                tgt = None
                if n_["k"] == "UnaryOperator" and n_["op"] in ("++", "--"):
                    tgt = n_["ch"][0]
                elif n_["k"] == "CompoundAssignOperator" or (n_["k"] == "BinaryOperator" and n_["op"] == "="):
                    tgt = n_["ch"][0]
                if tgt is not None:
                    td = f.nodes[f.strip(tgt)].get("d")
                    cl.discard(td)
                    if td == holder["d"]:
                        cl.clear()
                    if td in bool_locals:
                        v = f.const_value(n_["ch"][1]) if n_["k"] == "BinaryOperator" else None
                        fl[td] = None if v is None else bool(v)
                if x in sinks:
                    reached.add(x)
                    if not q:
                        bad.setdefault(x, True)
                    if q and bs:
                        good_bs.add(x)
            for (s_, kind, payload) in dataflow.successors(f, blocks[bid]):
                q2, bs2 = q, bs
                if kind in ("true", "false") and payload is not None:
                    pn = f.nodes[f.strip(payload)]
                    neg = False
                    while pn["k"] == "UnaryOperator" and pn["op"] == "!":
                        neg = not neg
                        pn = f.nodes[f.strip(pn["ch"][0])]
                    if pn["k"] == "DeclRefExpr" and pn.get("d") in fl and fl[pn["d"]] is not None:
                        val = fl[pn["d"]] != neg
                        if val != (kind == "true"):
                            continue
                    uq = unit_cmp(payload, "QuoteChar")
                    if uq is not None and ((uq[0] == "==") == (kind == "true")):
                        ixn = f.nodes[f.strip_casts(uq[1])]
                        if (last_form.match(re.sub(r"\s+", "", f.text(uq[1]))) and holder["d"] in cl) or \
                                (ixn["k"] == "DeclRefExpr" and ixn.get("d") in cl and ixn.get("d") != holder["d"]):
                            q2 = True
                    if unit_cmp(payload, "BSlashChar") is not None and q:
                        bs2 = True
                work.append((s_, q2, bs2, frozenset(fl.items()), frozenset(cl), False))
        if steps >= 100000:
            raise AnalysisBroken("parseValue: the abstract paths of the string arm were not exhausted")
        if not reached:
            raise AnalysisBroken("parseValue: the string return is not reachable from the UnEscape call in the CFG")
        for x in sorted(sinks):
            quote.ob(f.q, f.text(x)[:60], x not in bad, "on every path from UnEscape the unit at (returned length - 1) was found to be the quote" if x not in bad else
                     "a path from `%s` reaches this return without the unit at (%s - 1) having been compared with the quote: UnEscape also "
                     "returns at the end of the text, so \"abc is accepted as a complete string" % (f.text(c)[:40], holder["n"]), f.loc(x))
            quote.ob(f.q, f.text(x)[:60] + " [escaped quote]", x in good_bs or x in bad, "a path between the quote test and the return looks for a backslash in front of the quote" if x in good_bs or x in bad else
                     "no path between the quote test and this return compares a unit with the backslash: the text \"abc\\\" ends in an escaped quote and is accepted", f.loc(x))
    scratch = rule_scratch(ctx, m)
    # ---------------- PR-forward: the public overloads hand the caller's text and length on unchanged
    fwd = Rule("PR-forward", "the public JSON::Parse overloads forward the caller's (content, length) unchanged", floor=3)
    for g in m.fns("Qentem::JSON::Parse"):
        if g.inst:
            continue
        ctx.note_fn(g)
        cs = [c for c in astq.calls(g) if (g.call_simple_name(c) or "") == "Parse"]
        pnames = [p_["n"] for p_ in g.params]
        if len(cs) != 1:
            fwd.ob(g.sig, "forwarding call", False, "expected exactly one call of the next Parse overload, found %d" % len(cs), "Include/JSON.hpp:%d" % g.line)
            continue
        args = [g.strip_casts(a) for a in g.call_args(cs[0])]

        local_init = {d["d"]: d["init"] for st_ in astq.nodes_of(g, "DeclStmt") for d in g.nodes[st_]["decls"] if "d" in d and d.get("init", -1) >= 0 and d.get("tk") in ("uint", "sint")}
        reassigned = set(g.nodes[g.strip(g.nodes[x]["ch"][0])].get("d") for x in g.walk() if g.nodes[x]["k"] in ("BinaryOperator", "CompoundAssignOperator", "UnaryOperator") and
                         (g.nodes[x].get("op", "").endswith("=") and g.nodes[x]["op"] not in ("==", "!=", "<=", ">=") or g.nodes[x].get("op") in ("++", "--")))

        def unwrap(x, depth=0):
            n_ = g.nodes[x]
            while n_["k"] in ("CXXFunctionalCastExpr", "CXXUnresolvedConstructExpr", "CStyleCastExpr", "CXXStaticCastExpr", "ParenExpr", "InitListExpr") and len(n_.get("ch", [])) == 1:
                x = g.strip_casts(n_["ch"][0])
                n_ = g.nodes[x]
            # a local that is initialised once and never changed stands for its initialiser
            if n_["k"] == "DeclRefExpr" and n_.get("d") in local_init and n_.get("d") not in reassigned and depth < 4:
                return unwrap(g.strip_casts(local_init[n_["d"]]), depth + 1)
            return x
        texts = [g.text(unwrap(a)) for a in args]
        ok_c = "content" in pnames and "content" in texts
        if "length" in pnames:
            ok_l = "length" in texts
            why = "passes %s (want the parameters content and length themselves)" % texts
        else:
            ok_l = any(t.replace(" ", "") in ("Count(content)", "StringUtils::Count(content)") for t in texts)
            why = "passes %s (want content and Count(content))" % texts
        fwd.ob(g.sig, g.text(cs[0])[:70], ok_c and ok_l, why, g.loc(cs[0]))
    from rules.common import rule_narrow_units
    from rules.common import rule_sign_unit
    from rules.common import rule_scanner_result
    errscan = rule_scanner_result(ctx, m, ["Digit.hpp", "JSON.hpp", "JSONUtils.hpp"])
    kw = rule_keyword_exhausted(ctx, m)
    hexr, lowr = rule_escape_units(ctx, m)
    return [gate, fail, closed, unesc, quote, scratch, errscan, kw, hexr, lowr, fwd, rule_narrow_units(ctx, m, ["JSON.hpp", "JSONUtils.hpp", "StringUtils.hpp"]),
            rule_sign_unit(ctx, m, ["JSON.hpp", "JSONUtils.hpp", "Digit.hpp", "StringUtils.hpp", "Unicode.hpp"])]


def rule_keyword_exhausted(ctx, m):
    """KW-exhaust: true / false / null are matched by walking a pointer through the keyword's literal next to the text cursor.
    The walk also stops when the TEXT ends, so "the walk stopped" does not mean "the keyword was there": success may be reported
    only where the unit under the keyword pointer is known to be the terminating zero.  Must-analysis on the CFG of every function
    of JSON.hpp that increments a pointer-to-const-character variable w and compares *w with a unit of the text: the fact
    "*w == 0" is generated on the true edge of `*w == 0` / the false edge of `*w != 0`, killed by a write to w, intersected at
    joins; it must hold at every return of a keyword kind (ValueType::True/False/Null) in the arm that declares w, and at every
    `return true` of a bool function whose parameter w is."""
    r = Rule("KW-exhaust", "a keyword is reported as matched only where its literal was walked to the terminating zero", floor=3)
    found = 0
    for f in m.functions:
        if f.inst or not f.cfg or not f.file.endswith("/JSON.hpp"):
            continue
        par = f.parents()
        blocks = f.blocks()
        # candidate walkers
        ptrs = {}
        for p_ in f.params:
            if p_.get("ptr") and p_.get("pconst") and "Char_T" in (p_.get("t") or ""):
                ptrs[p_["d"]] = (p_["n"], None)
        for st_ in astq.nodes_of(f, "DeclStmt"):
            for d in f.nodes[st_]["decls"]:
                if d.get("tk") == "ptr" and "Char_T" in (d.get("t") or "") and "const" in (d.get("t") or "") and "d" in d:
                    ptrs[d["d"]] = (d["n"], st_)

        def deref_of(x):
            """x is `*w` (possibly in casts/parens): returns decl id of w"""
            x = f.strip_casts(x)
            n_ = f.nodes[x]
            while n_["k"] == "ParenExpr":
                x = f.strip_casts(n_["ch"][0])
                n_ = f.nodes[x]
            if n_["k"] == "UnaryOperator" and n_["op"] == "*":
                return f.nodes[f.strip_casts(n_["ch"][0])].get("d")
            return None
        for wd, (wn, decl_st) in ptrs.items():
            incs = [x for x in f.walk() if f.nodes[x]["k"] == "UnaryOperator" and f.nodes[x]["op"] in ("++",) and f.nodes[f.strip(f.nodes[x]["ch"][0])].get("d") == wd]
            cmp_text = [x for x in f.walk() if f.nodes[x]["k"] == "BinaryOperator" and f.nodes[x]["op"] in ("==", "!=") and
                        any(deref_of(o) == wd for o in f.nodes[x]["ch"]) and any(f.nodes[f.strip_casts(o)]["k"] == "ArraySubscriptExpr" for o in f.nodes[x]["ch"])]
            if not incs or not cmp_text:
                continue
            # sinks
            sinks = []
            if decl_st is not None:
                arm = decl_st
                while arm in par and f.nodes[arm]["k"] not in ("CaseStmt", "DefaultStmt"):
                    arm = par[arm]
                region = set(f.walk(arm)) if f.nodes[arm]["k"] in ("CaseStmt", "DefaultStmt") else set(f.walk())
                sinks = [x for x in region if f.nodes[x]["k"] == "ReturnStmt" and
                         any(f.nodes[y]["k"] == "DeclRefExpr" and (f.nodes[y].get("q") or "") in ("Qentem::ValueType::True", "Qentem::ValueType::False", "Qentem::ValueType::Null") for y in f.walk(x))]
            elif (f.d.get("ret") or "").strip() == "bool":
                sinks = [x for x in astq.returns(f) if f.const_value(f.nodes[x].get("val", -1)) == 1]
            if not sinks:
                continue
            ctx.note_fn(f)
            found += 1

            def edge_gen(kind, payload):
                if payload is None or kind not in ("true", "false"):
                    return False
                pn = f.nodes[f.strip(payload)]
                if pn["k"] == "BinaryOperator" and pn["op"] in ("==", "!=") and any(deref_of(o) == wd for o in pn["ch"]) and \
                        any(f.const_value(f.strip_casts(o)) == 0 for o in pn["ch"]):
                    return (pn["op"] == "==") == (kind == "true")
                return False
            IN = {f.cfg["entry"]: False}
            work = [f.cfg["entry"]]
            at_sink = {}
            it = 0
            while work and it < 20000:
                it += 1
                b = work.pop()
                fact = IN[b]
                for e in blocks[b]["el"]:
                    x = e.get("n")
                    if not isinstance(x, int) or e.get("k"):
                        continue
                    n_ = f.nodes[x]
                    if (n_["k"] == "UnaryOperator" and n_["op"] in ("++", "--") and f.nodes[f.strip(n_["ch"][0])].get("d") == wd) or \
                            (n_["k"] in ("BinaryOperator", "CompoundAssignOperator") and n_.get("op", "").endswith("=") and n_["op"] not in ("==", "!=", "<=", ">=") and f.nodes[f.strip(n_["ch"][0])].get("d") == wd):
                        fact = False
                    if x in sinks:
                        at_sink[x] = at_sink.get(x, True) and fact
                for (s_, kind, payload) in dataflow.successors(f, blocks[b]):
                    nf = fact or edge_gen(kind, payload)
                    if s_ not in IN:
                        IN[s_] = nf
                        work.append(s_)
                    elif IN[s_] and not nf:
                        IN[s_] = False
                        work.append(s_)
            for x in sorted(sinks):
                ok = at_sink.get(x, False)
                r.ob(f.q, "%s (keyword pointer %s)" % (f.text(x)[:50], wn), ok, "reached only where *%s == 0 is known" % wn if ok else
                     "success is reported on a path where the walk through the literal may have stopped because the TEXT ended: a keyword cut short (tru, fals, nul at the end of the text) is taken for the keyword", f.loc(x))
    if not found:
        r.broke("JSON.hpp: no keyword-matching walk was found")
    return r


def rule_escape_units(ctx, m):
    """HEX-four / PR-lowsurr: a \\u escape is six units, \\uXXXX, and a high surrogate is followed by six more.  UnEscape moves its
    cursor over those units; every unit it moves over without looking at is a unit of the TEXT that can be anything -- the closing
    quote, the bracket, the comma ("\\ua"],"] then parses, with the string ending where the four 'digits' end).
    (HEX-four) every HexStringToNumber call in UnEscape is the cursor form (it stops at the first unit that is not a hex digit)
    and is followed, before the next write to the stream, by a comparison of that cursor with the expected end; the counted form
    HexStringToNumber(p, 4) followed by `offset += 4` takes any four units.
    (PR-lowsurr) the `offset += 2` that steps over the `\\u` of the low surrogate is dominated by the true edges of tests of
    those two units against the backslash and the letter u."""
    hexr = Rule("HEX-four", "the four units of a \\u escape are consumed only as far as they are hex digits, and all four are required", floor=2)
    low = Rule("PR-lowsurr", "the two units in front of a low surrogate are tested to be \\u before they are skipped", floor=1)
    ue = m.fn("Qentem::JSONUtils::UnEscape")
    ctx.note_fn(ue)
    calls_ = astq.calls(ue, "HexStringToNumber")
    if not calls_:
        hexr.broke("UnEscape: no HexStringToNumber call found")
    for c in calls_:
        args = ue.call_args(c)
        cursor_form = len(args) == 3
        tested = False
        if cursor_form:
            cur = ue.nodes[ue.strip_casts(args[1])]
            # a later comparison of the cursor with an end position (== / !=), before the stream is written
            for y in ue.walk():
                yn = ue.nodes[y]
                if y > c and yn["k"] == "BinaryOperator" and yn["op"] in ("==", "!=") and any(ue.nodes[ue.strip_casts(o)].get("d") == cur.get("d") and cur.get("d") is not None for o in yn["ch"]):
                    tested = True
        hexr.ob(ue.q, ue.text(c)[:70], cursor_form and tested, "cursor form, and the cursor is compared with the expected end" if cursor_form and tested else
                "the four units after \\u are taken as hex digits without a test (%s): \"\\ua\"],\"] consumes the closing quote and bracket as digits and is accepted"
                % ("counted form" if not cursor_form else "the cursor is never compared with the expected end"), ue.loc(c))
    # the skip over \u of the low surrogate: offset += 2 inside the \u arm
    skips = [y for y in ue.walk() if ue.nodes[y]["k"] == "CompoundAssignOperator" and ue.nodes[y]["op"] == "+=" and ue.const_value(ue.strip_casts(ue.nodes[y]["ch"][1])) == 2]
    if not skips:
        low.ob(ue.q, "low surrogate", True, "no two-unit skip in UnEscape (the low surrogate's \\u is consumed some other way)", "Include/JSONUtils.hpp:%d" % ue.line)
    for y in skips:
        cur = ue.nodes[ue.strip(ue.nodes[y]["ch"][0])]
        tests = {"BSlashChar": False, "U_Char": False}
        tb = dataflow.block_of(ue, y)
        for k, names in (("BSlashChar", ("BSlashChar",)), ("U_Char", ("U_Char", "CU_Char"))):
            conds = set()
            for t in ue.walk():
                tn = ue.nodes[t]
                if tn["k"] == "BinaryOperator" and tn["op"] == "==" and any(ue.nodes[ue.strip_casts(o)]["k"] == "ArraySubscriptExpr" and cur.get("n", "?") in ue.text(o) for o in tn["ch"]) and \
                        any(ue.text(o).split("::")[-1] in names for o in tn["ch"]):
                    conds.add(t)
            if conds and tb is not None:
                # cut the true edges of all of them together (u or U): is the skip still reachable?
                seen = dataflow.reachable(ue, avoid_edge=lambda b, s_, kind, payload: kind == "true" and payload is not None and ue.strip(payload) in conds)
                tests[k] = tb not in seen
        ok = all(tests.values())
        low.ob(ue.q, ue.text(y), ok, "both units are tested before they are skipped" if ok else
               "the two units after a high surrogate are skipped without being looked at (%s not tested): [\"\\uD83D\"]1234\"] is accepted, the `\"]` is swallowed as if it were \\u"
               % ", ".join(k for k, v in tests.items() if not v), ue.loc(y))
    return [hexr, low]


def run(ctx):
    rules_ = list(_run_own(ctx) or [])
    from rules.common import shared
    have = set(r_.rid for r_ in rules_)
    rules_ += [r_ for r_ in shared(ctx, 'C06', ['TB-ws', 'TB-brackets', 'X-surrogate', 'X-valuestart']) if r_.rid not in have]
    return rules_
